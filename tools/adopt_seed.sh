#!/bin/bash
# adopt_seed.sh <worktree> <pid> : verify each _seed*/ in a scratch worktree (suite still passes, demo fails with / passes without),
# copy to /verif/seeded/<pid>-<k>/ and remove the worktree.
set -u
WT=$1; PID=$2
cd "$WT" || exit 2
git checkout -q -- xknx 2>/dev/null
k=0
for S in _seed _seed2 _seed3; do
  [ -f "$S/patch.diff" ] || continue
  demo=$(ls $S/demo*.py 2>/dev/null | head -1)
  [ -n "$demo" ] || continue
  n=$(ls -d /verif/seeded/$PID-* 2>/dev/null | wc -l); id="$PID-$((n+1))"
  git checkout -q -- xknx
  runner="/venv/bin/python $demo"; case "$demo" in *_test.py) runner="/venv/bin/python -m pytest -q -p no:cacheprovider $demo";; esac
  timeout 300 $runner > /tmp/adopt-$id-clean.log 2>&1; rc_clean=$?
  if ! git apply "$S/patch.diff" 2>/tmp/adopt-$id-apply.log; then echo "$id: patch does not apply"; continue; fi
  timeout 300 $runner > /tmp/adopt-$id-mut.log 2>&1; rc_mut=$?
  timeout 900 /venv/bin/python -m pytest -q -p no:cacheprovider --timeout=900 -x \
     --deselect test/io_tests/knxip_interface_test.py::TestKNXIPInterface::test_start_automatic_connection \
     --deselect test/io_tests/secure_session_test.py::TestSecureSession::test_lifecycle > /tmp/adopt-$id-suite.log 2>&1; rc_suite=$?
  suite=$(tail -1 /tmp/adopt-$id-suite.log)
  git checkout -q -- xknx
  if [ $rc_clean -eq 0 ] && [ $rc_mut -ne 0 ] && [ $rc_suite -eq 0 ]; then
    mkdir -p /verif/seeded/$id
    cp "$S/patch.diff" /verif/seeded/$id/patch.diff
    cp "$demo" /verif/seeded/$id/
    python3 - "$S/meta.json" "/verif/seeded/$id/meta.json" "$PID" "$rc_clean" "$rc_mut" "$suite" "$demo" <<'PY'
import json,sys
src,dst,pid,rc_clean,rc_mut,suite,demo=sys.argv[1:]
try: m=json.load(open(src))
except Exception: m={}
m["property"]=pid
m["verified_by_me"]={"demo":demo,"demo_exit_unchanged_tree":int(rc_clean),"demo_exit_with_patch":int(rc_mut),"suite_with_patch_(2_known_sandbox_failures_deselected)":suite,
  "how":"scratch worktree of /repo HEAD: demo on clean tree, git apply patch.diff, demo again, full pytest run, git checkout"}
json.dump(m,open(dst,"w"),indent=1)
PY
    echo "$id: ADOPTED clean=$rc_clean mut=$rc_mut suite='$suite'"
  else
    echo "$id: REJECTED clean=$rc_clean mut=$rc_mut suite_rc=$rc_suite '$suite'"
  fi
done
cd / && git -C /repo worktree remove --force "$WT"
