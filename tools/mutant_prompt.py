#!/usr/bin/env python3
"""Print the sub-agent prompt for a property id (property text only) and create its scratch worktree."""
import json, subprocess, sys
pid = sys.argv[1]
tag = sys.argv[2] if len(sys.argv) > 2 else "a"
style = sys.argv[3] if len(sys.argv) > 3 else ""
STYLES = {
    "": "",
    "env": " This time, strongly prefer a change whose effect depends on TIMING or on an ANSWER OF THE ENVIRONMENT rather than on an input value: an exception raised by a transport, callback or awaited call at a particular moment; a timeout or timer landing before/after another event; a task cancelled or a connection lost in the middle of an operation; a retry/reconnect/restart path; two frames or calls handled in the same event-loop iteration; cleanup that is skipped on an error path; state that is reset (or not) when an object is stopped and started again.",
    "api": " This time, strongly prefer a change in a SECOND ENTRY POINT or REPRESENTATION that reaches the same mechanism as the obvious one: an alternative constructor or classmethod, string vs number vs object vs dict forms of the same value, from_dict/as_dict, __eq__/__hash__/__repr__/__str__, a class attribute shadowed by an instance, a subclass overriding one hook of the base class, a convenience wrapper in xknx/tools or xknx/mcp, a default argument. The obvious path must keep working.",
    "config": " This time, strongly prefer a change that only manifests under a NON-DEFAULT CONFIGURATION: a constructor / config option the tests rarely set (route_back, auto_reconnect=False, auto_reconnect_wait, rate_limit=0 or a high one, a custom multicast group or port, latency, individual_address, threaded, sync_state policies such as 'every 2' / 'expire 30' / 'init' / False, invert flags, respond_to_read, always_callback, ignore_internal_state, context_timeout, cooldown, periodic_send, travel times, setpoint shift mode/step/min/max, value ranges, local_ip / local_port, user ids) or a particular COMBINATION of two options. With the default configuration everything must keep working.",
    "thread": " This time the change must concern the THREADED interface: ConnectionConfig(threaded=True) makes XKNX use KNXIPInterfaceThreaded (xknx/io/knxip_interface.py), which runs the tunnel in a second OS thread with its own event loop and hands everything over with run_coroutine_threadsafe / call_soon_threadsafe / threading.Event / run_in_executor, and ConnectionManager.register_loop() (xknx/core/connection_manager.py) makes state changes hop to the main loop. Aim at a change in this hand-over code (start, stop, failed start and clean-up, send_cemi, cemi_received, gateway_info, connection_state_changed, the order of stopping the loop / joining the thread / disconnecting) that looks like a simplification or optimisation, keeps the non-threaded default working, and makes the threaded configuration violate the property only for some interleaving of the two threads or some event order (a frame or state change arriving during start()/stop(), a second start() after a failed one, stop() while a send is pending). Your demo may use real threads and a fake gateway on loopback UDP/TCP sockets (127.0.0.1 works in this sandbox) or may drive the classes directly.",
    "state": " This time, strongly prefer a change that corrupts INTERNAL STATE in a way that only shows in a LATER operation: a counter, flag, cached value, pending future, timer or registry entry that is not reset / cleared / restored on an error path, a time-out path, a cancellation, a clean-up or a reconnect - so that the operation during which it happens still looks right and a following, perfectly ordinary operation (or a second session on the same object) goes wrong. The more steps lie between cause and visible effect, the better (three to five events are fine).",
    "deep": " This time, strongly prefer a change that is NOT the most obvious single-line slip in the first file listed: aim at a secondary code path (a rarely taken branch, an error/cleanup path, a helper shared by several callers, state carried over from an earlier operation, a second entry point that reaches the same mechanism, a default argument, a cache) so that the violation only shows after some history or for a narrow class of inputs/configurations.",
}
p = next(json.loads(l) for l in open('/verif/properties.jsonl') if json.loads(l)['id'] == pid)
wt = f"/tmp/wt-{pid}-{tag}"
subprocess.run(["git", "-C", "/repo", "worktree", "add", "-q", "--detach", wt, "HEAD"], check=True)
print(f"""You are helping to evaluate a verification harness for the Python library XKNX/xknx (asynchronous KNX/IP library). Your job is to write a realistic *property-breaking change* (a seeded bug) to the library.

Your private scratch git worktree of the repository is at {wt} . Work ONLY there (never touch /repo or /verif, never read /verif). Python is /venv/bin/python; run things from inside the worktree directory so that `import xknx` resolves to the worktree copy (verify with `cd {wt} && /venv/bin/python -c "import xknx; print(xknx.__file__)"`). There is no network.

The property that your change must break:

  id: {pid}
  title: {p['title']}
  statement: {p['statement']}
  (the code it concerns lives mainly in: {', '.join(p['anchors']['files'])})

Requirements for the change:
 1. It modifies only library source under {wt}/xknx/ (not tests), is small (a few lines), still imports, and looks like a plausible mistake or "simplification"/refactoring a maintainer could make (off-by-one, wrong comparison, moved statement, dropped reset, cached value, reordered await, missing mask...).
 2. The repository's existing test-suite must STILL PASS with it: run `cd {wt} && /venv/bin/python -m pytest -q -p no:cacheprovider -x --timeout=900 2>&1 | tail -5` (about 25 s; two tests — test_start_automatic_connection and secure_session_test::test_lifecycle — already fail on the unmodified tree in this sandbox, ignore exactly those two; use `--deselect` for them or run without -x). If any other test fails, pick a different change.
 3. It must NOT be something ordinary use exposes at once. It should need something specific to manifest: a particular interleaving / event order, a fault at a particular point, a multi-step sequence of operations, an unusual or boundary input, or two cooperating sites that each look fine alone.{STYLES[style]}
 4. It must genuinely violate the property statement above (not just some other behaviour).

Deliverables — write these files into {wt}/_seed/ :
   - patch.diff : output of `git -C {wt} diff -- xknx` (the change, relative to HEAD)
   - demo.py (or demo_test.py) : a small standalone program that exits non-zero / fails WITH the change and exits 0 / passes WITHOUT it (check both; NEVER use `git stash` — the stash is shared with other worktrees of this repository and other people are working in them; instead do `git diff -- xknx > /tmp/my-{pid}.diff; git apply -R /tmp/my-{pid}.diff; ...; git apply /tmp/my-{pid}.diff`, and before finishing re-check that `git diff -- xknx` equals your patch.diff), demonstrating the violation of the property through the library's real API. Run it as `cd {wt} && /venv/bin/python _seed/demo.py`. IMPORTANT: a script under _seed/ has _seed on sys.path[0], not the worktree, so the demo must itself insert the worktree root at the front of sys.path (e.g. sys.path.insert(0, str(pathlib.Path(__file__).resolve().parents[1]))) and print xknx.__file__ to prove it uses the worktree copy.
   - meta.json : {{"property": "{pid}", "summary": "...what was changed...", "needs": "...what is needed for it to manifest...", "ran": ["...commands you ran and their result..."]}}
Leave the change APPLIED in the worktree when you finish. If you can, produce a second, different change for the same property as _seed2/ (same three files; patch.diff relative to HEAD containing only the second change) — but one good one is better than two weak ones.

In your final answer, report briefly: the diff, what it needs to manifest, and the test-suite result line.""")
