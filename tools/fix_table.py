#!/usr/bin/env python3
"""Rewrite the table of `fix:` commits in DESIGN.md (section 7) from /repo's git log."""
import re, subprocess
log = subprocess.check_output(["git", "-C", "/repo", "log", "--format=%h\t%s"]).decode().splitlines()
rows = [l.split("\t", 1) for l in log if l.split("\t", 1)[1].startswith("fix:")]
table = "| commit | defect |\n|---|---|\n" + "".join(f"| `{h}` | {s[4:].strip()} |\n" for h, s in rows)
p = "/verif/DESIGN.md"
s = open(p).read()
a = s.index("### Repaired (`fix:` commits in /repo, newest first)")
b = s.index("### Open known findings")
s = s[:a] + "### Repaired (`fix:` commits in /repo, newest first)\n\n" + table + "\n" + s[b:]
open(p, "w").write(s)
print(len(rows), "fix commits")
