#!/bin/bash
# run_all_checks.sh [tier] [seed]: every property's check on /repo, one line each; evidence goes to a scratch directory
# (the committed evidence is only ever written by a plain `./check` run).
TIER=${1:-quick}; SEED=${2:-0}
cd /verif
EV=$(mktemp -d /dev/shm/ev-XXXX)
for i in $(seq -w 1 46); do
  out=$(VERIF_SEED=$SEED VERIF_EVIDENCE_DIR=$EV timeout 7200 ./check C$i --tier $TIER 2>&1); rc=$?
  echo "$out" | grep -E "^C$i tier=|^VIOLATION|HARNESS" | cut -c1-260
  [ $rc -ne 0 ] && echo "C$i rc=$rc"
done
rm -rf $EV
