#!/usr/bin/env python3
"""Regenerate MANIFEST.json from vf/props/*.py (implemented) and tools/manifest_table.py."""

import json
import os
import sys

HERE = os.path.dirname(os.path.dirname(os.path.abspath(__file__)))
sys.path.insert(0, os.path.join(HERE, "tools"))
import manifest_table as T  # noqa: E402

props = [json.loads(l) for l in open(os.path.join(HERE, "properties.jsonl"))]
implemented = {f[:-3].upper() for f in os.listdir(os.path.join(HERE, "vf", "props")) if f.startswith("c") and f.endswith(".py")}

checks = []
na = []
for p in props:
    pid = p["id"]
    if pid in implemented and pid in T.CHECKS:
        ent = T.CHECKS[pid]
        checks.append(
            {
                "property_id": pid,
                "quick_cmd": f"./check {pid} --tier quick",
                "thorough_cmd": f"./check {pid} --tier thorough",
                "evidence_file": f"/verif/evidence/{pid}.json",
                "replay_cmd_template": f"./check {pid} --replay {{path}}",
                "engine": ent["engine"],
                "level_claimed": {"category": "model_checking", "text": ent["text"], "design_ref": f"DESIGN.md section 3, {pid}"},
                "level_note": ent["note"],
                "technique": T.TECHNIQUE[ent["engine"]],
            }
        )
    else:
        na.append({"property_id": pid, "reason": T.NOT_APPLICABLE.get(pid, "check not built yet in this session (design in DESIGN.md section 3); not claimed")})

manifest = {
    "version": 1,
    "setup_cmd": "./check --selftest",
    "hooks": {
        "guard": "XKNX_VERIF",
        "enable": "no source hooks: checks import /repo's working tree directly (sys.path) and drive it through a virtual event loop, in-memory transports and module-attribute patches",
        "baseline_off_cmd": "cd /repo && /venv/bin/python -m pytest -ra -q -p no:cacheprovider --timeout=900 --continue-on-collection-errors",
        "source_commits": [],
        "add_only": True,
    },
    "engines": [
        {"name": "E1", "path": "vf/runner.py", "serves_properties": sorted(k for k, v in T.CHECKS.items() if v["engine"] == "E1" and k in implemented),
         "kind_free_text": "bounded-exhaustive enumeration of a finite input/configuration space, real code executed on every element, 16 worker processes"},
        {"name": "E2", "path": "vf/explore.py", "serves_properties": sorted(k for k, v in T.CHECKS.items() if v["engine"] == "E2" and k in implemented),
         "kind_free_text": "explicit-state / deviation-bounded exploration of the real asyncio implementation on a hand-stepped virtual event loop (vf/vloop.py) with simulated peers"},
    ],
    "checks": checks,
    "not_applicable": na,
    "notes": "All checks honour VERIF_SEED (only adds alphabet elements, never selects a subset) and VERIF_REPO (default /repo). Exit 2 = harness error, never a violation.",
}
with open(os.path.join(HERE, "MANIFEST.json"), "w") as fh:
    json.dump(manifest, fh, indent=1)
    fh.write("\n")
print(f"checks={len(checks)} not_applicable={len(na)}")
