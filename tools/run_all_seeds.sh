#!/bin/bash
# run_all_seeds.sh [tier]: run every adopted seed against its property's check (4 at a time); one line per seed into
# seeded/results-<tier>.txt (and stdout).
TIER=${1:-quick}
cd /verif
ls seeded | grep -E '^C[0-9]+-[0-9]+$' | while read id; do
  grep -q '"status": "obsolete' seeded/$id/meta.json 2>/dev/null && continue
  with=$(python3 -c "import json;print(json.load(open('seeded/$id/meta.json')).get('run_with',''))" 2>/dev/null)
  if [ -n "$with" ]; then echo "$id $TIER $with"; else echo "$id $TIER"; fi
done | xargs -P 4 -L1 tools/run_seed.sh 2>&1 | grep -E '^C[0-9]+-[0-9]+' | tee seeded/results-$TIER.txt.tmp
sort -V seeded/results-$TIER.txt.tmp > seeded/results-$TIER.txt; rm -f seeded/results-$TIER.txt.tmp
