#!/bin/bash
# run_all_seeds.sh [tier]: run every adopted seed against its property's check (4 at a time); prints one line per seed.
TIER=${1:-quick}
cd /verif
ls seeded | while read id; do
  pid=${id%%-*}
  [ -f vf/props/$(echo $pid | tr A-Z a-z).py ] || { echo "$id [$pid]: NO-CHECK-YET"; continue; }
  grep -q '"status": "obsolete' seeded/$id/meta.json 2>/dev/null && { echo "$id: OBSOLETE"; continue; }
  echo $id
done | grep -v ":" | xargs -P 4 -I{} tools/run_seed.sh {} $TIER
