"""Per-property manifest text. A property is listed in MANIFEST.checks only if vf/props/cNN.py exists."""

TECHNIQUE = {
    "E1": "model checking: bounded-exhaustive enumeration of the stated finite input/configuration space, real implementation executed on every element against a reference oracle",
    "E2": "model checking: explicit-state / deviation-bounded exhaustive exploration of the real asyncio implementation on a hand-stepped virtual event loop, reference model stepped in lock-step",
}

NOTE_E1 = "Trusted: CPython, the harness reference model/oracle in vf/; covers exactly the alphabets listed in the evidence 'rule'/'bounds' (values outside are not covered)."
NOTE_E2 = "Trusted: CPython asyncio Task/Future/Queue semantics (stock classes run on vf/vloop.VLoop), the simulated peer and reference model in vf/; covers all environment schedules within the stated deviation bound / depth."

CHECKS = {
    "C07": {"engine": "E1", "note": NOTE_E1, "text": "Every concrete DPT class x every 6-bit payload x every byte array of length 0..2 (complete), plus per-position sweeps for longer payloads, decoded by the real from_knx and through GroupAddressDPT.set_decoded_data; only CouldNotParseTelegram/ConversionError may escape. Exhaustive over the stated space, so a single escaping exception type anywhere in it is found."},
    "C08": {"engine": "E1", "note": NOTE_E1, "text": "Same complete payload space as C07; for every accepted payload the real encoder must accept the decoded value and the re-decoded value must be equal (NaN-aware; text types modulo the documented '?' replacement). Exhaustive for payloads of <=2 octets, per-position for longer ones."},
    "C09": {"engine": "E1", "note": NOTE_E1, "text": "Every DPTNumeric class: every raw value of <=16-bit wire fields with fractional offsets, all power-of-two neighbourhoods for 32/64-bit, every representable DPT 9 value and all midpoints, every binary32 exponent for DPT 14; oracle in exact rational arithmetic against declared min/max/resolution."},
    "C10": {"engine": "E1", "note": NOTE_E1, "text": "Every DPTComplex/DPTEnum class over its decode image in the C07 space; as_dict()/member name through json.dumps(allow_nan=False)/loads, to_knx, from_knx must give an equal value."},
    "C23": {"engine": "E2", "note": NOTE_E2, "text": "Explicit-state search of the real UDPTunnel / DeviceManagement receive handlers: every state (expected counter 0..255 x reconnect timer pending, route-back on/off) is reached by a real history from connect(); from each, every counter 0..255 and a foreign channel id is fed and acks / frames passed up / next state are compared with the three-way verdict of Tunnelling 2.6.1; frames racing the ConnectResponse and reconnects included. Complete over the 8-bit counter, so the per-transition verdict extends to all histories by induction on the canonical state."},
    "C24": {"engine": "E2", "note": NOTE_E2, "text": "Real UDPTunnel.send_cemi (1-3 sends, concurrent or sequential, auto-reconnect on/off) against a simulated gateway; every schedule of gateway answers (ok/none/error/stale counter/other channel/twice/late/server disconnect; reconnect ok/late/refused/none) with <=2 (thorough <=3) deviations is executed to a 60 s horizon and the gateway log is checked against the sequencing/ack rules; 300-send wrap-around run."},
    "C26": {"engine": "E2", "note": NOTE_E2, "text": "Real ConnectionHeartbeat under virtual time; the complete tree of request-outcome sequences (ok/error/no response/raise/gone, plus stop()/start() during a request) to depth 8 (thorough 11) against a reference automaton stepped in lock-step."},
}

NOT_APPLICABLE: dict[str, str] = {}
