#!/usr/bin/env python3
"""Regenerate the 'which check catches which seeded change' table of DESIGN.md from seeded/results-*.txt (written by
tools/run_all_seeds.sh) and each seed's meta.json."""
import json, os, re, sys

HERE = os.path.dirname(os.path.dirname(os.path.abspath(__file__)))
res = {}
for tier in ("quick", "thorough"):
    p = os.path.join(HERE, "seeded", f"results-{tier}.txt")
    if not os.path.exists(p):
        continue
    for line in open(p):
        m = re.match(r"^(C\d\d-\d+) \[(C\d\d) (\w+)\]: (DETECTED|MISSED)\s*(?:signature: (.*))?$", line.strip())
        if m:
            sid, chk, t, verdict, sig = m.groups()
            if verdict == "DETECTED" and sid not in res:
                res[sid] = (chk, t, sig or "")
            elif verdict == "MISSED":
                res.setdefault(sid, (chk, t, "MISSED"))
rows = []
n_obsolete = 0
for sid in sorted(os.listdir(os.path.join(HERE, "seeded")), key=lambda s: (s.split("-")[0], int(s.split("-")[1]) if "-" in s and s.split("-")[1].isdigit() else 0)):
    mp = os.path.join(HERE, "seeded", sid, "meta.json")
    if not os.path.exists(mp):
        continue
    meta = json.load(open(mp))
    summ = re.sub(r"\s+", " ", str(meta.get("summary", ""))).replace("|", "/")
    summ = summ[:150] + ("..." if len(summ) > 150 else "")
    status = str(meta.get("status", ""))
    if status.startswith("obsolete"):
        res.pop(sid, None)
        why = re.sub(r"\s+", " ", status[9:].strip()).replace("|", "/")
        rows.append(f"| {sid} | {summ} | not counted | {why[:220]}{'...' if len(why) > 220 else ''} |")
        n_obsolete += 1
        continue
    chk, tier, sig = res.get(sid, ("-", "-", "not run"))
    rows.append(f"| {sid} | {summ} | {chk} {tier} | `{sig[:70]}` |")
table = "| seeded change | what it changes (author's summary) | caught by | first signature |\n|---|---|---|---|\n" + "\n".join(rows)
n_det = sum(1 for s in res.values() if s[2] != "MISSED")
head = (f"{len(rows)} seeded changes: {n_det} detected by the check named in the third column (the property's own check unless the seed's meta.json names another one with a reason), "
        f"{sum(1 for s in res.values() if s[2] == 'MISSED')} missed, {n_obsolete} not counted (not a violation of the statement as written, or made harmless by a later repair - reason in the row), "
        f"{len(rows) - n_det - n_obsolete - sum(1 for s in res.values() if s[2] == 'MISSED')} not yet run in the last full sweep.\n\n")
d = open(os.path.join(HERE, "DESIGN.md")).read()
a, b = "<!-- seed-matrix:begin -->", "<!-- seed-matrix:end -->"
if a in d:
    d = d[: d.index(a) + len(a)] + "\n" + head + table + "\n" + d[d.index(b):]
    open(os.path.join(HERE, "DESIGN.md"), "w").write(d)
print(head.strip())
