#!/bin/bash
# run_seed.sh <seed-id> [tier] [property]: run the property's check against a scratch copy of /repo with the seeded patch applied.
# Prints DETECTED / MISSED. The scratch copy lives under /dev/shm and is removed afterwards.
ID=$1; TIER=${2:-quick}
PID=${3:-${ID%%-*}}
D=/dev/shm/xknx-mut-$ID-$$
mkdir -p $D && rsync -a --exclude .git --exclude test --exclude docs /repo/ $D/ || exit 2
if ! (cd $D && patch -p1 -s -F0 --no-backup-if-mismatch < /verif/seeded/$ID/patch.diff); then echo "$ID: PATCH-FAILED"; rm -rf $D; exit 2; fi
out=$(cd /verif && VERIF_REPO=$D VERIF_EVIDENCE_DIR=$D/_ev timeout 3000 ./check $PID --tier $TIER 2>&1); rc=$?
rm -rf $D
if [ $rc -eq 1 ] && echo "$out" | grep -q "^VIOLATION property=$PID"; then echo "$ID [$PID $TIER]: DETECTED  $(echo "$out" | grep -m1 signature | cut -c1-160)";
elif [ $rc -eq 0 ]; then echo "$ID [$PID $TIER]: MISSED"; else echo "$ID [$PID $TIER]: rc=$rc $(echo "$out" | tail -3 | cut -c1-300)"; fi
