#!/bin/bash
# rebase_seed.sh <seed-id>: re-generate seeded/<id>/patch.diff against /repo HEAD when a later fix: commit changed its context
# (applies with fuzz in a scratch worktree, which is removed again). The change itself must stay the same - look at the diff printed.
ID=$1
D=/dev/shm/xk-rebase-$$
git -C /repo worktree add -q --detach $D HEAD || exit 2
if (cd $D && patch -p1 -F3 --no-backup-if-mismatch < /verif/seeded/$ID/patch.diff); then
  (cd $D && git diff -- xknx) > /verif/seeded/$ID/patch.diff
  python3 - "$ID" <<'PY'
import json,sys
p=f'/verif/seeded/{sys.argv[1]}/meta.json'; m=json.load(open(p)); m['rebased']="patch.diff regenerated against the current /repo HEAD after a later fix: commit changed its context lines (same change)"; json.dump(m,open(p,'w'),indent=1)
PY
  cat /verif/seeded/$ID/patch.diff
else echo "$ID: does not apply even with fuzz"; fi
git -C /repo worktree remove --force $D
