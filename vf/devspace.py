"""Construction of every device class over a small, deliberately colliding group-address pool (C37, C38, C39)."""

from __future__ import annotations

import inspect
from typing import Any

import xknx.devices as D
from xknx.devices import Device

EXTRA: dict[str, dict[str, Any]] = {
    "Sensor": {"value_type": "temperature"},
    "ExposeSensor": {"value_type": "temperature"},
    "NumericValue": {"value_type": "temperature"},
    "Notification": {},
    "RawValue": {"payload_length": 1},
    "Scene": {"scene_number": 3},
    # with localtime=True these devices document that a state address is ignored
    "DateDevice": {"localtime": False},
    "TimeDevice": {"localtime": False},
    "DateTimeDevice": {"localtime": False},
}


def device_classes() -> list[str]:
    out = []
    for n in sorted(dir(D)):
        c = getattr(D, n)
        if isinstance(c, type) and issubclass(c, Device) and c is not Device and not inspect.isabstract(c):
            out.append(n)
    return out


def ga_params(cls_name: str) -> list[str]:
    sig = inspect.signature(getattr(D, cls_name).__init__)
    return [p for p in sig.parameters if p.startswith("group_address")]


def build(xknx: Any, cls_name: str, name: str, pool: list[str], off: int = 0, stride: int = 1, as_list: bool = False, with_mode: bool = False) -> tuple[Any, set[str]]:
    """Device of class `cls_name`; its i-th address parameter (for i % stride == off % stride) gets pool[(i + off) % len(pool)].

    Returns (device, the set of address strings the harness assigned) - the reference for dispatch, independent of
    Device.group_addresses()/has_group_address().
    """
    cls = getattr(D, cls_name)
    kwargs: dict[str, Any] = dict(EXTRA.get(cls_name, {}))
    used: set[str] = set()
    for i, p in enumerate(ga_params(cls_name)):
        if i % stride != off % stride:
            continue
        a = pool[(i + off) % len(pool)]
        if as_list == "passive" and i % 2 == 0:
            # listen-only: no active address, one passive address
            kwargs[p] = [None, a]
            used.add(a)
        elif as_list and i % 2 == 0:
            b = pool[(i + off + 1) % len(pool)]
            kwargs[p] = [a, b]
            used |= {a, b}
        else:
            kwargs[p] = a
            used.add(a)
    if cls_name == "Climate" and with_mode:
        mode, mused = build(xknx, "ClimateMode", name + "-mode", pool, off + 1, stride)
        kwargs["mode"] = mode
        used |= mused
    dev = cls(xknx, name, **kwargs)
    return dev, used
