"""Construction of every device class over a small, deliberately colliding group-address pool (C37, C38, C39)."""

from __future__ import annotations

import inspect
from typing import Any

import xknx.devices as D
from xknx.devices import Device

EXTRA: dict[str, dict[str, Any]] = {
    "Sensor": {"value_type": "temperature"},
    "ExposeSensor": {"value_type": "temperature"},
    "NumericValue": {"value_type": "temperature"},
    "Notification": {},
    "RawValue": {"payload_length": 1},
    "Scene": {"scene_number": 3},
    # with localtime=True these devices document that a state address is ignored
    "DateDevice": {"localtime": False},
    "TimeDevice": {"localtime": False},
    "DateTimeDevice": {"localtime": False},
}


def variants() -> dict[str, list[dict[str, Any]]]:
    """Non-default option sets per class ('Cover#1' = Cover with the first set): the options that change how a received value is
    interpreted (inversions, ranges, modes, steps), which the default configuration never exercises."""
    from xknx.devices.climate import SetpointShiftMode

    return {
        "Cover": [{"invert_position": True, "invert_angle": True, "invert_updown": True}],
        "Climate": [{"setpoint_shift_mode": SetpointShiftMode.DPT6010, "temperature_step": 0.5, "on_off_invert": True},
                    {"setpoint_shift_mode": SetpointShiftMode.DPT9002, "temperature_step": 0.25, "min_temp": 10, "max_temp": 30}],
        "Switch": [{"invert": True}],
        "BinarySensor": [{"invert": True, "ignore_internal_state": True}],
        "Fan": [{"max_step": 3}],
        "Light": [{"min_kelvin": 2000, "max_kelvin": 7000}],
        "Sensor": [{"value_type": "percent"}, {"value_type": "counter_pulses"}, {"value_type": "percentV8"}],
        "NumericValue": [{"value_type": "percent"}],
        "ExposeSensor": [{"value_type": "percent"}],
        "RawValue": [{"payload_length": 0}, {"payload_length": 2}],
    }


def variant_names() -> list[str]:
    return [f"{c}#{i + 1}" for c, vs in variants().items() for i in range(len(vs))]


def device_classes() -> list[str]:
    out = []
    for n in sorted(dir(D)):
        c = getattr(D, n)
        if isinstance(c, type) and issubclass(c, Device) and c is not Device and not inspect.isabstract(c):
            out.append(n)
    return out


def ga_params(cls_name: str) -> list[str]:
    sig = inspect.signature(getattr(D, cls_name).__init__)
    return [p for p in sig.parameters if p.startswith("group_address")]


def build(xknx: Any, cls_name: str, name: str, pool: list[str], off: int = 0, stride: int = 1, as_list: bool = False, with_mode: bool = False) -> tuple[Any, set[str]]:
    """Device of class `cls_name`; its i-th address parameter (for i % stride == off % stride) gets pool[(i + off) % len(pool)].

    Returns (device, the set of address strings the harness assigned) - the reference for dispatch, independent of
    Device.group_addresses()/has_group_address().
    """
    extra: dict[str, Any] = {}
    if "#" in cls_name:
        cls_name, vi = cls_name.split("#")
        extra = variants()[cls_name][int(vi) - 1]
    cls = getattr(D, cls_name)
    kwargs: dict[str, Any] = dict(EXTRA.get(cls_name, {}))
    kwargs.update(extra)
    used: set[str] = set()
    for i, p in enumerate(ga_params(cls_name)):
        if i % stride != off % stride:
            continue
        a = pool[(i + off) % len(pool)]
        if as_list == "passive" and i % 2 == 0:
            # listen-only: no active address, one passive address
            kwargs[p] = [None, a]
            used.add(a)
        elif as_list and i % 2 == 0:
            b = pool[(i + off + 1) % len(pool)]
            kwargs[p] = [a, b]
            used |= {a, b}
        else:
            kwargs[p] = a
            used.add(a)
    if cls_name == "Climate" and with_mode:
        mode, mused = build(xknx, "ClimateMode", name + "-mode", pool, off + 1, stride)
        kwargs["mode"] = mode
        used |= mused
    dev = cls(xknx, name, **kwargs)
    return dev, used
