"""Simulated KNXnet/IP Secure tunnelling server (TCP): session handshake + secure wrapper around the plain gateway policy.

Crypto comes from the independent reference (vf/ref/ipsec.py); X25519 from `cryptography` (trusted primitive).
"""

from __future__ import annotations

from typing import Any, Callable

from cryptography.hazmat.primitives import serialization
from cryptography.hazmat.primitives.asymmetric.x25519 import X25519PrivateKey, X25519PublicKey

from xknx.io import ip_secure as ip_secure_mod
from xknx.knxip import KNXIPFrame
from xknx.knxip.knxip_enum import SecureSessionStatusCode

from ..ref import ipsec
from ..vloop import VLoop

SERVER_SERIAL = bytes.fromhex("00fa12345678")
CLIENT_PRIV = bytes(range(1, 33))
SERVER_PRIV = bytes(range(33, 65))


def pub_of(priv: bytes) -> bytes:
    return X25519PrivateKey.from_private_bytes(priv).public_key().public_bytes(serialization.Encoding.Raw, serialization.PublicFormat.Raw)


def fixed_client_keypair() -> tuple[X25519PrivateKey, bytes]:
    k = X25519PrivateKey.from_private_bytes(CLIENT_PRIV)
    return k, pub_of(CLIENT_PRIV)


class PatchCrypto:
    """Make the client deterministic and fast: fixed ECDH key pair, memoised PBKDF2 (pure functions)."""

    def __enter__(self) -> "PatchCrypto":
        self.saved = (ip_secure_mod.generate_ecdh_key_pair, ip_secure_mod.derive_user_password, ip_secure_mod.derive_device_authentication_password)
        ip_secure_mod.generate_ecdh_key_pair = fixed_client_keypair
        ip_secure_mod.derive_user_password = ipsec.user_password_key
        ip_secure_mod.derive_device_authentication_password = ipsec.device_authentication_key
        return self

    def __exit__(self, *a: Any) -> None:
        ip_secure_mod.generate_ecdh_key_pair, ip_secure_mod.derive_user_password, ip_secure_mod.derive_device_authentication_password = self.saved


class SecureServer:
    """Server side of one TCP connection. `inner_handler(body)` sees the unwrapped client frames."""

    def __init__(self, loop: VLoop, user_password: str = "secret", device_password: str | None = "trustme", session_id: int = 7) -> None:
        self.loop = loop
        self.user_key = ipsec.user_password_key(user_password)
        self.device_key = ipsec.device_authentication_key(device_password) if device_password else bytes(16)
        self.fresh_session_ids = True
        self.session_id = session_id
        self.tr: Any = None
        self.buf = b""
        self.key: bytes | None = None
        self.client_pub: bytes | None = None
        self.server_pub = pub_of(SERVER_PRIV)
        self.seq = 0
        self.authenticated = False
        self.client_writes: list[tuple[float, str, int | None, Any]] = []   # (time, 'plain'|'wrapper'|'bad-wrapper', client sequence number, inner body / frame)
        self.inner_handler: Callable[[Any], None] = lambda body: None
        self.session_handler: Callable[[str], str] = lambda stage: "ok"   # lets a scenario vary the handshake
        loop.on_endpoint = self.attach

    def attach(self, tr: Any) -> None:
        self.tr = tr
        self.buf = b""
        self.key = None
        self.seq = 0
        self.authenticated = False
        tr.on_send = lambda data, _tr=tr: self._on_stream(_tr, data)

    # ---- client -> server
    def _on_stream(self, tr: Any, data: bytes) -> None:
        self.buf += data
        while len(self.buf) >= 6:
            total = int.from_bytes(self.buf[4:6], "big")
            if total < 6 or len(self.buf) < total:
                break
            chunk, self.buf = self.buf[:total], self.buf[total:]
            self._on_frame(chunk)

    def _on_frame(self, raw: bytes) -> None:
        now = self.loop.time()
        service = raw[2:4]
        if service == b"\x09\x50":
            inner = ipsec.unwrap(self.key, self.session_id, raw) if self.key else None
            cseq = int.from_bytes(raw[8:14], "big")
            if inner is None:
                self.client_writes.append((now, "bad-wrapper", cseq, raw))
                return
            frame, _ = KNXIPFrame.from_knx(inner)
            self.client_writes.append((now, "wrapper", cseq, frame.body))
            if inner[2:4] == b"\x09\x53":
                self._on_authenticate(inner)
            else:
                self.inner_handler(frame.body)
            return
        frame, _ = KNXIPFrame.from_knx(raw)
        self.client_writes.append((now, "plain", None, frame.body))
        if service == b"\x09\x51":
            self._on_session_request(raw)

    def _on_session_request(self, raw: bytes) -> None:
        # every session gets its own id (the first one the configured id, then counting up), as a real device does
        self.sessions_opened = getattr(self, "sessions_opened", 0) + 1
        if self.sessions_opened > 1 and self.fresh_session_ids:
            self.session_id = (self.session_id + 1) & 0xFFFF or 1
        self.client_pub = raw[-32:]
        shared = X25519PrivateKey.from_private_bytes(SERVER_PRIV).exchange(X25519PublicKey.from_public_bytes(self.client_pub))
        self.key = ipsec.session_key(shared)
        mode = self.session_handler("session-request")
        if mode == "no-answer":
            return
        mac = ipsec.session_response_mac(self.device_key, self.session_id, self.client_pub, self.server_pub)
        if mode == "bad-mac":
            mac = mac[:-1] + bytes((mac[-1] ^ 1,))
        self.send_raw(bytes.fromhex("061009520038") + self.session_id.to_bytes(2, "big") + self.server_pub + mac)

    def _on_authenticate(self, inner: bytes) -> None:
        user_id = inner[7]
        mac = inner[8:24]
        assert self.client_pub is not None
        ok = mac == ipsec.session_authenticate_mac(self.user_key, user_id, self.client_pub, self.server_pub)
        self.auth_ok = ok
        mode = self.session_handler("authenticate")
        if mode == "no-answer":
            return
        status = SecureSessionStatusCode.STATUS_AUTHENTICATION_SUCCESS if ok and mode != "refuse" else SecureSessionStatusCode.STATUS_AUTHENTICATION_FAILED
        self.authenticated = status is SecureSessionStatusCode.STATUS_AUTHENTICATION_SUCCESS
        self.send_wrapped_raw(bytes.fromhex("061009540008") + bytes((status.value, 0)))

    # ---- server -> client
    def send_raw(self, data: bytes, delay: float = 0.0) -> None:
        tr = self.tr
        if tr is None or tr.closed:
            return
        if delay:
            self.loop.call_later(delay, tr.deliver, data)
        else:
            tr.deliver(data)

    def wrap(self, plain: bytes, seq: int | None = None, session_id: int | None = None, key: bytes | None = None) -> bytes:
        if seq is None:
            seq = self.seq
            self.seq += 1
        assert self.key is not None
        return ipsec.wrap(key or self.key, self.session_id if session_id is None else session_id, seq.to_bytes(6, "big"), SERVER_SERIAL, b"\x00\x00", plain)

    def send_wrapped_raw(self, plain: bytes, delay: float = 0.0, **kw: Any) -> None:
        if self.key is None and "key" not in kw:
            return   # no session on this connection (yet): the server has nothing to wrap with
        self.send_raw(self.wrap(plain, **kw), delay)

    def send(self, body: Any, delay: float = 0.0, **kw: Any) -> None:
        """Same signature as Gateway.send: wrapped."""
        kw.pop("tr", None)
        self.send_wrapped_raw(KNXIPFrame.init_from_body(body).to_knx(), delay, **kw)
