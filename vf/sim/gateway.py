"""Simulated KNXnet/IP tunnelling / device-management server over the in-memory transports.

It parses what the client writes (with the library's own frame codec, whose correctness is the
business of C20/C21), logs it with virtual time stamps and lets the scenario decide every answer.
"""

from __future__ import annotations

from typing import Any, Callable

from xknx.knxip import (
    HPAI,
    ConnectionStateRequest,
    ConnectionStateResponse,
    ConnectRequest,
    ConnectResponse,
    DisconnectRequest,
    DisconnectResponse,
    ErrorCode,
    KNXIPFrame,
    TunnellingAck,
    TunnellingRequest,
)
from xknx.knxip.connect_response import ConnectResponseData
from xknx.knxip.knxip_enum import ConnectRequestType
from xknx.telegram import IndividualAddress

from ..vloop import HarnessError, MemDatagramTransport, MemStreamTransport, VLoop

GW_ADDR = ("192.168.1.1", 3671)


class Gateway:
    """Server side of one client transport (re-attached to every new endpoint the client opens)."""

    def __init__(self, loop: VLoop, addr: tuple[str, int] = GW_ADDR) -> None:
        self.loop = loop
        self.addr = addr
        self.log: list[tuple[float, Any]] = []     # (time, body) of every frame the client sent
        self.raw_log: list[tuple[float, bytes]] = []
        self.tr: Any = None
        self.endpoints = 0
        self.handler: Callable[[Any], None] = lambda body: None
        self.unparsed: list[bytes] = []
        self._tcp_buf = b""
        loop.on_endpoint = self.attach

    def attach(self, tr: Any) -> None:
        self.tr = tr
        self.endpoints += 1
        self._tcp_buf = b""
        if isinstance(tr, MemDatagramTransport):
            tr.on_send = lambda data, addr, _tr=tr: self._on_datagram(_tr, data)
        else:
            tr.on_send = lambda data, _tr=tr: self._on_stream(_tr, data)

    def _on_datagram(self, tr: Any, data: bytes) -> None:
        self.raw_log.append((self.loop.time(), data))
        try:
            frame, _ = KNXIPFrame.from_knx(data)
        except Exception:  # noqa: BLE001
            self.unparsed.append(data)
            return
        self.log.append((self.loop.time(), frame.body))
        self.handler(frame.body)

    def _on_stream(self, tr: Any, data: bytes) -> None:
        self.raw_log.append((self.loop.time(), data))
        self._tcp_buf += data
        while len(self._tcp_buf) >= 6:
            total = int.from_bytes(self._tcp_buf[4:6], "big")
            if len(self._tcp_buf) < total:
                break
            chunk, self._tcp_buf = self._tcp_buf[:total], self._tcp_buf[total:]
            try:
                frame, _ = KNXIPFrame.from_knx(chunk)
            except Exception:  # noqa: BLE001
                self.unparsed.append(chunk)
                continue
            self.log.append((self.loop.time(), frame.body))
            self.handler(frame.body)

    # ------------------------------------------------------------------
    def send(self, body: Any, delay: float = 0.0, tr: Any = None) -> None:
        """Server -> client; arrives as a ready handle (or after `delay` of virtual time)."""
        tr = tr or self.tr
        if tr is None:
            raise HarnessError("gateway has no client endpoint")
        data = KNXIPFrame.init_from_body(body).to_knx()
        self.send_raw(data, delay, tr)

    def send_raw(self, data: bytes, delay: float = 0.0, tr: Any = None) -> None:
        tr = tr or self.tr
        if isinstance(tr, MemDatagramTransport):
            if delay:
                self.loop.call_later(delay, tr.deliver, data, self.addr)
            else:
                tr.deliver(data, self.addr)
        else:
            if delay:
                self.loop.call_later(delay, tr.deliver, data)
            else:
                tr.deliver(data)

    # canned answers ------------------------------------------------------
    def connect_response(self, channel: int, status: ErrorCode = ErrorCode.E_NO_ERROR, tcp: bool = False, ia: str = "1.1.240",
                         request_type: ConnectRequestType = ConnectRequestType.TUNNEL_CONNECTION) -> ConnectResponse:
        from xknx.knxip import HostProtocol

        hpai = HPAI(protocol=HostProtocol.IPV4_TCP) if tcp else HPAI(*self.addr)
        crd = ConnectResponseData(request_type=request_type, individual_address=IndividualAddress(ia) if request_type == ConnectRequestType.TUNNEL_CONNECTION else None)
        return ConnectResponse(communication_channel=channel, status_code=status, data_endpoint=hpai, crd=crd)


class DefaultPolicy:
    """Well-behaved server: assigns channel ids 7, 8, ...; acknowledges everything."""

    def __init__(self, gw: Gateway, tcp: bool = False, first_channel: int = 7,
                 request_type: ConnectRequestType = ConnectRequestType.TUNNEL_CONNECTION) -> None:
        self.gw = gw
        self.tcp = tcp
        self.next_channel = first_channel
        self.open_channels: set[int] = set()
        self.request_type = request_type
        self.connects = 0

    def __call__(self, body: Any) -> None:
        gw = self.gw
        if isinstance(body, ConnectRequest):
            ch = self.next_channel
            self.next_channel += 1
            self.connects += 1
            self.open_channels.add(ch)
            gw.send(gw.connect_response(ch, tcp=self.tcp, request_type=self.request_type))
        elif isinstance(body, ConnectionStateRequest):
            ok = body.communication_channel_id in self.open_channels
            gw.send(ConnectionStateResponse(body.communication_channel_id, ErrorCode.E_NO_ERROR if ok else ErrorCode.E_CONNECTION_ID))
        elif isinstance(body, DisconnectRequest):
            self.open_channels.discard(body.communication_channel_id)
            gw.send(DisconnectResponse(body.communication_channel_id))
        elif isinstance(body, TunnellingRequest):
            if not self.tcp:
                gw.send(TunnellingAck(body.communication_channel_id, body.sequence_counter))
