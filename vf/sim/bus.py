"""A simulated KNX bus with management-capable devices behind the real CEMIHandler / Management of an XKNX object (C44).

The client side is entirely the library: telegrams leave through CEMIHandler.send_telegram -> a fake interface that hands
the decoded telegram to the bus; what devices send comes back as L_Data.ind frames through the real handle_raw_cemi.
"""

from __future__ import annotations

import types
from typing import Any

from xknx import XKNX
from xknx.cemi import CEMIFrame, CEMILData, CEMIMessageCode
from xknx.management import management as mgmt_mod
from xknx.telegram import GroupAddress, IndividualAddress, Telegram, apci, tpci as T

from ..vloop import World

CLIENT = IndividualAddress("1.1.250")
BEHAVIOURS = ["normal", "silent", "refuse", "nak-on-data", "wrong-response-type"]


class Device:
    def __init__(self, name: str, address: str, prog_mode: bool, behaviour: str = "normal", serial: bytes = b"\x00\x00\x00\x00\x00\x01", levels: tuple[int, int] = (15, 15)) -> None:
        self.name = name
        self.address = IndividualAddress(address)
        self.prog_mode = prog_mode
        self.behaviour = behaviour
        self.serial = serial
        self.levels = levels  # (access level granted for the free key, for the client key)
        self.connected = False
        self.seq_in = 0
        self.seq_out = 0
        self.restarts = 0
        self.level: int | None = None
        self.address_writes: list[IndividualAddress] = []
        self.fast = False  # answers broadcast reads in the same socket read as the client's L_Data.con (handled before the sender resumes)

    def __repr__(self) -> str:
        return f"{self.name}({self.address}, prog={self.prog_mode}, {self.behaviour})"


class BusWorld(World):
    def __init__(self, devices: list[Device], client_key: int = 0x11223344) -> None:
        super().__init__()
        self.saved_time = mgmt_mod.time
        mgmt_mod.time = types.SimpleNamespace(time=self.loop.time)  # the point-to-point rate limiter reads time.time()
        self.xknx = XKNX()
        self.xknx.current_address = CLIENT
        self.devices = devices
        self.client_key = client_key
        self.sent: list[tuple[float, Telegram]] = []
        self.stall_at: int | None = None
        self.stall_for = 4.0
        self.stall_end = 0.0
        self.stray: list[tuple[str, Any]] = []  # (trigger apci class name, telegram factory) injected when the client broadcasts
        world = self

        class Iface:
            async def send_cemi(self, cemi: Any) -> None:
                tg = cemi.data.telegram()
                world.sent.append((world.loop.time(), tg))

                def con_and_fast_answers() -> None:
                    # one TCP read carrying the L_Data.con and the first L_Data.ind frames: all handled before the task waiting in
                    # CEMIHandler.send_telegram runs again
                    world.xknx.cemi_handler._l_data_confirmation_event.set()  # noqa: SLF001
                    world.on_bus_fast(tg)

                # a stalled link (tunnel / line coupler busy): from the stall_at-th frame on, frames wait until the stall is over -
                # neither confirmed nor on the bus before
                idx = len(world.sent) - 1
                if world.stall_at is not None and idx == world.stall_at:
                    world.stall_end = world.loop.time() + world.stall_for
                wait = max(0.0, world.stall_end - world.loop.time())
                if wait:
                    world.loop.call_later(wait, con_and_fast_answers)
                    world.loop.call_later(wait + 0.01, world.on_bus, tg)
                    return
                world.loop.call_soon(con_and_fast_answers)
                world.loop.call_later(0.01, world.on_bus, tg)

        self.xknx.knxip_interface = Iface()  # type: ignore[assignment]

    def close(self) -> None:
        mgmt_mod.time = self.saved_time
        self.xknx.started.clear()
        super().close()

    # -- bus -> client --------------------------------------------------------------------------------------------
    def deliver(self, tg: Telegram) -> None:
        data = CEMILData.init_from_telegram(tg)
        raw = CEMIFrame(code=CEMIMessageCode.L_DATA_IND, data=data).to_knx()
        self.xknx.cemi_handler.handle_raw_cemi(raw)

    def from_device(self, dev: Device, tp: Any, payload: Any = None, delay: float = 0.01, broadcast: bool = False) -> None:
        tg = Telegram(destination_address=GroupAddress("0/0/0") if broadcast else CLIENT, source_address=IndividualAddress(dev.address.raw), tpci=tp, payload=payload)
        self.loop.call_later(delay, self.deliver, tg)

    # -- client -> bus --------------------------------------------------------------------------------------------
    def on_bus_fast(self, tg: Telegram) -> None:
        p = tg.payload
        if not isinstance(tg.tpci, T.TDataBroadcast):
            # a device that refuses connections and answers at once: its T_Disconnect arrives together with the confirmation of our T_Connect
            if isinstance(tg.tpci, T.TConnect):
                for d in self.devices:
                    if d.fast and d.behaviour == "refuse" and d.address == tg.destination_address:
                        self.deliver(Telegram(destination_address=CLIENT, source_address=IndividualAddress(d.address.raw), tpci=T.TDisconnect()))
            return
        for d in self.devices:
            # the confirmation says the frame has been on the bus: address writes have reached the devices by then
            if isinstance(p, apci.IndividualAddressWrite) and d.prog_mode:
                d.address = IndividualAddress(p.address.raw)
                d.address_writes.append(d.address)
            elif isinstance(p, apci.IndividualAddressSerialWrite) and p.serial == d.serial:
                d.address = IndividualAddress(p.address.raw)
                d.address_writes.append(d.address)
            if not d.fast:
                continue
            if isinstance(p, apci.IndividualAddressRead) and d.prog_mode:
                self.deliver(Telegram(destination_address=GroupAddress("0/0/0"), source_address=IndividualAddress(d.address.raw), tpci=T.TDataBroadcast(), payload=apci.IndividualAddressResponse()))
            elif isinstance(p, apci.IndividualAddressSerialRead) and p.serial == d.serial:
                self.deliver(Telegram(destination_address=GroupAddress("0/0/0"), source_address=IndividualAddress(d.address.raw), tpci=T.TDataBroadcast(),
                                      payload=apci.IndividualAddressSerialResponse(serial=d.serial, address=IndividualAddress(d.address.raw))))

    def on_bus(self, tg: Telegram) -> None:
        p = tg.payload
        if isinstance(tg.tpci, T.TDataBroadcast):
            for name, fac in self.stray:
                if type(p).__name__ == name:
                    self.loop.call_later(0.005, self.deliver, fac())
            for d in self.devices:
                if d.fast and isinstance(p, apci.IndividualAddressRead | apci.IndividualAddressSerialRead):
                    continue  # answered already, see on_bus_fast
                if isinstance(p, apci.IndividualAddressRead) and d.prog_mode:
                    self.from_device(d, T.TDataBroadcast(), apci.IndividualAddressResponse(), broadcast=True, delay=0.01 + 0.001 * self.devices.index(d))
                elif isinstance(p, apci.IndividualAddressSerialRead) and p.serial == d.serial:
                    self.from_device(d, T.TDataBroadcast(), apci.IndividualAddressSerialResponse(serial=d.serial, address=IndividualAddress(d.address.raw)), broadcast=True, delay=0.02)
            return
        for d in self.devices:
            if d.address != tg.destination_address or d.behaviour == "silent":
                continue
            if isinstance(tg.tpci, T.TConnect):
                if d.behaviour == "refuse":
                    if not d.fast:
                        self.from_device(d, T.TDisconnect())
                else:
                    d.connected, d.seq_in, d.seq_out = True, 0, 0
            elif isinstance(tg.tpci, T.TDisconnect):
                d.connected = False
            elif isinstance(tg.tpci, T.TDataConnected) and d.connected:
                seq = tg.tpci.sequence_number
                if d.behaviour == "nak-on-data":
                    self.from_device(d, T.TNak(sequence_number=seq))
                    continue
                self.from_device(d, T.TAck(sequence_number=seq))
                if seq != d.seq_in:
                    continue
                d.seq_in = (d.seq_in + 1) % 16
                resp: Any = None
                if isinstance(p, apci.DeviceDescriptorRead):
                    resp = apci.DeviceDescriptorResponse(descriptor=0, value=0x07B0)
                    if d.behaviour == "wrong-response-type":
                        resp = apci.MemoryResponse(address=0, data=b"\xab")
                elif isinstance(p, apci.AuthorizeRequest):
                    d.level = d.levels[0] if p.key == 0xFFFFFFFF else d.levels[1] if p.key == self.client_key else 15
                    resp = apci.AuthorizeResponse(level=d.level)
                elif isinstance(p, apci.Restart):
                    d.restarts += 1
                    d.prog_mode = False
                    d.connected = False
                if resp is not None:
                    self.from_device(d, T.TDataConnected(sequence_number=d.seq_out), resp, delay=0.02)
                    d.seq_out = (d.seq_out + 1) % 16
