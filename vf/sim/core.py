"""A real XKNX object on the virtual loop with a recording fake interface (used by the core / device checks).

The fake interface stands where KNXIPInterface stands: `send_cemi` records the telegram and the virtual
time and (by default) makes the L_Data.con arrive in the next loop iteration, as a gateway would.
Everything above it (CEMIHandler, TelegramQueue, Devices, StateUpdater, TaskRegistry, devices) is the
unmodified library code.
"""

from __future__ import annotations

from ..vloop import texc

from typing import Any, Callable

from xknx import XKNX
from xknx.core import XknxConnectionState
from xknx.io import ConnectionConfig
from xknx.telegram import Telegram, TelegramDirection

from ..vloop import World


class FakeInterface:
    def __init__(self, world: "CoreWorld") -> None:
        self.world = world
        self.connection_config = ConnectionConfig()
        self.sent: list[tuple[float, Telegram]] = []
        self.on_send: Callable[[Telegram], None] | None = None
        self.confirm = True

    async def start(self) -> None:
        return None

    async def stop(self) -> None:
        return None

    async def send_cemi(self, cemi: Any) -> None:
        tg = cemi.data.telegram()
        tg.direction = TelegramDirection.OUTGOING
        self.sent.append((self.world.loop.time(), tg))
        if self.confirm:
            self.world.loop.call_soon(self.world.xknx.cemi_handler._l_data_confirmation_event.set)  # noqa: SLF001
        if self.on_send is not None:
            self.on_send(tg)


class CoreWorld(World):
    def __init__(self, t0: float = 1000.0, **xknx_kwargs: Any) -> None:
        super().__init__()
        self.loop._vtime = t0  # noqa: SLF001
        self.xknx = XKNX(**xknx_kwargs)
        self.iface = FakeInterface(self)
        self.xknx.knxip_interface = self.iface  # type: ignore[assignment]

    def close(self) -> None:
        # XKNX.__del__ would otherwise run stop() on a real loop
        self.xknx.started.clear()
        super().close()

    def start(self, connected: bool = True) -> None:
        t = self.spawn(self.xknx.start(), name="harness-start")
        self.loop.settle()
        assert t.done() and texc(t) is None, t
        if connected:
            self.connect()

    def connect(self) -> None:
        self.xknx.connection_manager.connection_state_changed(XknxConnectionState.CONNECTED)

    def disconnect(self) -> None:
        self.xknx.connection_manager.connection_state_changed(XknxConnectionState.DISCONNECTED)

    def incoming(self, telegram: Telegram) -> None:
        telegram.direction = TelegramDirection.INCOMING
        self.xknx.telegrams.put_nowait(telegram)

    def run(self, seconds: float) -> None:
        self.loop.run_until(self.loop.time() + seconds)

    def task_escapes(self) -> list[tuple[str, BaseException]]:
        return [(n, e) for n, e in self.loop.task_failures() if not n.startswith("harness-")]
