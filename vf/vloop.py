"""Virtual, hand-stepped asyncio event loop with in-memory transports (engine E2).

The loop owns time (`time()` is a virtual clock that only the explorer advances), has no
selector, and its ready queue / timer heap are popped by hand, so every interleaving of
environment events with task wake-ups is a decision of the explorer.
"""

from __future__ import annotations

import asyncio
from asyncio import base_events, events
import heapq
import sys
from typing import Any, Callable


class HarnessError(Exception):
    """A failure of the harness itself (never reported as a property violation)."""


def texc(task: Any) -> BaseException | None:
    """task.exception() that reports a cancelled task as a CancelledError instance instead of raising it into the harness."""
    if task.cancelled():
        return asyncio.CancelledError("task was cancelled")
    return task.exception()


class MemDatagramTransport(asyncio.DatagramTransport):
    def __init__(self, loop: "VLoop", protocol: Any, sockname: tuple[str, int], kind: str = "udp") -> None:
        super().__init__()
        self.loop = loop
        self.protocol = protocol
        self.sockname = sockname
        self.kind = kind
        self.closed = False
        self.sent: list[tuple[float, bytes, Any]] = []
        self.sent_after_close: list[tuple[float, bytes, Any]] = []
        self.on_send: Callable[[bytes, Any], None] | None = None

    def sendto(self, data: bytes, addr: Any = None) -> None:  # type: ignore[override]
        rec = (self.loop.time(), bytes(data), addr)
        if self.closed:
            self.sent_after_close.append(rec)
            return
        self.sent.append(rec)
        self.loop.wire.append(("tx", self, rec))
        if self.on_send is not None:
            self.on_send(bytes(data), addr)

    def close(self) -> None:
        if not self.closed:
            self.closed = True
            self.loop.call_soon(self.protocol.connection_lost, None)

    def abort(self) -> None:
        self.close()

    def is_closing(self) -> bool:
        return self.closed

    def get_extra_info(self, name: str, default: Any = None) -> Any:
        if name == "sockname":
            return self.sockname
        if name == "peername":
            return None
        return default

    # harness side -----------------------------------------------------
    def deliver(self, data: bytes, addr: tuple[str, int]) -> None:
        """Deliver a datagram like a selector loop: a ready handle behind what is already ready."""
        if not self.closed:
            self.loop.call_soon(self._read_ready, data, addr)

    def _read_ready(self, data: bytes, addr: tuple[str, int]) -> None:
        # like _SelectorDatagramTransport._read_ready: nothing is delivered once the transport was closed
        if not self.closed:
            self.protocol.datagram_received(data, addr)


class MemStreamTransport(asyncio.Transport):
    def __init__(self, loop: "VLoop", protocol: Any, sockname: tuple[str, int], peername: tuple[str, int]) -> None:
        super().__init__()
        self.loop = loop
        self.protocol = protocol
        self.sockname = sockname
        self.peername = peername
        self.closed = False
        self.sent: list[tuple[float, bytes]] = []
        self.sent_after_close: list[tuple[float, bytes]] = []
        self.on_send: Callable[[bytes], None] | None = None

    def write(self, data: bytes) -> None:  # type: ignore[override]
        rec = (self.loop.time(), bytes(data))
        if self.closed:
            self.sent_after_close.append(rec)
            return
        self.sent.append(rec)
        self.loop.wire.append(("tx", self, rec))
        if self.on_send is not None:
            self.on_send(bytes(data))

    def close(self) -> None:
        if not self.closed:
            self.closed = True
            self.loop.call_soon(self.protocol.connection_lost, None)

    def abort(self) -> None:
        self.close()

    def is_closing(self) -> bool:
        return self.closed

    def get_extra_info(self, name: str, default: Any = None) -> Any:
        if name == "sockname":
            return self.sockname
        if name == "peername":
            return self.peername
        return default

    # harness side -----------------------------------------------------
    def deliver(self, data: bytes) -> None:
        if not self.closed:
            self.loop.call_soon(self._read_ready, data)

    def _read_ready(self, data: bytes) -> None:
        if not self.closed:
            self.protocol.data_received(data)

    def lose(self, exc: Exception | None = None) -> None:
        """The peer closed / the connection broke."""
        if not self.closed:
            self.closed = True
            self.loop.call_soon(self.protocol.connection_lost, exc)


class VLoop(base_events.BaseEventLoop):
    def __init__(self) -> None:
        super().__init__()
        self._vtime = 0.0
        self._clock_resolution = 1e-9
        self.exceptions: list[dict[str, Any]] = []
        self.datagram_endpoints: list[MemDatagramTransport] = []
        self.stream_endpoints: list[MemStreamTransport] = []
        self.wire: list[Any] = []
        self.tcp_connect_error: Callable[[], Exception | None] | None = None
        self.udp_connect_error: Callable[[], Exception | None] | None = None
        self.on_endpoint: Callable[[Any], None] | None = None
        self.tasks: list[asyncio.Task[Any]] = []
        self.iterations = 0
        self._port = 50000
        self.set_task_factory(self._factory)

    # -- BaseEventLoop plumbing ------------------------------------------
    def time(self) -> float:
        return self._vtime

    def _process_events(self, event_list: Any) -> None:  # pragma: no cover
        pass

    def _write_to_self(self) -> None:
        pass

    def call_exception_handler(self, context: dict[str, Any]) -> None:
        self.exceptions.append(context)

    @staticmethod
    def _factory(loop: Any, coro: Any, **kw: Any) -> asyncio.Task[Any]:
        task = asyncio.Task(coro, loop=loop, **kw)
        loop.tasks.append(task)
        return task

    async def create_datagram_endpoint(self, protocol_factory: Any, local_addr: Any = None, remote_addr: Any = None, sock: Any = None, **kw: Any) -> Any:  # type: ignore[override]
        # a real loop resolves the address in an executor: the caller is suspended for at least one iteration, so
        # callbacks already scheduled (e.g. connection_lost of a socket closed just before) run first
        await asyncio.sleep(0)
        if self.udp_connect_error is not None:
            err = self.udp_connect_error()
            if err is not None:
                raise err
        protocol = protocol_factory()
        if sock is not None:
            sockname = getattr(sock, "sockname", ("224.0.23.12", 3671))
            kind = "mcast"
        else:
            host, port = local_addr if local_addr else ("0.0.0.0", 0)
            if not port:
                self._port += 1
                port = self._port
            sockname = (host, port)
            kind = "udp"
        tr = MemDatagramTransport(self, protocol, sockname, kind)
        self.datagram_endpoints.append(tr)
        protocol.connection_made(tr)
        if self.on_endpoint is not None:
            self.on_endpoint(tr)
        return tr, protocol

    async def create_connection(self, protocol_factory: Any, host: Any = None, port: Any = None, **kw: Any) -> Any:  # type: ignore[override]
        await asyncio.sleep(0)  # getaddrinfo + sock_connect always take at least one iteration
        await asyncio.sleep(0)
        if self.tcp_connect_error is not None:
            err = self.tcp_connect_error()
            if err is not None:
                raise err
        protocol = protocol_factory()
        self._port += 1
        tr = MemStreamTransport(self, protocol, ("192.168.1.2", self._port), (host, port))
        self.stream_endpoints.append(tr)
        protocol.connection_made(tr)
        if self.on_endpoint is not None:
            self.on_endpoint(tr)
        return tr, protocol

    # -- stepping -----------------------------------------------------------
    def activate(self) -> None:
        events._set_running_loop(self)
        # what run_forever() does for asynchronous generators: an abandoned generator (e.g. `break` out of `async for`) is
        # closed by a task the loop schedules when CPython drops the last reference (reference counting: deterministic)
        self._old_agen_hooks = sys.get_asyncgen_hooks()
        sys.set_asyncgen_hooks(firstiter=self._asyncgen_firstiter_hook, finalizer=self._asyncgen_finalizer_hook)

    def deactivate(self) -> None:
        events._set_running_loop(None)
        hooks = getattr(self, "_old_agen_hooks", None)
        if hooks is not None:
            sys.set_asyncgen_hooks(*hooks)
            self._old_agen_hooks = None

    def has_ready(self) -> bool:
        return any(not h._cancelled for h in self._ready)

    def run_iteration(self) -> int:
        """Run exactly the handles that are ready now (one loop iteration)."""
        n = len(self._ready)
        ran = 0
        for _ in range(n):
            h = self._ready.popleft()
            if h._cancelled:
                continue
            h._run()
            ran += 1
        self.iterations += 1
        return ran

    def settle(self, max_iterations: int = 10000) -> int:
        """Run iterations until nothing is ready (time does not advance)."""
        it = 0
        while self._ready:
            self.run_iteration()
            it += 1
            if it > max_iterations:
                raise HarnessError("livelock: ready queue never drains at one virtual instant")
        return it

    def next_timer(self) -> float | None:
        while self._scheduled and self._scheduled[0]._cancelled:
            h = heapq.heappop(self._scheduled)
            h._scheduled = False
            self._timer_cancelled_count = max(0, self._timer_cancelled_count - 1)
        if not self._scheduled:
            return None
        return self._scheduled[0]._when

    def advance_to(self, when: float) -> None:
        """Move the virtual clock and make due timers ready (in deadline order)."""
        if when < self._vtime:
            raise HarnessError("virtual time cannot go back")
        self._vtime = when
        end = self._vtime + self._clock_resolution
        while self._scheduled:
            h = self._scheduled[0]
            if h._when >= end:
                break
            h = heapq.heappop(self._scheduled)
            h._scheduled = False
            if h._cancelled:
                self._timer_cancelled_count = max(0, self._timer_cancelled_count - 1)
                continue
            self._ready.append(h)

    def advance_next(self) -> bool:
        t = self.next_timer()
        if t is None:
            return False
        self.advance_to(max(t, self._vtime))
        return True

    def run_until(self, horizon: float, max_steps: int = 100000) -> None:
        """Default environment: settle, then fire timers in order up to the horizon."""
        steps = 0
        while True:
            self.settle()
            t = self.next_timer()
            if t is None or t > horizon:
                break
            self.advance_to(max(t, self._vtime))
            steps += 1
            if steps > max_steps:
                raise HarnessError("too many timer steps")
        if horizon > self._vtime:
            self._vtime = horizon

    def timer_profile(self) -> tuple[float, ...]:
        """Pending timer deadlines relative to now (part of a canonical state: what will fire when)."""
        return tuple(sorted(round(h._when - self._vtime, 6) for h in self._scheduled if not h._cancelled))  # noqa: SLF001

    def live_tasks(self) -> list[asyncio.Task[Any]]:
        return [t for t in self.tasks if not t.done()]

    def task_failures(self) -> list[tuple[str, BaseException]]:
        """Exceptions of finished tasks that nobody retrieved (read directly, not GC-timed)."""
        out = []
        for t in self.tasks:
            if t.done() and not t.cancelled():
                exc = t.exception() if t._log_traceback else None  # noqa: SLF001
                if exc is not None:
                    out.append((t.get_name(), exc))
        return out

    def teardown(self) -> None:
        """Cancel what is left so that nothing prints 'Task was destroyed but it is pending'."""
        for _ in range(5):
            live = self.live_tasks()
            if not live:
                break
            for t in live:
                t.cancel()
            try:
                self.settle(1000)
            except HarnessError:
                break
        for t in self.tasks:
            if t.done() and not t.cancelled():
                t._log_traceback = False  # noqa: SLF001
        self._ready.clear()
        self._scheduled.clear()
        self.deactivate()


class World:
    """Base for scenario worlds: a fresh loop, activated; use as context manager."""

    def __init__(self) -> None:
        self.loop = VLoop()
        self.loop.activate()

    def close(self) -> None:
        self.loop.teardown()

    def __enter__(self) -> "World":
        return self

    def __exit__(self, *a: Any) -> None:
        self.close()

    def spawn(self, coro: Any, name: str | None = None) -> asyncio.Task[Any]:
        return self.loop.create_task(coro, name=name)
