"""./check --selftest : environment + reference-model sanity + determinism of scenarios."""

from __future__ import annotations

import importlib
import os
import pkgutil
import sys


def main() -> int:
    import xknx

    print(f"xknx from {xknx.__file__}; python {sys.version.split()[0]}")
    ok = True
    import vf.props

    for m in pkgutil.iter_modules(vf.props.__path__):
        if not m.name.startswith("c"):
            continue
        try:
            mod = importlib.import_module(f"vf.props.{m.name}")
            st = getattr(mod, "selftest", None)
            if st is not None:
                st()
        except Exception as exc:  # noqa: BLE001
            import traceback

            traceback.print_exc()
            print(f"selftest FAILED for {m.name}: {exc!r}")
            ok = False
    for name in ("vf.ref.aes", "vf.ref.ccm"):
        try:
            mod = importlib.import_module(name)
        except ModuleNotFoundError:
            continue
        mod.selftest()
    print("selftest", "ok" if ok else "FAILED")
    return 0 if ok else 2
