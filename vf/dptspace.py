"""Shared payload space for the datapoint properties (C07, C08, C10, C38, C45).

For one concrete DPT class the space is the complete product described in DESIGN.md:
  * all 64 DPTBinary payloads,
  * all DPTArray payloads of length 0, 1 and 2 (65 793),
  * for a declared array length L >= 3: every octet value at every position over the
    bases {00.., FF.., seed-derived}, (thorough, L in 3..4: every pair of positions over a
    32-value octet alphabet), for L in 3..4 the full product over a 20-value (quick, L=4: 10-value) field-boundary alphabet,
    and wrong lengths {3..16, 20, 255} zero/FF filled.
"""

from __future__ import annotations

import itertools
import math
from typing import Any, Iterator

from xknx.dpt import DPTArray, DPTBase, DPTBinary

from .runner import seed_bytes

WRONG_LENGTHS = [3, 4, 5, 6, 7, 8, 9, 10, 11, 12, 13, 14, 15, 16, 20, 255]
PAIR_ALPHABET = sorted(
    {0, 1, 2, 3, 7, 8, 9, 0x0F, 0x10, 0x17, 0x18, 0x19, 0x1F, 0x20, 0x3B, 0x3C, 0x3F, 0x40, 0x63, 0x64,
     0x7F, 0x80, 0x81, 0xBF, 0xC0, 0xE0, 0xEF, 0xF0, 0xF7, 0xF8, 0xFE, 0xFF}
)


FIELD_ALPHABET = [0, 1, 2, 11, 12, 13, 23, 24, 31, 32, 59, 60, 89, 90, 99, 100, 127, 128, 254, 255]


def all_dpt_classes() -> list[type[DPTBase]]:
    seen: list[type[DPTBase]] = []
    for c in DPTBase.dpt_class_tree():
        if c not in seen:
            seen.append(c)
    return seen


def class_by_index(i: int) -> type[DPTBase]:
    return all_dpt_classes()[i]


def payloads(cls: type[DPTBase], seed: int, thorough: bool, short: bool = True) -> Iterator[Any]:
    """Yield every payload of the space for `cls` (DPTBinary / DPTArray objects)."""
    if short:
        for v in range(64):
            yield DPTBinary(v)
        yield DPTArray(())
        for a in range(256):
            yield DPTArray((a,))
        for a in range(256):
            for b in range(256):
                yield DPTArray((a, b))
    L = cls.payload_length if cls.payload_type is DPTArray else None
    lengths = set(WRONG_LENGTHS)
    if L is not None and L >= 3:
        lengths.add(L)
        bases = [bytes(L), b"\xff" * L, seed_bytes(seed, L, 7)]
        if thorough:
            bases.append(seed_bytes(seed, L, 8))
        emitted = set()
        for base in bases:
            for pos in range(L):
                for v in range(256):
                    t = base[:pos] + bytes((v,)) + base[pos + 1:]
                    if t not in emitted:
                        emitted.add(t)
                        yield DPTArray(t)
        if thorough and L <= 4:
            for base in bases[:2]:
                for p1, p2 in itertools.combinations(range(L), 2):
                    for v1 in PAIR_ALPHABET:
                        for v2 in PAIR_ALPHABET:
                            b = bytearray(base)
                            b[p1] = v1
                            b[p2] = v2
                            t = bytes(b)
                            if t not in emitted:
                                emitted.add(t)
                                yield DPTArray(t)
    if L in (3, 4):
        # multi-field types (dates, times, colours ...): the full product over a boundary alphabet, so that combinations of
        # individually valid fields occur (a per-position sweep around 00../FF.. never has a valid day AND month AND year 0)
        alph = FIELD_ALPHABET if (thorough or L == 3) else FIELD_ALPHABET[::2]
        for t in itertools.product(alph, repeat=L):
            bt = bytes(t)
            if bt not in emitted:
                emitted.add(bt)
                yield DPTArray(bt)
    for n in sorted(lengths):
        if n == L:
            continue
        yield DPTArray(bytes(n))
        yield DPTArray(b"\xff" * n)


def same_value(a: Any, b: Any) -> bool:
    """Equality with NaN == NaN, recursing into dataclass-like / tuple values."""
    if isinstance(a, float) and isinstance(b, float):
        if math.isnan(a) and math.isnan(b):
            return True
        return a == b
    if type(a) is not type(b):
        return a == b
    if isinstance(a, (tuple, list)):
        return len(a) == len(b) and all(same_value(x, y) for x, y in zip(a, b))
    if a == b:
        return True
    slots = getattr(type(a), "__dataclass_fields__", None)
    if slots:
        return all(same_value(getattr(a, f), getattr(b, f)) for f in slots)
    return False


def pl(payload: Any) -> Any:
    """JSON form of a payload."""
    if isinstance(payload, DPTBinary):
        return ["B", payload.value]
    return ["A", bytes(payload.value)]


def unpl(x: Any) -> Any:
    kind, v = x
    if kind == "B":
        return DPTBinary(int(v))
    return DPTArray(tuple(v) if isinstance(v, (bytes, list, tuple)) else v)
