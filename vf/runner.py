"""Runner: tiers, seeds, worker pool, violation/known-finding bookkeeping, evidence.

A property module (vf/props/cNN.py) exposes

    TITLE: str
    def run(ctx: Ctx) -> None          # drives the enumeration / exploration, merges Parts into ctx
    def replay(case) -> list[Viol]     # re-executes ONE recorded case without the explorer (optional)

Workers return `Part` objects (plain picklable accumulators).  Nothing is sampled:
`ctx.seed` may only ADD elements to alphabets.
"""

from __future__ import annotations

import collections
import hashlib
import json
import multiprocessing as mp
import os
import sys
import time
import traceback
from typing import Any, Callable, Iterable

VERIF = os.path.dirname(os.path.dirname(os.path.abspath(__file__)))
REPO = os.environ.get("VERIF_REPO", "/repo")
NPROC = int(os.environ.get("VERIF_NPROC", "16"))
MAX_SAMPLES = 6


def jsonable(x: Any, depth: int = 0) -> Any:
    """Best-effort conversion of a case into JSON (bytes -> hex string)."""
    if depth > 8:
        return repr(x)
    if isinstance(x, (bytes, bytearray)):
        return "hex:" + bytes(x).hex()
    if isinstance(x, (str, int, bool)) or x is None:
        return x
    if isinstance(x, float):
        return x if x == x and x not in (float("inf"), float("-inf")) else repr(x)
    if isinstance(x, dict):
        return {str(k): jsonable(v, depth + 1) for k, v in x.items()}
    if isinstance(x, (list, tuple)):
        return [jsonable(v, depth + 1) for v in x]
    return repr(x)


def unhex(x: Any) -> Any:
    """Inverse of jsonable for bytes."""
    if isinstance(x, str) and x.startswith("hex:"):
        return bytes.fromhex(x[4:])
    if isinstance(x, list):
        return [unhex(v) for v in x]
    if isinstance(x, dict):
        return {k: unhex(v) for k, v in x.items()}
    return x


def exc_site(exc: BaseException) -> str:
    """Innermost xknx frame of an exception: 'file:function'."""
    tb = exc.__traceback__
    site = "?"
    while tb is not None:
        fn = tb.tb_frame.f_code.co_filename
        if "/xknx/" in fn:
            site = fn.split("/xknx/", 1)[1] + ":" + tb.tb_frame.f_code.co_name
        tb = tb.tb_next
    return site


def exc_sig(prefix: str, exc: BaseException) -> str:
    return f"{prefix}:{type(exc).__name__}@{exc_site(exc)}"


class Part:
    """Picklable accumulator returned by workers and merged into the Ctx."""

    __slots__ = (
        "evaluations", "nontrivial", "outcomes", "viols", "samples", "states",
        "transitions", "traces", "extra",
    )

    def __init__(self) -> None:
        self.evaluations = 0
        self.nontrivial = 0
        self.outcomes: collections.Counter[str] = collections.Counter()
        # signature -> [count, detail, first case]
        self.viols: dict[str, list[Any]] = {}
        self.samples: list[Any] = []
        self.states = 0
        self.transitions = 0
        self.traces = 0
        self.extra: dict[str, Any] = {}

    def viol(self, sig: str, detail: str, case: Any, rank: Any = None) -> None:
        """Record a violation; per signature the case of lowest rank (simplest) is kept."""
        ent = self.viols.get(sig)
        if ent is None:
            self.viols[sig] = [1, detail, jsonable(case), rank]
        else:
            ent[0] += 1
            if rank is not None and (ent[3] is None or rank < ent[3]):
                ent[1], ent[2], ent[3] = detail, jsonable(case), rank

    def state(self, key: Any) -> None:
        """Record a canonical (abstract) state visited; distinct ones are counted into coverage.states."""
        st = self.extra.get("state_hashes")
        if st is None:
            st = self.extra["state_hashes"] = set()
        st.add(int.from_bytes(hashlib.blake2b(repr(key).encode(), digest_size=8).digest(), "big"))

    def sample(self, case: Any) -> None:
        if len(self.samples) < MAX_SAMPLES:
            self.samples.append(jsonable(case))

    def merge(self, other: "Part") -> None:
        self.evaluations += other.evaluations
        self.nontrivial += other.nontrivial
        self.outcomes.update(other.outcomes)
        for sig, (n, detail, case, rank) in other.viols.items():
            ent = self.viols.get(sig)
            if ent is None:
                self.viols[sig] = [n, detail, case, rank]
            else:
                ent[0] += n
                if rank is not None and (ent[3] is None or rank < ent[3]):
                    ent[1], ent[2], ent[3] = detail, case, rank
        for s in other.samples:
            if len(self.samples) < MAX_SAMPLES:
                self.samples.append(s)
        self.states += other.states
        self.transitions += other.transitions
        self.traces += other.traces
        for k, v in other.extra.items():
            if isinstance(v, (int, float)) and isinstance(self.extra.get(k, 0), (int, float)):
                self.extra[k] = self.extra.get(k, 0) + v
            elif isinstance(v, set):
                cur = self.extra.get(k)
                if not isinstance(cur, set):
                    cur = set(cur or ())
                cur |= v
                self.extra[k] = cur
            elif isinstance(v, list):
                cur = self.extra.setdefault(k, [])
                for item in v:
                    if item not in cur and len(cur) < 64:
                        cur.append(item)
            else:
                self.extra[k] = v


def _call(args: tuple[Callable[..., Part], tuple[Any, ...]]) -> Part:
    fn, a = args
    try:
        return fn(*a)
    except BaseException as exc:  # harness error inside a worker: never a VIOLATION
        p = Part()
        p.extra["harness_errors"] = [
            f"{fn.__module__}.{fn.__name__}{jsonable(a)!r}: "
            + "".join(traceback.format_exception(type(exc), exc, exc.__traceback__))[-1500:]
        ]
        return p


_POOL: Any = None


def pool() -> Any:
    global _POOL
    if _POOL is None:
        _POOL = mp.get_context("fork").Pool(NPROC)
    return _POOL


class Ctx:
    def __init__(self, pid: str, tier: str, seed: int) -> None:
        self.pid = pid
        self.tier = tier
        self.seed = seed
        self.thorough = tier == "thorough"
        self.total = Part()
        self.rule = ""
        self.exhaustive = True
        self.assumptions: list[str] = []
        self.bounds: dict[str, Any] = {}
        self.caps: list[str] = []
        self.t0 = time.time()

    # -- parallel map ------------------------------------------------------
    def pmap(self, fn: Callable[..., Part], arglist: Iterable[tuple[Any, ...]], serial: bool = False) -> Part:
        """Run fn(*args) for every args tuple (16 processes), merge the Parts."""
        arglist = list(arglist)
        acc = Part()
        if serial or NPROC <= 1 or len(arglist) <= 1:
            for a in arglist:
                acc.merge(_call((fn, a)))
        else:
            for p in pool().imap_unordered(_call, [(fn, a) for a in arglist], chunksize=1):
                acc.merge(p)
        self.total.merge(acc)
        return acc

    def merge(self, p: Part) -> None:
        self.total.merge(p)

    def seed_byte(self, i: int = 0) -> int:
        return hashlib.sha256(f"{self.seed}:{i}".encode()).digest()[0]

    def seed_bytes(self, n: int, i: int = 0) -> bytes:
        out = b""
        c = 0
        while len(out) < n:
            out += hashlib.sha256(f"{self.seed}:{i}:{c}".encode()).digest()
            c += 1
        return out[:n]


def seed_bytes(seed: int, n: int, i: int = 0) -> bytes:
    out = b""
    c = 0
    while len(out) < n:
        out += hashlib.sha256(f"{seed}:{i}:{c}".encode()).digest()
        c += 1
    return out[:n]


# ---------------------------------------------------------------------------
# known findings


def load_findings() -> list[dict[str, Any]]:
    path = os.path.join(VERIF, "known_findings.json")
    if not os.path.exists(path):
        return []
    with open(path) as fh:
        return json.load(fh)["findings"]


def finish(ctx: Ctx, mod: Any) -> int:
    """Print VIOLATION / KNOWN-FINDING lines, write evidence, return the exit code."""
    total = ctx.total
    if "state_hashes" in total.extra:
        st = total.extra.pop("state_hashes")
        total.states = max(total.states, len(st))
    wall = time.time() - ctx.t0
    herr = total.extra.get("harness_errors")
    known = {f["signature"]: f for f in load_findings() if f["property"] == ctx.pid and f.get("status") == "open"}
    n_viol = 0
    lines = []
    os.makedirs(os.path.join(VERIF, "replays"), exist_ok=True)
    known_hit = []
    for sig in sorted(total.viols):
        n, detail, case, _rank = total.viols[sig]
        if sig in known:
            known_hit.append(sig)
            lines.append(f"KNOWN-FINDING: property={ctx.pid} {sig} :: {known[sig]['what']} ({n} cases)")
            continue
        n_viol += 1
        h = hashlib.sha1(sig.encode()).hexdigest()[:10]
        path = os.path.join(VERIF, "replays", f"{ctx.pid}-{h}.json")
        with open(path, "w") as fh:
            json.dump({"property": ctx.pid, "signature": sig, "detail": detail, "cases": n, "case": case}, fh, indent=1)
        lines.append(f"VIOLATION property={ctx.pid} replay={path}")
        lines.append(f"  signature: {sig}")
        lines.append(f"  detail: {detail[:600]}")
        lines.append(f"  cases: {n}; first: {json.dumps(case)[:600]}")
    cov: dict[str, Any] = {
        "evaluations": total.evaluations,
        "distinct_nontrivial": total.nontrivial,
        "rule": ctx.rule,
        "samples": total.samples or ["(no sample recorded)"],
        "exhaustive": bool(ctx.exhaustive and not ctx.caps),
        "outcomes": dict(total.outcomes.most_common(40)),
        "distinct_outcomes": len(total.outcomes),
        "bounds": ctx.bounds,
        "caps_hit": ctx.caps,
        "known_findings_hit": known_hit,
    }
    if total.states or total.transitions:
        cov["states"] = total.states
        cov["transitions"] = total.transitions
        cov["traces_validated_against_impl"] = total.traces
    for k, v in total.extra.items():
        if k != "harness_errors":
            cov[k] = jsonable(v)
    ev = {
        "property_id": ctx.pid,
        "tier": ctx.tier,
        "seed": ctx.seed,
        "level": "model_checking",
        "coverage": cov,
        "assumptions": ctx.assumptions,
        "wall_s": round(wall, 2),
        "violations": n_viol,
    }
    evdir = os.environ.get("VERIF_EVIDENCE_DIR") or os.path.join(VERIF, "evidence")
    os.makedirs(evdir, exist_ok=True)
    evpath = os.path.join(evdir, f"{ctx.pid}.json")
    if herr:
        # harness error: no evidence is better than wrong evidence
        if os.path.exists(evpath):
            os.remove(evpath)
        print(f"HARNESS-ERROR property={ctx.pid}")
        for e in herr:
            print(e)
        return 2
    with open(evpath, "w") as fh:
        json.dump(ev, fh, indent=1, sort_keys=True)
        fh.write("\n")
    for line in lines:
        print(line)
    print(
        f"{ctx.pid} tier={ctx.tier} seed={ctx.seed} evaluations={total.evaluations} "
        f"nontrivial={total.nontrivial} states={total.states} transitions={total.transitions} "
        f"outcomes={len(total.outcomes)} violations={n_viol} known={len(known_hit)} wall={wall:.1f}s"
    )
    return 1 if n_viol else 0
