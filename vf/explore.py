"""Deviation-bounded stateless exploration (engine E2).

A scenario is a function `scenario(ch: Chooser) -> list[(signature, detail)]` that builds a fresh
world, runs the REAL code on a VLoop and, whenever the environment has a decision to make, calls
`ch.choose(label, n_options, costs=None)`; option 0 is the default environment, every other option
costs `costs[i]` deviations (default 1).  `explore()` enumerates EVERY choice sequence whose total
cost stays within the bound (iteratively: the subtree below each alternative is searched completely),
re-executing from scratch for each (live asyncio objects are not copied).

Determinism: while a prefix is replayed, the label and arity of each choice point must equal what
was recorded when the prefix was produced; any divergence raises HarnessError.
"""

from __future__ import annotations

import hashlib
from typing import Any, Callable

from .runner import Part, jsonable
from .vloop import HarnessError


class Chooser:
    __slots__ = ("prefix", "expect", "pos", "trace", "labels", "arity", "costs", "spent", "states", "notes")

    def __init__(self, prefix: list[int], expect: list[tuple[str, int]] | None = None) -> None:
        self.prefix = prefix
        self.expect = expect
        self.pos = 0
        self.trace: list[int] = []
        self.labels: list[str] = []
        self.arity: list[int] = []
        self.costs: list[list[int]] = []
        self.spent = 0
        self.states: set[int] = set()
        self.notes: list[Any] = []

    def choose(self, label: str, n: int, costs: list[int] | None = None) -> int:
        if n <= 0:
            raise HarnessError(f"choice point {label} without options")
        i = self.pos
        if i < len(self.prefix):
            c = self.prefix[i]
            if self.expect is not None and i < len(self.expect) and self.expect[i] != (label, n):
                raise HarnessError(f"replay divergence at point {i}: recorded {self.expect[i]}, now {(label, n)}")
            if c >= n:
                raise HarnessError(f"replay divergence at point {i}: choice {c} of {n} ({label})")
        else:
            c = 0
        cs = costs if costs is not None else [0] + [1] * (n - 1)
        self.pos += 1
        self.trace.append(c)
        self.labels.append(label)
        self.arity.append(n)
        self.costs.append(cs)
        self.spent += cs[c]
        return c

    def state(self, key: Any) -> None:
        """Record a canonical state fingerprint reached by this execution."""
        self.states.add(int.from_bytes(hashlib.blake2b(repr(key).encode(), digest_size=8).digest(), "big"))

    def schedule(self) -> list[list[Any]]:
        return [[lab, c] for lab, c in zip(self.labels, self.trace)]


Scenario = Callable[[Chooser], list[tuple[str, str]]]


def run_one(scenario: Scenario, prefix: list[int], expect: list[tuple[str, int]] | None = None) -> tuple[Chooser, list[tuple[str, str]]]:
    ch = Chooser(prefix, expect)
    viols = scenario(ch)
    if ch.pos < len(prefix):
        raise HarnessError(f"replay divergence: execution ended after {ch.pos} points, prefix has {len(prefix)}")
    return ch, viols


def explore_subtree(scenario: Scenario, name: str, prefix: list[int], expect: list[tuple[str, int]] | None, bound: int, part: Part, max_runs: int = 10**9) -> None:
    """Complete DFS below `prefix` (the run of `prefix` itself included)."""
    stack: list[tuple[list[int], list[tuple[str, int]] | None]] = [(prefix, expect)]
    states: set[int] = part.extra.setdefault("_states", set())
    while stack:
        pre, exp = stack.pop()
        ch, viols = run_one(scenario, pre, exp)
        part.evaluations += 1
        part.traces += 1
        part.transitions += len(ch.trace)
        states |= ch.states
        outcome = "|".join(str(x) for x in ch.notes) if ch.notes else "-"
        part.outcomes[outcome] += 1
        if any(ch.trace):
            part.nontrivial += 1
        for sig, detail in viols:
            part.viol(sig, detail, {"scenario": name, "choices": ch.trace, "schedule": ch.schedule()}, rank=(sum(1 for c in ch.trace if c), len(ch.trace), name))
        if part.evaluations <= 1 or (any(ch.trace) and len(part.samples) < 4):
            part.sample({"scenario": name, "schedule": ch.schedule(), "outcome": outcome})
        if part.evaluations >= max_runs:
            part.extra["cap_hit"] = part.extra.get("cap_hit", 0) + 1
            return
        # children: deviate at every point at or after len(pre)
        spent = 0
        rec = list(zip(ch.labels, ch.arity))
        for i in range(len(ch.trace)):
            if i >= len(pre):
                for alt in range(1, ch.arity[i]):
                    if spent + ch.costs[i][alt] <= bound:
                        stack.append((ch.trace[:i] + [alt], rec[: i + 1]))
            spent += ch.costs[i][ch.trace[i]]


def _worker(modname: str, scen_name: str, scen_args: tuple[Any, ...], prefix: list[int], expect: Any, bound: int, max_runs: int) -> Part:
    import importlib
    import logging

    logging.disable(logging.CRITICAL)
    mod = importlib.import_module(modname)
    scenario = mod.SCENARIOS[scen_name](*scen_args)
    part = Part()
    explore_subtree(scenario, f"{scen_name}{list(scen_args)}", prefix, [tuple(e) for e in expect] if expect else None, bound, part, max_runs)
    st = part.extra.pop("_states", set())
    part.extra["state_hashes"] = st
    return part


def explore(ctx: Any, modname: str, scen_name: str, scen_args: tuple[Any, ...], bound: int, max_runs_per_unit: int = 10**9, split_depth: int = 2) -> Part:
    """Parallel complete exploration: the root and `split_depth` levels are expanded here, subtrees go to workers."""
    import importlib
    import logging

    logging.disable(logging.CRITICAL)
    mod = importlib.import_module(modname)
    scenario = mod.SCENARIOS[scen_name](*scen_args)
    name = f"{scen_name}{list(scen_args)}"
    # determinism self-test: the default schedule twice, observations must be identical
    a, va = run_one(scenario, [])
    b, vb = run_one(scenario, [])
    if (a.trace, a.labels, a.arity, a.notes, va) != (b.trace, b.labels, b.arity, b.notes, vb):
        raise HarnessError(f"{name}: default schedule is not reproducible")
    # expand the top of the tree locally, collecting work units
    root = Part()
    units: list[tuple[list[int], list[tuple[str, int]]]] = []
    frontier: list[tuple[list[int], Any, int]] = [([], None, 0)]
    states: set[int] = set()
    while frontier:
        pre, exp, depth = frontier.pop()
        ch, viols = run_one(scenario, pre, exp)
        root.evaluations += 1
        root.traces += 1
        root.transitions += len(ch.trace)
        states |= ch.states
        outcome = "|".join(str(x) for x in ch.notes) if ch.notes else "-"
        root.outcomes[outcome] += 1
        if any(ch.trace):
            root.nontrivial += 1
        for sig, detail in viols:
            root.viol(sig, detail, {"scenario": name, "choices": ch.trace, "schedule": ch.schedule()}, rank=(sum(1 for c in ch.trace if c), len(ch.trace), name))
        if root.evaluations == 1:
            root.sample({"scenario": name, "schedule": ch.schedule(), "outcome": outcome})
        spent = 0
        rec = list(zip(ch.labels, ch.arity))
        for i in range(len(ch.trace)):
            if i >= len(pre):
                for alt in range(1, ch.arity[i]):
                    if spent + ch.costs[i][alt] <= bound:
                        child = (ch.trace[:i] + [alt], rec[: i + 1])
                        if depth + 1 < split_depth:
                            frontier.append((child[0], child[1], depth + 1))
                        else:
                            units.append(child)
            spent += ch.costs[i][ch.trace[i]]
    acc = ctx.pmap(_worker, [(modname, scen_name, scen_args, u[0], u[1], bound, max_runs_per_unit) for u in units])
    ctx.merge(root)
    states |= set(acc.extra.get("state_hashes", set()))
    allst: set[int] = ctx.total.extra.get("state_hashes", set())
    if not isinstance(allst, set):
        allst = set(allst)
    allst |= states
    ctx.total.extra["state_hashes"] = allst
    if acc.extra.get("cap_hit"):
        ctx.caps.append(f"{name}: max_runs_per_unit={max_runs_per_unit} hit in {acc.extra['cap_hit']} units")
    return acc


def finalize_states(ctx: Any) -> None:
    st = ctx.total.extra.pop("state_hashes", set())
    ctx.total.states = len(st)
    ctx.total.extra.pop("cap_hit", None)


def replay_schedule(modname: str, case: dict[str, Any]) -> list[tuple[str, str]]:
    """Re-run one recorded schedule (no search)."""
    import importlib
    import logging
    import re

    logging.disable(logging.CRITICAL)
    mod = importlib.import_module(modname)
    m = re.match(r"^(\w+)(\[.*\])$", case["scenario"])
    assert m, case["scenario"]
    import json

    args = tuple(json.loads(m.group(2).replace("'", '"').replace("True", "true").replace("False", "false").replace("None", "null")))
    scenario = mod.SCENARIOS[m.group(1)](*args)
    ch, viols = run_one(scenario, list(case["choices"]))
    ch2, viols2 = run_one(scenario, list(case["choices"]))
    if (ch.trace, ch.labels, viols) != (ch2.trace, ch2.labels, viols2):
        raise HarnessError("replay is not deterministic")
    return viols
