"""Helpers for the Data Secure properties (C15-C18): receivers, reference-built secure frames."""

from __future__ import annotations

from typing import Any

from xknx import XKNX
from xknx.secure.data_secure import DataSecure
from xknx.telegram import GroupAddress, IndividualAddress

from .ref import ccm
from .ref.cemi import encode_ldata

SCF_ENC = 0x10   # S-A_Data, CCM authentication + encryption
SCF_AUTH = 0x00  # S-A_Data, CCM authentication only


class Receiver:
    """A real XKNX with Data Secure initialised; counts what reaches the telegram queue / key-issue callbacks / management."""

    def __init__(self, group_keys: dict[int, bytes], senders: dict[int, int], own: int = 0x1105, last_sending: int = 1000) -> None:
        self.xknx = XKNX()
        self.xknx.current_address = IndividualAddress(own)
        self.ds = DataSecure(
            group_key_table={GroupAddress(g): k for g, k in group_keys.items()},
            individual_address_table={IndividualAddress(s): n for s, n in senders.items()},
            last_sequence_number_sending=last_sending,
        )
        self.xknx.cemi_handler.data_secure = self.ds
        self.key_issues: list[Any] = []
        self.xknx.telegram_queue.register_data_secure_group_key_issue_cb(self.key_issues.append)

    def feed(self, raw: bytes) -> tuple[list[Any], int, BaseException | None]:
        """Return (telegrams delivered to the queue by this frame, key-issue callbacks, escaped exception)."""
        n_issue = len(self.key_issues)
        exc: BaseException | None = None
        try:
            self.xknx.cemi_handler.handle_raw_cemi(raw)
        except BaseException as e:  # noqa: BLE001
            exc = e
        out = []
        while not self.xknx.telegrams.empty():
            out.append(self.xknx.telegrams.get_nowait())
        return out, len(self.key_issues) - n_issue, exc

    def table(self) -> dict[int, int]:
        return {ia.raw: n for ia, n in self.ds._individual_address_table.items()}  # noqa: SLF001


def secure_frame(key: bytes, sa: int, da: int, seq: int, apdu: bytes, *, encrypt: bool = True, tpci_octet: int = 0x00, dst_is_group: bool = True,
                 code: int = 0x29, priority: int = 3, hop_count: int = 6, repeat: bool = False, scf: int | None = None, eff: int = 0) -> bytes:
    """An L_Data frame carrying an S-A_Data APDU built by the reference CCM (not by xknx)."""
    scf_octet = (SCF_ENC if encrypt else SCF_AUTH) if scf is None else scf
    asdu = ccm.data_secure_asdu(key, scf_octet, seq, sa, da, dst_is_group, eff, tpci_octet, apdu, encrypt)
    sec_apdu = bytes((0x03, 0xF1, scf_octet)) + asdu
    raw = encode_ldata(code, priority=priority, repeat_on_error=repeat, system_broadcast=False, ack=False, confirm_error=False, hop_count=hop_count,
                       dst_is_group=dst_is_group, src=sa, dst=da, tpci_octet=tpci_octet, apdu=sec_apdu)
    if eff:
        raw = raw[:3] + bytes((raw[3] | eff,)) + raw[4:]
    return raw


def plain_frame(sa: int, da: int, apdu: bytes, *, tpci_octet: int = 0x00, dst_is_group: bool = True, code: int = 0x29) -> bytes:
    return encode_ldata(code, priority=3, repeat_on_error=False, system_broadcast=False, ack=False, confirm_error=False, hop_count=6,
                        dst_is_group=dst_is_group, src=sa, dst=da, tpci_octet=tpci_octet, apdu=apdu)
