"""C40, second half: the real Cover device (telegram processing, auto-stopper and periodic updater tasks) on top of TravelCalculator."""

from __future__ import annotations

from .vloop import texc

import itertools
from typing import Any

from xknx.devices import Cover
import xknx.devices.travelcalculator as TC
from xknx.dpt import DPTArray, DPTBinary
from xknx.telegram import GroupAddress, IndividualAddress, Telegram, TelegramDirection
from xknx.telegram.apci import GroupValueWrite

from .runner import Part, exc_sig
from .sim.core import CoreWorld

CONFIGS = [
    {"group_address_long": "1/0/1", "group_address_short": "1/0/2", "group_address_stop": "1/0/3", "travel_time_down": 20, "travel_time_up": 10},
    {"group_address_long": "1/0/1", "group_address_stop": "1/0/3", "group_address_position": "1/0/4", "group_address_position_state": "1/0/5", "travel_time_down": 20, "travel_time_up": 10},
    {"group_address_long": "1/0/1", "group_address_short": "1/0/2", "group_address_position_state": "1/0/5", "travel_time_down": 16, "travel_time_up": 16},
]
EVENTS = ["set_up", "set_down", "stop", "set_position(30)", "set_position(100)", "bus:long-down", "bus:long-up", "bus:stop", "bus:position-state(0)", "bus:position-state(50%)", "bus:position-state(100%)", "none"]
ADV = [0.0, 0.0009765625, 2.5, 5.0, 10.0, 20.0, 45.0]
QUERIES = ["current_position", "is_traveling", "is_opening", "is_closing", "position_reached", "is_open", "is_closed"]


class LoopClock:
    def __init__(self, loop: Any) -> None:
        self.loop = loop

    def time(self) -> float:
        return self.loop.time()


def run_case(ci: int, seq: tuple[tuple[int, int], ...]) -> list[tuple[str, str]]:
    viols: list[tuple[str, str]] = []
    saved = TC.time
    with CoreWorld(t0=1024.0, rate_limit=0) as w:
        TC.time = LoopClock(w.loop)  # type: ignore[assignment]
        try:
            cfg = CONFIGS[ci]
            cover = Cover(w.xknx, "cover", **cfg)  # type: ignore[arg-type]
            w.xknx.devices.async_add(cover)
            w.start()
            trace: list[str] = []

            def observe(tag: str, prev: Any) -> Any:
                obs = {}
                for q in QUERIES:
                    try:
                        obs[q] = getattr(cover, q)()
                    except Exception as exc:  # noqa: BLE001
                        viols.append((exc_sig(f"cover-query-raises:{q}", exc), f"{tag}: {q}() raised {exc!r}; trace={trace}"))
                        return None
                est = obs["current_position"]
                tgt = cover.travelcalculator._travel_to_position  # noqa: SLF001
                if est is not None and (type(est) is not int or not 0 <= est <= 100):  # noqa: E721
                    viols.append(("cover-estimate-not-an-integer-in-range", f"{tag}: {est!r}; trace={trace}"))
                if obs["is_traveling"] != (est != tgt) or obs["position_reached"] != (est == tgt):
                    viols.append(("cover-queries-inconsistent", f"{tag}: {obs} target {tgt}; trace={trace}"))
                if prev is not None and prev[1] == tgt and tgt is not None and est is not None and prev[0] is not None and abs(tgt - est) > abs(tgt - prev[0]):
                    viols.append(("cover-estimate-moves-away-from-target", f"{tag}: {prev[0]} -> {est}, target {tgt}; trace={trace}"))
                return (est, tgt)

            prev = observe("start", None)
            for ai, ei in seq:
                if ADV[ai]:
                    w.run(ADV[ai])
                    prev = observe(f"after +{ADV[ai]}s", prev)
                ev = EVENTS[ei]
                trace.append(f"+{ADV[ai]}s {ev}")
                if ev.startswith("bus:"):
                    what = ev[4:]
                    if what == "long-down":
                        t = Telegram(GroupAddress("1/0/1"), payload=GroupValueWrite(DPTBinary(1)))
                    elif what == "long-up":
                        t = Telegram(GroupAddress("1/0/1"), payload=GroupValueWrite(DPTBinary(0)))
                    elif what == "stop":
                        t = Telegram(GroupAddress("1/0/3" if "group_address_stop" in cfg else "1/0/2"), payload=GroupValueWrite(DPTBinary(1)))
                    else:
                        raw = {"position-state(0)": 0, "position-state(50%)": 128, "position-state(100%)": 255}[what]
                        t = Telegram(GroupAddress("1/0/5"), payload=GroupValueWrite(DPTArray((raw,))))
                    t.source_address = IndividualAddress("1.1.9")
                    t.direction = TelegramDirection.INCOMING
                    w.xknx.telegrams.put_nowait(t)
                elif ev != "none":
                    coro = {"set_up": cover.set_up, "set_down": cover.set_down, "stop": cover.stop}.get(ev)
                    task = w.spawn(coro() if coro else cover.set_position(int(ev[13:-1])), name="harness-user")
                    w.loop.settle()
                    if task.done() and not task.cancelled() and texc(task) is not None:
                        viols.append((exc_sig("cover-command-raises", texc(task)), f"{ev}: {texc(task)!r}; trace={trace}"))  # type: ignore[arg-type]
                w.loop.settle()
                prev = observe(f"after {ev}", None)
            # horizon: let every travel finish (2 x the longest travel time), nothing may be left moving
            w.run(45.0)
            fin = observe("horizon", prev)
            if fin is not None and fin[0] != fin[1] and fin[1] is not None:
                viols.append(("cover-never-arrives", f"estimate {fin[0]} target {fin[1]} 45 s after the last event; trace={trace}"))
            for name, exc in w.task_escapes():
                viols.append((exc_sig("cover-task-exception", exc), f"{name}: {exc!r}; trace={trace}"))
            for c in w.loop.exceptions:
                viols.append((f"cover-loop-exception:{type(c.get('exception')).__name__}", f"{c.get('message')} {c.get('exception')!r}; trace={trace}"))
        finally:
            TC.time = saved
    seen: set[str] = set()
    return [(s, d) for s, d in viols if not (s in seen or seen.add(s))]


def cases(depth: int) -> list[tuple[int, tuple[tuple[int, int], ...]]]:
    evs = [(a, e) for a in range(len(ADV)) for e in range(len(EVENTS))]
    out = []
    for ci in range(len(CONFIGS)):
        for n in range(1, depth + 1):
            for seq in itertools.product(evs, repeat=n):
                # an advance before the very first event changes nothing
                if seq[0][0] != 0:
                    continue
                out.append((ci, seq))
    return out


def arrival_case(opts: dict[str, Any], start: int, cmd: str) -> list[tuple[str, str]]:
    """From a reported position, one command: the estimate reaches the target exactly when the configured travel time of that
    direction x the distance has elapsed (not a second earlier), whatever inversion options are set."""
    viols: list[tuple[str, str]] = []
    saved = TC.time
    with CoreWorld(t0=1024.0, rate_limit=0) as w:
        TC.time = LoopClock(w.loop)  # type: ignore[assignment]
        try:
            cfg = {"group_address_long": "1/0/1", "group_address_stop": "1/0/3", "group_address_position": "1/0/4", "group_address_position_state": "1/0/5", **opts}
            cover = Cover(w.xknx, "cover", **cfg)  # type: ignore[arg-type]
            w.xknx.devices.async_add(cover)
            w.start()
            inv_pos = bool(opts.get("invert_position"))
            raw = round((100 - start if inv_pos else start) * 255 / 100)
            t = Telegram(GroupAddress("1/0/5"), payload=GroupValueWrite(DPTArray((raw,))), source_address=IndividualAddress("1.1.9"), direction=TelegramDirection.INCOMING)
            w.xknx.telegrams.put_nowait(t)
            w.run(0.5)
            p0 = cover.current_position()
            if p0 is None or abs(p0 - start) > 1:
                return [("harness:cover-start-position", f"{opts} start={start}: reports {p0}")]
            target = {"set_up": 0, "set_down": 100}.get(cmd, 30)
            if target == p0:
                return []
            coro = {"set_up": cover.set_up, "set_down": cover.set_down}.get(cmd)
            w.spawn(coro() if coro else cover.set_position(30), name="harness-user")
            w.loop.settle()
            t_dir = opts["travel_time_down"] if target > p0 else opts["travel_time_up"]
            dur = t_dir * abs(target - p0) / 100
            ctxs = f"Cover({opts}) at {p0}, {cmd}: target {target}, travel time of that direction {t_dir}s -> {dur}s"
            if dur > 1.5:
                w.run(dur - 1.0)
                est = cover.current_position()
                if est == target:
                    viols.append(("cover-arrives-early", f"{ctxs}; already reports {est} after {dur - 1.0}s"))
                w.run(1.0 + 0.01)
            else:
                w.run(dur + 0.01)
            est = cover.current_position()
            if est != target:
                viols.append(("cover-arrives-late", f"{ctxs}; reports {est} after {dur + 0.01}s"))
        finally:
            TC.time = saved
    return viols


def arrival_cases() -> list[tuple[dict[str, Any], int, str]]:
    out = []
    for inv_ud in (False, True):
        for inv_pos in (False, True):
            for down, up in ((20, 20), (10, 40), (40, 10)):
                opts: dict[str, Any] = {"travel_time_down": down, "travel_time_up": up}
                if inv_ud:
                    opts["invert_updown"] = True
                if inv_pos:
                    opts["invert_position"] = True
                for start in (0, 50, 100):
                    for cmd in ("set_up", "set_down", "set_position(30)"):
                        out.append((opts, start, cmd))
    return out


def arrival_worker() -> Part:
    import logging

    logging.disable(logging.CRITICAL)
    part = Part()
    for i, (opts, start, cmd) in enumerate(arrival_cases()):
        viols = arrival_case(opts, start, cmd)
        part.evaluations += 1
        part.nontrivial += 1
        part.transitions += 1
        part.outcomes["cover-arrival:" + ("violating" if viols else "ok")] += 1
        for s_, d in viols:
            part.viol(s_, d, ["cover-arrival", i], rank=(1, i))
    return part


def worker(k: int, n: int, depth: int) -> Part:
    import logging

    logging.disable(logging.CRITICAL)
    part = Part()
    allc = cases(depth)
    for i in range(k, len(allc), n):
        ci, seq = allc[i]
        viols = run_case(ci, seq)
        part.evaluations += 1
        part.traces += 1
        part.transitions += len(seq)
        part.outcomes["cover:" + ("violating" if viols else "ok")] += 1
        for s, d in viols:
            part.viol(s, d, ["cover", ci, [list(e) for e in seq]], rank=(len(seq), seq))
    return part


def replay(case: Any) -> list[tuple[str, str]]:
    if case[0] == "cover-arrival":
        return arrival_case(*arrival_cases()[case[1]])
    _tag, ci, seq = case
    return run_case(ci, tuple((a, e) for a, e in seq))
