"""Independent writer for ETS keyring (.knxkeys) files: model, encryption and signature (C31).

Written from the file format (ETS 5/6 exports): values are AES-128-CBC encrypted with key = PBKDF2-HMAC-SHA256(password,
"1.keyring.ets.knx.org", 65536, 16) and IV = SHA-256(Created)[:16]; passwords are stored as 8 random octets + UTF-8 text +
padding whose last octet is the padding length; the signature is SHA-256 over the element/attribute stream
(0x01 name {attr-name attr-value}* ... 0x02, each string length-prefixed, attributes sorted by name, without xmlns and
Signature) followed by the length-prefixed base64 of the password hash, truncated to 16 octets.
Nothing here imports xknx; AES is vf/ref/aes.py, PBKDF2/SHA-256 come from hashlib.
"""

from __future__ import annotations

import base64
import functools
import hashlib
from typing import Any
from xml.sax.saxutils import quoteattr

from .aes import encrypt_block

NS = "http://knx.org/xml/keyring/1"


@functools.lru_cache(maxsize=64)
def password_hash(password: str) -> bytes:
    return hashlib.pbkdf2_hmac("sha256", password.encode("utf-8"), b"1.keyring.ets.knx.org", 65536, 16)


def iv_of(created: str) -> bytes:
    return hashlib.sha256(created.encode("utf-8")).digest()[:16]


def cbc_encrypt(key: bytes, iv: bytes, data: bytes) -> bytes:
    assert len(data) % 16 == 0 and data
    out = b""
    prev = iv
    for i in range(0, len(data), 16):
        block = bytes(a ^ b for a, b in zip(data[i : i + 16], prev))
        prev = encrypt_block(key, block)
        out += prev
    return out


def enc_key(password: str, created: str, key16: bytes) -> str:
    return base64.b64encode(cbc_encrypt(password_hash(password), iv_of(created), key16)).decode()


def enc_password(password: str, created: str, text: str, salt: bytes = b"\x11\x22\x33\x44\x55\x66\x77\x88") -> str:
    body = salt + text.encode("utf-8")
    pad = 16 - len(body) % 16
    body += bytes([pad]) * pad
    return base64.b64encode(cbc_encrypt(password_hash(password), iv_of(created), body)).decode()


class El:
    """An XML element: name, ordered attributes, children."""

    def __init__(self, name: str, attrs: list[tuple[str, str]] | None = None, children: list["El"] | None = None) -> None:
        self.name = name
        self.attrs = list(attrs or [])
        self.children = list(children or [])

    def clone(self) -> "El":
        return El(self.name, list(self.attrs), [c.clone() for c in self.children])

    def walk(self, path: tuple[int, ...] = ()) -> list[tuple[tuple[int, ...], "El"]]:
        out = [(path, self)]
        for i, c in enumerate(self.children):
            out += c.walk(path + (i,))
        return out

    def at(self, path: tuple[int, ...]) -> "El":
        e = self
        for i in path:
            e = e.children[i]
        return e

    def to_xml(self, indent: int = 0) -> str:
        pad = "  " * indent
        attrs = "".join(f" {k}={quoteattr(v)}" for k, v in self.attrs)
        if not self.children:
            return f"{pad}<{self.name}{attrs} />\n"
        return f"{pad}<{self.name}{attrs}>\n" + "".join(c.to_xml(indent + 1) for c in self.children) + f"{pad}</{self.name}>\n"


def lp(s: str | bytes) -> bytes:
    b = s.encode("utf-8") if isinstance(s, str) else s
    assert len(b) < 256
    return bytes([len(b)]) + b


def stream(el: El) -> bytes:
    out = b"\x01" + lp(el.name)
    for k, v in sorted(el.attrs):
        if k in ("xmlns", "Signature"):
            continue
        out += lp(k) + lp(v)
    for c in el.children:
        out += stream(c)
    return out + b"\x02"


def canon(el: El) -> Any:
    """The signed content as a structure (what `stream` encodes), usable also where a value exceeds the 255-octet length prefix."""
    return (el.name, tuple(sorted((k, v) for k, v in el.attrs if k not in ("xmlns", "Signature"))), tuple(canon(c) for c in el.children))


def signature(root: El, password: str) -> str:
    data = stream(root) + lp(base64.b64encode(password_hash(password)))
    return base64.b64encode(hashlib.sha256(data).digest()[:16]).decode()


def sign(root: El, password: str) -> El:
    root.attrs = [(k, v) for k, v in root.attrs if k != "Signature"] + [("Signature", signature(root, password))]
    return root


def document(root: El) -> str:
    return '<?xml version="1.0" encoding="utf-8"?>\n' + root.to_xml()


def build(model: dict[str, Any], password: str) -> El:
    """Keyring element tree from a plain model (see vf/props/c31.py for its shape), signed."""
    created = model["created"]
    root = El("Keyring", [("Project", model["project"]), ("CreatedBy", "vf reference writer"), ("Created", created), ("xmlns", NS)])
    bb = model.get("backbone")
    if bb is not None:
        root.children.append(El("Backbone", [("MulticastAddress", bb["multicast"]), ("Latency", str(bb["latency"])), ("Key", enc_key(password, created, bb["key"]))]))
    for itf in model["interfaces"]:
        attrs = [("IndividualAddress", itf["ia"]), ("Type", itf["type"])]
        if itf.get("host"):
            attrs.append(("Host", itf["host"]))
        if itf.get("user_id") is not None:
            attrs.append(("UserID", str(itf["user_id"])))
        if itf.get("password") is not None:
            attrs.append(("Password", enc_password(password, created, itf["password"])))
        if itf.get("authentication") is not None:
            attrs.append(("Authentication", enc_password(password, created, itf["authentication"])))
        e = El("Interface", attrs)
        for ga, senders in itf.get("groups", []):
            e.children.append(El("Group", [("Address", str(ga)), ("Senders", " ".join(senders))]))
        root.children.append(e)
    if model["groups"]:
        root.children.append(El("GroupAddresses", [], [El("Group", [("Address", str(ga)), ("Key", enc_key(password, created, key))]) for ga, key in model["groups"]]))
    if model["devices"]:
        devs = El("Devices")
        for d in model["devices"]:
            attrs = [("IndividualAddress", d["ia"]), ("ToolKey", enc_key(password, created, d["tool_key"])), ("ManagementPassword", enc_password(password, created, d["management_password"])),
                     ("Authentication", enc_password(password, created, d["authentication"]))]
            if d.get("sequence_number") is not None:
                attrs.append(("SequenceNumber", str(d["sequence_number"])))
            devs.children.append(El("Device", attrs))
        root.children.append(devs)
    return sign(root, password)


def from_minidom(node: Any) -> El:
    el = El(node.nodeName, [(k, v) for k, v in node.attributes.items()])
    for c in node.childNodes:
        if c.nodeType == c.ELEMENT_NODE:
            el.children.append(from_minidom(c))
    return el
