"""Independent reference for KNXnet/IP Secure (03.08.09): secure wrapper, session handshake MACs, timer notify MAC.

All MACs are the CBC-MAC of vf/ref/ccm.py; all encryptions are CTR over (MAC | payload) starting at Ctr0.
  wrapper:   B0 = SeqInfo(6) | Serial(6) | Tag(2) | len(P)(2);  A = wrapper header(6) | session id(2);  Ctr0 = SeqInfo | Serial | Tag | FF 00
  handshake: B0 = 0^16;  Ctr0 = 0^14 | FF 00;  no payload
     SessionResponse:     key = device authentication code, A = 06 10 09 52 00 38 | session id | (client pub XOR server pub)
     SessionAuthenticate: key = user password hash,         A = 06 10 09 53 00 18 | 00 | user id | (client pub XOR server pub)
  timer notify: B0 = Timer(6) | Serial(6) | Tag(2) | 00 00;  A = 06 10 09 55 00 24;  Ctr0 = Timer | Serial | Tag | FF 00
Key derivation: PBKDF2-HMAC-SHA256, 65536 iterations, 16 octets, salts 'user-password.1.secure.ip.knx.org' /
'device-authentication-code.1.secure.ip.knx.org'; session key = SHA-256(X25519 shared secret)[:16].
"""

from __future__ import annotations

from functools import lru_cache
import hashlib

from . import ccm

CTR0_HANDSHAKE = bytes(14) + b"\xff\x00"


@lru_cache(maxsize=None)
def user_password_key(password: str) -> bytes:
    return hashlib.pbkdf2_hmac("sha256", password.encode("latin-1"), b"user-password.1.secure.ip.knx.org", 65536, 16)


@lru_cache(maxsize=None)
def device_authentication_key(password: str) -> bytes:
    return hashlib.pbkdf2_hmac("sha256", password.encode("latin-1"), b"device-authentication-code.1.secure.ip.knx.org", 65536, 16)


def session_key(shared_secret: bytes) -> bytes:
    return hashlib.sha256(shared_secret).digest()[:16]


def wrap(key: bytes, session_id: int, seq_info: bytes, serial: bytes, tag: bytes, plain_frame: bytes) -> bytes:
    total = 6 + 2 + 6 + 6 + 2 + len(plain_frame) + 16
    header = bytes.fromhex("06100950") + total.to_bytes(2, "big")
    sid = session_id.to_bytes(2, "big")
    b0 = seq_info + serial + tag + len(plain_frame).to_bytes(2, "big")
    mac = ccm.cbc_mac(key, b0, header + sid, plain_frame)
    enc, mac_x = ccm.ctr_xor(key, seq_info + serial + tag + b"\xff\x00", mac, plain_frame)
    return header + sid + seq_info + serial + tag + enc + mac_x


def unwrap(key: bytes, session_id: int, raw: bytes) -> bytes | None:
    """Return the plain frame, or None if the wrapper is not authentic for this key / session."""
    if len(raw) < 6 + 2 + 14 + 16 or raw[:4] != bytes.fromhex("06100950") or int.from_bytes(raw[4:6], "big") != len(raw):
        return None
    sid = raw[6:8]
    if int.from_bytes(sid, "big") != session_id:
        return None
    seq_info, serial, tag = raw[8:14], raw[14:20], raw[20:22]
    enc, mac_x = raw[22:-16], raw[-16:]
    plain, mac = ccm.ctr_xor(key, seq_info + serial + tag + b"\xff\x00", mac_x, enc)
    b0 = seq_info + serial + tag + len(plain).to_bytes(2, "big")
    if ccm.cbc_mac(key, b0, raw[:6] + sid, plain) != mac:
        return None
    return plain


def xor(a: bytes, b: bytes) -> bytes:
    return bytes(x ^ y for x, y in zip(a, b))


def session_response_mac(device_key: bytes, session_id: int, client_pub: bytes, server_pub: bytes) -> bytes:
    mac = ccm.cbc_mac(device_key, bytes(16), bytes.fromhex("061009520038") + session_id.to_bytes(2, "big") + xor(client_pub, server_pub), b"")
    return ccm.ctr_xor(device_key, CTR0_HANDSHAKE, mac, b"")[1]


def session_authenticate_mac(user_key: bytes, user_id: int, client_pub: bytes, server_pub: bytes) -> bytes:
    mac = ccm.cbc_mac(user_key, bytes(16), bytes.fromhex("061009530018") + bytes((0, user_id)) + xor(client_pub, server_pub), b"")
    return ccm.ctr_xor(user_key, CTR0_HANDSHAKE, mac, b"")[1]


def timer_notify_mac(backbone_key: bytes, timer: int, serial: bytes, tag: bytes) -> bytes:
    t = timer.to_bytes(6, "big")
    mac = ccm.cbc_mac(backbone_key, t + serial + tag + b"\x00\x00", bytes.fromhex("061009550024"), b"")
    return ccm.ctr_xor(backbone_key, t + serial + tag + b"\xff\x00", mac, b"")[1]


def timer_notify_frame(backbone_key: bytes, timer: int, serial: bytes, tag: bytes, forge: bool = False) -> bytes:
    mac = timer_notify_mac(backbone_key, timer, serial, tag)
    if forge:
        mac = mac[:-1] + bytes((mac[-1] ^ 1,))
    return bytes.fromhex("061009550024") + timer.to_bytes(6, "big") + serial + tag + mac


def selftest() -> None:
    ccm.selftest()
    key = bytes(range(16))
    # worked example of KNX IP Secure 03.08.09 (secure wrapper around a RoutingIndication, multicast session id 0)
    ex_plain = bytes.fromhex("0610053000112900bcd011590ade010081")
    ex = wrap(key, 0, bytes.fromhex("c0c1c2c3c4c5"), bytes.fromhex("00fa12345678"), b"\xaf\xfe", ex_plain)
    assert ex == bytes.fromhex("061009500037" "0000" "c0c1c2c3c4c5" "00fa12345678" "affe" "b7ee7e8a1c2f7bbabec775fd6e10d0bc4b" "7212a03aaae49da85689774c1d2b4da4"), ex.hex()
    assert user_password_key("secret").hex() == "03fcedb66660251ec81a1a716901696a", user_password_key("secret").hex()
    assert device_authentication_key("trustme").hex() == "e158e4012047bd6cc41aafbc5c04c1fc", device_authentication_key("trustme").hex()
    plain = bytes.fromhex("06100205001a0801c0a8000203e80801c0a8000203e804040200")
    w = wrap(key, 1, bytes(6), bytes.fromhex("00fa12345678"), b"\xaf\xfe", plain)
    assert unwrap(key, 1, w) == plain and unwrap(key, 2, w) is None and unwrap(bytes(16), 1, w) is None
