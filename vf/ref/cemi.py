"""Independent encoder of the cEMI L_Data layout (C13), written from 3/6/3 EMI_IMI §4.1.4.3 / 3/2/2 §2.2.

  code | AddIL(=0) | Ctrl1 | Ctrl2 | SA(2) | DA(2) | L | TPDU
  Ctrl1 = FT r R SB P P A C      FT: 1 = standard frame (L <= 15), 0 = extended; R = do-not-repeat; SB = 1: broadcast (not system broadcast)
  Ctrl2 = AT H H H E E E E       AT: 1 = group destination; HHH hop count; EEEE extended frame format (0)
  L     = number of octets after the TPCI octet (0 for control TPDUs)
"""

from __future__ import annotations


def encode_ldata(code: int, *, priority: int, repeat_on_error: bool, system_broadcast: bool, ack: bool, confirm_error: bool,
                 hop_count: int, dst_is_group: bool, src: int, dst: int, tpci_octet: int, apdu: bytes | None) -> bytes:
    """apdu = complete APDU (first octet carries the two high APCI bits) or None for a control TPDU."""
    if apdu is None:
        tpdu = bytes((tpci_octet,))
        length = 0
    else:
        tpdu = bytes((apdu[0] & 0x03 | tpci_octet & 0xFC,)) + apdu[1:]
        length = len(apdu) - 1
    ft = 1 if length <= 15 else 0
    ctrl1 = ft << 7 | (0 if repeat_on_error else 1) << 5 | (0 if system_broadcast else 1) << 4 | priority << 2 | int(ack) << 1 | int(confirm_error)
    ctrl2 = int(dst_is_group) << 7 | hop_count << 4
    return bytes((code, 0, ctrl1, ctrl2)) + src.to_bytes(2, "big") + dst.to_bytes(2, "big") + bytes((length,)) + tpdu
