"""Pure-Python AES-128 block encryption (FIPS-197), used only as the block primitive of the reference CCM/CBC/CTR code."""

from __future__ import annotations

from functools import lru_cache


def _xtime(a: int) -> int:
    a <<= 1
    return (a ^ 0x11B) & 0xFF if a & 0x100 else a


def _build_sbox() -> list[int]:
    # multiplicative inverse via exp/log tables over generator 3, then the affine map
    exp = [0] * 256
    log = [0] * 256
    x = 1
    for i in range(255):
        exp[i] = x
        log[x] = i
        x ^= _xtime(x)
    sbox = [0] * 256
    for v in range(256):
        inv = 0 if v == 0 else exp[(255 - log[v]) % 255]
        s = inv
        for k in (1, 2, 3, 4):
            s ^= ((inv << k) | (inv >> (8 - k))) & 0xFF
        sbox[v] = s ^ 0x63
    return sbox


SBOX = _build_sbox()
MUL2 = [_xtime(a) for a in range(256)]
MUL3 = [_xtime(a) ^ a for a in range(256)]


@lru_cache(maxsize=64)
def expand_key(key: bytes) -> tuple[tuple[int, ...], ...]:
    assert len(key) == 16
    w = [list(key[i:i + 4]) for i in range(0, 16, 4)]
    rcon = 1
    for i in range(4, 44):
        t = list(w[i - 1])
        if i % 4 == 0:
            t = t[1:] + t[:1]
            t = [SBOX[b] for b in t]
            t[0] ^= rcon
            rcon = _xtime(rcon)
        w.append([a ^ b for a, b in zip(w[i - 4], t)])
    return tuple(tuple(b for word in w[r * 4:r * 4 + 4] for b in word) for r in range(11))


def encrypt_block(key: bytes, block: bytes) -> bytes:
    rk = expand_key(bytes(key))
    s = [b ^ k for b, k in zip(block, rk[0])]
    for rnd in range(1, 11):
        s = [SBOX[b] for b in s]
        # ShiftRows on column-major state
        s = [s[(i + 4 * (i % 4)) % 16] for i in range(16)]
        if rnd != 10:
            t = []
            for c in range(4):
                a0, a1, a2, a3 = s[4 * c:4 * c + 4]
                t += [MUL2[a0] ^ MUL3[a1] ^ a2 ^ a3, a0 ^ MUL2[a1] ^ MUL3[a2] ^ a3, a0 ^ a1 ^ MUL2[a2] ^ MUL3[a3], MUL3[a0] ^ a1 ^ a2 ^ MUL2[a3]]
            s = t
        s = [b ^ k for b, k in zip(s, rk[rnd])]
    return bytes(s)


def selftest() -> None:
    key = bytes(range(16))
    pt = bytes.fromhex("00112233445566778899aabbccddeeff")
    assert encrypt_block(key, pt).hex() == "69c4e0d86a7b0430d8cdb78070b4c55a", "FIPS-197 C.1 vector"
    assert encrypt_block(bytes.fromhex("2b7e151628aed2a6abf7158809cf4f3c"), bytes.fromhex("3243f6a8885a308d313198a2e0370734")).hex() == "3925841d02dc09fbdc118597196a0b32", "FIPS-197 B vector"
