"""Reserved-bit masks for application-layer PDUs (C05, C13).

reserved_mask(service_name, apdu) -> bytes of the same length; a 1 bit marks a bit the KNX specification
reserves (or that does not belong to the APDU), i.e. a bit whose value a decode->encode cycle may normalise.

Octet 0: the six high bits belong to the transport layer (TPCI) for every service.
Further entries are listed per service with the clause of KNX Application Layer 03.03.07 they come from.
"""

from __future__ import annotations

# service name -> list of (octet index, mask); index counts from the first APDU octet (the TPCI/APCI octet)
RESERVED: dict[str, list[tuple[int, int]]] = {
    # A_Authorize_Request-PDU: the octet after the APCI is "00h reserved" (03.03.07 §3.5.7)
    "AuthorizeRequest": [(2, 0xFF)],
    # A_Link_Read-PDU: flags octet = 4 reserved bits + start_index (4 bits) (§3.5.13)
    "LinkRead": [(3, 0xF0)],
    # A_Link_Write-PDU: flags octet = 6 reserved bits, d (delete), s (sending)
    "LinkWrite": [(3, 0xFC)],
    # A_PropertyDescription_Response-PDU: max_nr_of_elem = 4 reserved bits + 12 bits
    "PropertyDescriptionResponse": [(6, 0xF0)],
    # A_PropertyExtDescription_Response-PDU: w | reserved | PDT(6)
    "PropertyExtDescriptionResponse": [(13, 0x40)],
    # A_SystemNetworkParameter_*-PDU: PID = 12 bits followed by 4 reserved bits
    "SystemNetworkParameterRead": [(5, 0x0F)],
    "SystemNetworkParameterResponse": [(5, 0x0F)],
    "SystemNetworkParameterWrite": [(5, 0x0F)],
    # A_IndividualAddressSerialNumber_Response-PDU: serial(6) domain address(2) reserved(2)
    "IndividualAddressSerialResponse": [(10, 0xFF), (11, 0xFF)],
    # A_IndividualAddressSerialNumber_Write-PDU: serial(6) new address(2) reserved(4)
    "IndividualAddressSerialWrite": [(10, 0xFF), (11, 0xFF), (12, 0xFF), (13, 0xFF)],
    # A_Restart-PDU: bits 4..1 are reserved (bit 5 = response flag, bit 0 = restart type)
    "Restart": [(1, 0x1E)],
}
# services whose 10-bit APCI has no 6-bit data field: the low six bits of octet 1 carry no information.  The specification
# text for these bits is not at hand, so they are treated as reserved (weaker reading, never a false alarm).
NO_SIX_BIT_FIELD = {"GroupValueRead", "IndividualAddressRead", "IndividualAddressResponse", "IndividualAddressWrite"}
# A_GroupValue_Response/Write carry their value in the six bits only when the APDU has exactly 2 octets
SIX_BITS_ONLY_WHEN_SHORT = {"GroupValueResponse", "GroupValueWrite"}


def reserved_mask(name: str, apdu: bytes) -> bytes:
    m = bytearray(len(apdu))
    if m:
        m[0] = 0xFC
    for idx, bits in RESERVED.get(name, ()):
        if idx < len(m):
            m[idx] |= bits
    if len(m) >= 2 and (name in NO_SIX_BIT_FIELD or (name in SIX_BITS_ONLY_WHEN_SHORT and len(m) > 2)):
        m[1] |= 0x3F
    return bytes(m)
