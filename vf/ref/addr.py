"""Independent reference for group-address filter patterns (C02), written from the documented grammar.

pattern := level ( "/" level ){0,2}          level := item ( "," item )*
item    := "*" | n | a "-" b | "-" b | a "-"
Open ends extend to the maximum value (65535), bounds above 65535 are clamped, reversed ranges are normalised.
Level values of an address: 3 levels -> (raw>>11, raw>>8 & 7, raw & 255); 2 levels -> (raw>>11, raw & 2047); 1 level -> (raw,).
"""

from __future__ import annotations

MAXV = 65535


def item_range(item: str) -> tuple[int, int]:
    if item == "*":
        return (0, MAXV)
    if "-" in item:
        a, b = item.split("-")
        lo = int(a) if a else 0
        hi = int(b) if b else MAXV
    else:
        lo = hi = int(item)
    lo, hi = min(lo, MAXV), min(hi, MAXV)
    return (lo, hi) if lo <= hi else (hi, lo)


def level_matches(level: str, value: int) -> bool:
    return any(lo <= value <= hi for lo, hi in map(item_range, level.split(",")))


def level_values(raw: int, levels: int) -> tuple[int, ...]:
    if levels == 3:
        return (raw >> 11, raw >> 8 & 7, raw & 255)
    if levels == 2:
        return (raw >> 11, raw & 2047)
    return (raw,)


def pattern_matches(pattern: str, raw: int) -> bool:
    parts = pattern.split("/")
    return all(level_matches(p, v) for p, v in zip(parts, level_values(raw, len(parts))))


def glob_matches(pat: str, text: str) -> bool:
    """'*' = any run of characters, '?' = exactly one character, case sensitive."""
    if not pat:
        return not text
    if pat[0] == "*":
        return any(glob_matches(pat[1:], text[i:]) for i in range(len(text) + 1))
    if not text:
        return False
    if pat[0] == "?" or pat[0] == text[0]:
        return glob_matches(pat[1:], text[1:])
    return False
