"""Reference implementation of the KNX CCM construction (Data Secure S-A_Data, and the same primitives for IP Secure).

Written from the description in KNX Application Layer 03.03.07 §5.1.3 (and KNXnet/IP Secure 03.08.09) on top of the
single-block AES of vf/ref/aes.py:

  CBC-MAC:  Y = AES-CBC(IV=0) over  B0 | len(A) (2 octets) | A | P   zero-padded to a block boundary; MAC = last block
  CTR:      S_i = AES(Ctr_i), Ctr_i = Ctr0 + i; the stream S_0 | S_1 | .. is XORed over (transmitted MAC octets | payload)

Data Secure:
  B0   = SeqNr(6) | SA(2) | DA(2) | 00 | AT<<7 | EFF | TPCI<<2 | 03 | F1 | 00 | Q      (Q = len(P) with encryption, 0 with authentication only)
  Ctr0 = SeqNr(6) | SA(2) | DA(2) | 00 00 00 00 01 00
  authentication + encryption: A = SCF,        P = APDU;  output = SeqNr | CTR(MAC[:4] | APDU) reordered as (APDU part | MAC part)
  authentication only:         A = SCF | APDU, P = empty; output = SeqNr | APDU | MAC[:4]
"""

from __future__ import annotations

from .aes import encrypt_block


def cbc_mac(key: bytes, b0: bytes, associated: bytes, payload: bytes) -> bytes:
    data = b0 + len(associated).to_bytes(2, "big") + associated + payload
    if len(data) % 16:
        data += bytes(16 - len(data) % 16)
    y = bytes(16)
    for i in range(0, len(data), 16):
        y = encrypt_block(key, bytes(a ^ b for a, b in zip(y, data[i:i + 16])))
    return y


def ctr_stream(key: bytes, ctr0: bytes, nblocks: int) -> list[bytes]:
    out = []
    c = int.from_bytes(ctr0, "big")
    for i in range(nblocks):
        out.append(encrypt_block(key, ((c + i) % (1 << 128)).to_bytes(16, "big")))
    return out


def ctr_xor(key: bytes, ctr0: bytes, mac: bytes, payload: bytes) -> tuple[bytes, bytes]:
    """CTR-encrypt the concatenation MAC | payload as ONE stream starting at Ctr0; return (payload part, MAC part).

    With a 16-octet MAC (IP Secure) the MAC uses exactly S_0 and the payload starts at S_1; with the 4-octet MAC of
    Data Secure the payload continues in S_0 right behind the MAC - this is what the worked example of AN158 Annex A
    shows (checked in selftest()).
    """
    data = mac + payload
    n = (len(data) + 15) // 16
    ks = b"".join(ctr_stream(key, ctr0, n))
    out = bytes(a ^ b for a, b in zip(data, ks))
    return out[len(mac):], out[: len(mac)]


def data_secure_b0(seq: bytes, sa: int, da: int, at_group: bool, eff: int, tpci_octet: int, q: int) -> bytes:
    return seq + sa.to_bytes(2, "big") + da.to_bytes(2, "big") + bytes((0, (0x80 if at_group else 0) | eff, (tpci_octet & 0xFC) | 0x03, 0xF1, 0, q))  # first TPDU octet: TPCI bits | APCI_SEC high bits


def data_secure_ctr0(seq: bytes, sa: int, da: int) -> bytes:
    return seq + sa.to_bytes(2, "big") + da.to_bytes(2, "big") + b"\x00\x00\x00\x00\x01\x00"


def data_secure_asdu(key: bytes, scf: int, seq_nr: int, sa: int, da: int, at_group: bool, eff: int, tpci_octet: int, apdu: bytes, encrypt: bool) -> bytes:
    """The secured ASDU (sequence number | secured APDU | 4-octet MAC) of an S-A_Data frame."""
    seq = seq_nr.to_bytes(6, "big")
    if encrypt:
        mac = cbc_mac(key, data_secure_b0(seq, sa, da, at_group, eff, tpci_octet, len(apdu)), bytes((scf,)), apdu)[:4]
        enc, mac_x = ctr_xor(key, data_secure_ctr0(seq, sa, da), mac, apdu)
        return seq + enc + mac_x
    mac = cbc_mac(key, data_secure_b0(seq, sa, da, at_group, eff, tpci_octet, 0), bytes((scf,)) + apdu, b"")[:4]
    return seq + apdu + mac


def selftest() -> None:
    from . import aes

    aes.selftest()
    # AN158 v07 "KNX Data Security" Annex A example: A_PropertyValue_Write PID_GRP_KEY_TABLE, tool key 00..0F, A+C, seq 4
    apdu = bytes.fromhex("03d705351001202122232425262728292a2b2c2d2e2f")
    want = bytes.fromhex("000000000004" "6767242a2308ca76a11774214ee4cf5d94909f743d05" "0d8fc168")
    got = data_secure_asdu(bytes(range(16)), 0x90, 4, 0xFF67, 0xFF00, False, 0, 0x00, apdu, True)
    assert got == want, f"AN158 Annex A vector: {got.hex()} != {want.hex()}"
    # frame captured from a real device (group key of 0/4/0 in the SecureTest project): GroupValueResponse (116,41,41), A+C
    got = data_secure_asdu(bytes.fromhex("dfdf23a59fbb40404091d1c162087e8b"), 0x10, 0x002446CFEF4A, 0x4009, 0x0400, True, 0, 0x00, bytes.fromhex("0040742929"), True)
    assert got == bytes.fromhex("002446cfef4a" "c085e7092a" "b062b44d"), got.hex()
    key = bytes(range(16))
    asdu = data_secure_asdu(key, 0x10, 1, 0x1101, 0x0901, True, 0, 0, b"\x00\x81", True)
    assert len(asdu) == 6 + 2 + 4
    # decrypt again
    seq = asdu[:6]
    dec, mac = ctr_xor(key, data_secure_ctr0(seq, 0x1101, 0x0901), asdu[-4:], asdu[6:-4])
    assert dec == b"\x00\x81"
    assert mac == cbc_mac(key, data_secure_b0(seq, 0x1101, 0x0901, True, 0, 0, 2), b"\x10", dec)[:4]
