"""KNX/IP body instances and frame corpora shared by C20, C21, C22, C28."""

from __future__ import annotations

import itertools
from typing import Any, Iterator

from xknx.knxip import (
    HPAI,
    ConnectionStateRequest,
    ConnectionStateResponse,
    ConnectRequest,
    ConnectRequestInformation,
    ConnectResponse,
    DescriptionRequest,
    DescriptionResponse,
    DeviceConfigurationAck,
    DeviceConfigurationRequest,
    DisconnectRequest,
    DisconnectResponse,
    ErrorCode,
    HostProtocol,
    KNXIPFrame,
    RoutingBusy,
    RoutingIndication,
    RoutingLostMessage,
    SearchRequest,
    SearchRequestExtended,
    SearchResponse,
    SearchResponseExtended,
    SecureWrapper,
    SessionAuthenticate,
    SessionRequest,
    SessionResponse,
    SessionStatus,
    TimerNotify,
    TunnellingAck,
    TunnellingFeatureGet,
    TunnellingFeatureInfo,
    TunnellingFeatureResponse,
    TunnellingFeatureSet,
    TunnellingRequest,
)
from xknx.knxip.body import KNXIPBody
from xknx.knxip.connect_response import ConnectResponseData
from xknx.knxip.dib import (
    DIBDeviceInformation,
    DIBGeneric,
    DIBSecuredServiceFamilies,
    DIBSuppSVCFamilies,
    DIBTunnelingInfo,
    TunnelingSlotStatus,
)
from xknx.knxip.knxip_enum import (
    ConnectRequestType,
    DIBServiceFamily,
    DIBTypeCode,
    KNXMedium,
    SecureSessionStatusCode,
    TunnellingFeatureType,
    TunnellingLayer,
)
from xknx.knxip.srp import SRP
from xknx.knxip.tunnelling_feature import ReturnCode
from xknx.telegram import IndividualAddress

CEMI_11 = bytes.fromhex("2900bcd011010901010080")


def concrete_body_classes() -> list[type]:
    out: list[type] = []

    def walk(c: type) -> None:
        for s in c.__subclasses__():
            if getattr(s, "SERVICE_TYPE", None) is not None and s not in out:
                out.append(s)
            walk(s)

    walk(KNXIPBody)
    return sorted(out, key=lambda c: c.__name__)


def hpais() -> list[HPAI]:
    # index 0..3 are referred to by position below; the mixed forms (wildcard address with a port, address with port 0) come last
    return [HPAI(), HPAI("192.168.1.2", 3671), HPAI("255.255.255.255", 65535), HPAI(protocol=HostProtocol.IPV4_TCP),
            HPAI("0.0.0.0", 3671), HPAI("192.168.1.2", 0), HPAI("0.0.0.0", 65535, protocol=HostProtocol.IPV4_TCP)]


def dib_device(name: str = "Gira KNX/IP-Router", prog: bool = False) -> DIBDeviceInformation:
    d = DIBDeviceInformation()
    d.knx_medium = KNXMedium.TP1
    d.programming_mode = prog
    d.individual_address = IndividualAddress("1.1.0")
    d.installation_number = 5
    d.project_number = 0x123
    d.serial_number = "00:01:02:03:04:05"
    d.multicast_address = "224.0.23.12"
    d.mac_address = "aa:bb:cc:dd:ee:ff"
    d.name = name
    return d


def dib_families(cls: type, fams: list[tuple[DIBServiceFamily, int]]) -> Any:
    d = cls()
    d.families = [cls.Family(n, v) for n, v in fams]
    return d


def dib_generic(dtc: DIBTypeCode, data: bytes) -> DIBGeneric:
    d = DIBGeneric()
    d.dtc = dtc
    d.data = data
    return d


def dibs() -> list[Any]:
    return [
        dib_device(),
        dib_device("", True),
        dib_device("Büro Süd ÄÖÜß"),            # the name field is ISO 8859-1
        dib_device("x" * 29 + "ü"),             # full 30 characters, non-ASCII at the end
        dib_device("IP Interface mit "),        # a name that ends in a blank (as real devices cut theirs)
        dib_families(DIBSuppSVCFamilies, [(DIBServiceFamily.CORE, 1), (DIBServiceFamily.TUNNELING, 2), (DIBServiceFamily.ROUTING, 1)]),
        dib_families(DIBSuppSVCFamilies, []),
        dib_families(DIBSecuredServiceFamilies, [(DIBServiceFamily.TUNNELING, 1)]),
        DIBTunnelingInfo({IndividualAddress("1.1.240"): TunnelingSlotStatus(True, False, True), IndividualAddress("1.1.241"): TunnelingSlotStatus(False, True, False)}),
        DIBTunnelingInfo(),
        dib_generic(DIBTypeCode.MFR_DATA, b"\x00\xc5\x01\x02"),
        dib_generic(DIBTypeCode.IP_CONFIG, b"\x01\x02\x03\x04\x05\x06"),
        dib_generic(0x05, b"\x0a\x0b"),   # the type code given as a number (the field is typed DIBTypeCode | int): IP_CUR_CONFIG  # type: ignore[arg-type]
    ]


def dib_lists() -> list[list[Any]]:
    ds = dibs()
    out: list[list[Any]] = [[]]
    out += [[d] for d in ds]
    out += [[a, b] for a, b in itertools.permutations(ds, 2)]
    return out


def srps() -> list[SRP]:
    return [
        SRP.with_programming_mode(),
        SRP.with_mac_address(bytes.fromhex("aabbccddeeff")),
        SRP.with_service(DIBServiceFamily.TUNNELING, 2),
        SRP.request_device_description([DIBTypeCode.DEVICE_INFO, DIBTypeCode.SUPP_SVC_FAMILIES]),
        SRP.request_device_description([DIBTypeCode.TUNNELING_INFO]),
    ]


def cris() -> list[ConnectRequestInformation]:
    out = []
    for ct in ConnectRequestType:
        out.append(ConnectRequestInformation(connection_type=ct))
    for layer in TunnellingLayer:
        out.append(ConnectRequestInformation(knx_layer=layer))
    out.append(ConnectRequestInformation(individual_address=IndividualAddress("1.1.250")))
    return out


def crds() -> list[ConnectResponseData]:
    out = [ConnectResponseData(request_type=ct) for ct in ConnectRequestType if ct is not ConnectRequestType.TUNNEL_CONNECTION]
    out.append(ConnectResponseData(individual_address=IndividualAddress("15.15.255")))
    out.append(ConnectResponseData(individual_address=IndividualAddress(0)))
    return out


def cemis() -> list[bytes]:
    return [b"", b"\x29", CEMI_11, bytes(range(255))]


def bodies(thorough: bool = False) -> Iterator[Any]:
    """Instances of every body class over the constructor alphabets of DESIGN C21."""
    H = hpais()
    for h in H:
        yield SearchRequest(discovery_endpoint=h)
        yield DescriptionRequest(control_endpoint=h)
    s = srps()
    srp_lists = [[]] + [[x] for x in s] + [[a, b] for a, b in itertools.permutations(s, 2)]
    for h in H[:2]:
        for lst in srp_lists:
            yield SearchRequestExtended(discovery_endpoint=h, srps=list(lst))
    for li, lst in enumerate(dib_lists()):
        # (quick: one endpoint per DIB list, but not the same one throughout - answers of different gateways differ in their endpoint)
        for h in H[1:3] if thorough else [H[1 + li % 2]]:
            r = SearchResponse(control_endpoint=h)
            r.dibs = list(lst)
            yield r
            r2 = SearchResponseExtended(control_endpoint=h)
            r2.dibs = list(lst)
            yield r2
        d = DescriptionResponse()
        d.dibs = list(lst)
        yield d
    for c in cris():
        for h1, h2 in [(H[0], H[0]), (H[1], H[2]), (H[3], H[3]), (H[4], H[5]), (H[6], H[4])]:
            yield ConnectRequest(control_endpoint=h1, data_endpoint=h2, cri=c)
    for crd in crds():
        for ch in (0, 1, 255):
            for h in (H[1], H[3], H[4], H[5]):
                yield ConnectResponse(communication_channel=ch, status_code=ErrorCode.E_NO_ERROR, data_endpoint=h, crd=crd)
    for st in ErrorCode:
        # (an error ConnectResponse carries no HPAI/CRD on the wire; xknx cannot represent that form from its
        #  constructor, so it is exercised on the parsing side only - C20)
        for ch in (0, 7, 255):
            yield ConnectionStateResponse(ch, st)
            yield DisconnectResponse(ch, st)
            for seq in (0, 255):
                yield TunnellingAck(ch, seq, st)
                yield DeviceConfigurationAck(ch, seq, st)
    for ch in (0, 7, 255):
        for h in H:
            yield ConnectionStateRequest(ch, h)
            yield DisconnectRequest(ch, h)
        for seq in (0, 1, 255):
            for raw in cemis():
                yield TunnellingRequest(ch, seq, raw)
                yield DeviceConfigurationRequest(ch, seq, raw)
            for ft in TunnellingFeatureType:
                yield TunnellingFeatureGet(ch, seq, ft)
                # feature value sizes of Tunnelling 03.08.04: bus connection status, active EMI type and
                # info-service-enable are 1 octet, all others 2 octets
                one = ft in (TunnellingFeatureType.BUS_CONNECTION_STATUS, TunnellingFeatureType.ACTIVE_EMI_TYPE, TunnellingFeatureType.INTERFACE_FEATURE_INFO_ENABLE)
                for data in ((b"\x01", b"\x00") if one else (b"\x01\x02", b"\x00\x00", b"\xff\xff")):
                    yield TunnellingFeatureSet(ch, seq, ft, data)
                    yield TunnellingFeatureInfo(ch, seq, ft, data)
                    for rc in ReturnCode:
                        yield TunnellingFeatureResponse(ch, seq, ft, rc, data)
                # a negative answer may come without a value (some servers omit it when an error occurred)
                for rc in ReturnCode:
                    if rc is not ReturnCode.E_SUCCESS:
                        yield TunnellingFeatureResponse(ch, seq, ft, rc, b"")
    for raw in cemis():
        yield RoutingIndication(raw)
    for ds in (0, 1, 3, 255):
        for wt in (0, 20, 100, 65535):
            for cf in (0, 1, 65535):
                yield RoutingBusy(ds, wt, cf)
        for lm in (0, 1, 65535):
            yield RoutingLostMessage(ds, lm)
    for sid in (0, 1, 65535):
        for seq in (bytes(6), b"\xff" * 6, bytes.fromhex("000000000001")):
            for enc in (bytes(range(6)), bytes(range(7)), bytes(range(40))):
                yield SecureWrapper(sid, seq, bytes.fromhex("00fa12345678"), b"\xaf\xfe", enc, bytes(range(16)))
        yield SessionResponse(sid, bytes(range(32)), bytes(range(16, 32)))
    for h in H:
        yield SessionRequest(h, bytes(range(32)))
    for uid in (0, 1, 2, 127, 255):
        yield SessionAuthenticate(uid, bytes(range(16)))
    for stc in SecureSessionStatusCode:
        yield SessionStatus(stc)
    for tv in (0, 1, 2**48 - 1):
        yield TimerNotify(tv, bytes.fromhex("00fa12345678"), b"\x12\x34", bytes(range(16)))


def valid_frames() -> list[bytes]:
    """A small corpus of well-formed frames: at least one minimal and one typical per service type."""
    per: dict[str, set[bytes]] = {}
    for b in bodies():
        try:
            raw = KNXIPFrame.init_from_body(b).to_knx()
        except Exception:  # noqa: BLE001
            continue
        if len(raw) <= 140:
            per.setdefault(type(b).__name__, set()).add(raw)
    out: list[bytes] = []
    for key in sorted(per):
        lst = sorted(per[key], key=lambda r: (len(r), r))
        for pick in {0, len(lst) // 2, len(lst) - 1}:
            if lst[pick] not in out:
                out.append(lst[pick])
    return out
