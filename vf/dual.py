"""Two event loops under one scheduler: the model of `ConnectionConfig(threaded=True)` (engine E2).

`KNXIPInterfaceThreaded` runs the connection in a second OS thread with its own asyncio loop and talks to it only through
`run_coroutine_threadsafe`, `call_soon_threadsafe`, `threading.Event` and `loop.run_in_executor`.  Here both loops are VLoops
on ONE OS thread and the explorer decides, whenever more than one of them could go on, which runs its next loop iteration:

  agent "main"  - one iteration of the application's loop
  agent "conn"  - one iteration of the connection thread's loop (after `run_forever`, until `stop` took effect)
  agent "exec"  - the default executor finishing one job (`Event.wait` jobs only once the event is set); its result is
                  posted to the main loop with call_soon_threadsafe, like concurrent.futures does

The atomic step is a loop iteration: data shared between the two threads WITHOUT one of the thread-safe hand-overs (and
touched inside one callback) is outside this model - a free-running real-thread run of the same scenario is the complement.
`threading` and `asyncio` are replaced only inside `xknx.io.knxip_interface` (shim Thread / Event, `new_event_loop` returning
the second VLoop); `Thread.join()` blocks the calling agent: the other loop is stepped until it has stopped.
"""

from __future__ import annotations

import asyncio
from asyncio import events
from typing import Any, Callable

from .vloop import HarnessError, VLoop


class JoinDeadlock(Exception):
    """Thread.join() can never return: the joined loop has nothing to run and was not stopped."""


class _Event:
    def __init__(self) -> None:
        self._flag = False

    def set(self) -> None:
        self._flag = True

    def clear(self) -> None:
        self._flag = False

    def is_set(self) -> bool:
        return self._flag

    def wait(self, timeout: float | None = None) -> bool:
        if not self._flag:
            raise HarnessError("blocking Event.wait() outside an executor job")
        return True


class _Job:
    __slots__ = ("func", "args", "fut", "loop")

    def __init__(self, loop: "DLoop", func: Any, args: tuple[Any, ...], fut: Any) -> None:
        self.loop, self.func, self.args, self.fut = loop, func, args, fut

    def enabled(self) -> bool:
        owner = getattr(self.func, "__self__", None)
        if isinstance(owner, _Event) and getattr(self.func, "__name__", "") == "wait":
            return owner.is_set()
        return True


class DLoop(VLoop):
    """A VLoop that belongs to a DualWorld: shared clock, executor jobs handed to the world, run_forever/stop as a thread's loop."""

    def __init__(self, world: "DualWorld", name: str) -> None:
        super().__init__()
        self.world = world
        self.name = name
        self.running_forever = False
        self.stopped = False
        self._vtime = world.now

    def run_in_executor(self, executor: Any, func: Any, *args: Any) -> Any:  # type: ignore[override]
        fut = self.create_future()
        self.world.jobs.append(_Job(self, func, args, fut))
        return fut

    # asyncio's debug-mode rule, always on: only the thread that runs a loop may use its non-threadsafe scheduling calls
    def _foreign(self, what: str) -> None:
        cur = self.world.current
        if cur is not None and cur != self.name:
            self.world.foreign_calls.append(f"{what} of the {self.name} loop called from the {cur} thread")

    def call_soon(self, callback: Any, *args: Any, context: Any = None) -> Any:  # type: ignore[override]
        self._foreign(f"call_soon({getattr(callback, '__qualname__', callback)!s})")
        return super().call_soon(callback, *args, context=context)

    def call_at(self, when: float, callback: Any, *args: Any, context: Any = None) -> Any:  # type: ignore[override]
        self._foreign(f"call_at/call_later({getattr(callback, '__qualname__', callback)!s})")
        return super().call_at(when, callback, *args, context=context)

    def run_forever(self) -> None:  # the "thread" parks here; the world steps the loop from now on
        self.running_forever = True

    def stop(self) -> None:
        self._stopping = True

    def step(self) -> int:
        prev = events._get_running_loop()
        prev_cur = self.world.current
        events._set_running_loop(self)
        self.world.current = self.name
        try:
            n = self.run_iteration()
        finally:
            events._set_running_loop(prev)
            self.world.current = prev_cur
        if self._stopping:
            self.stopped = True
        return n

    def can_step(self) -> bool:
        return not self.stopped and self.has_ready()


class DualWorld:
    def __init__(self) -> None:
        self.now = 0.0
        self.jobs: list[_Job] = []
        self.current: str | None = None          # which "thread" is executing library code right now (None: the harness)
        self.foreign_calls: list[str] = []
        self.threads: list[Any] = []
        self.main = DLoop(self, "main")
        self.main.running_forever = True
        self.conn: DLoop | None = None
        self.on_conn: Callable[[DLoop], None] | None = None
        self.main.activate()
        self._patched: list[tuple[Any, str, Any]] = []
        self._patch()

    # -- shims seen by xknx.io.knxip_interface -------------------------------
    def _patch(self) -> None:
        from xknx.io import knxip_interface as mod

        world = self

        class Thread:
            def __init__(self, target: Any = None, args: Any = (), kwargs: Any = None, name: str | None = None, daemon: bool | None = None) -> None:
                self.target, self.args, self.kwargs, self.name = target, tuple(args), dict(kwargs or {}), name
                self.loop: DLoop | None = None
                self.started = False

            def start(self) -> None:
                self.started = True
                world.threads.append(self)
                before = world.conn
                prev_cur = world.current
                world.current = "conn"
                try:
                    self.target(*self.args, **self.kwargs)   # creates its loop and parks in run_forever
                finally:
                    world.current = prev_cur
                self.loop = world.conn if world.conn is not before else None

            def is_alive(self) -> bool:
                return self.started and self.loop is not None and not self.loop.stopped

            def join(self, timeout: float | None = None) -> None:
                lp = self.loop
                guard = 0
                while lp is not None and not lp.stopped:
                    if lp.has_ready():
                        lp.step()
                    else:
                        t = lp.next_timer()
                        if t is None:
                            raise JoinDeadlock(f"join() of thread {self.name!r}: its loop was not stopped and has nothing to run")
                        world.advance_to(max(t, world.now))
                    guard += 1
                    if guard > 10000:
                        raise JoinDeadlock(f"join() of thread {self.name!r}: its loop never stops")

        class AsyncioProxy:
            def __getattr__(self, name: str) -> Any:
                return getattr(asyncio, name)

            @staticmethod
            def new_event_loop() -> DLoop:
                lp = DLoop(world, "conn")
                world.conn = lp
                if world.on_conn is not None:
                    world.on_conn(lp)
                return lp

            @staticmethod
            def set_event_loop(loop: Any) -> None:
                return None

        class ThreadingProxy:
            Thread = None  # type: ignore[assignment]
            Event = _Event

        ThreadingProxy.Thread = Thread  # type: ignore[assignment]
        for attr, val in (("threading", ThreadingProxy), ("asyncio", AsyncioProxy())):
            self._patched.append((mod, attr, getattr(mod, attr)))
            setattr(mod, attr, val)

    # -- scheduling ---------------------------------------------------------
    def loops(self) -> list[DLoop]:
        return [self.main] + ([self.conn] if self.conn is not None else [])

    def enabled(self) -> list[str]:
        out = []
        if self.main.can_step():
            out.append("main")
        if self.conn is not None and self.conn.running_forever and self.conn.can_step():
            out.append("conn")
        if any(j.enabled() for j in self.jobs):
            out.append("exec")
        return out

    def run_agent(self, agent: str) -> None:
        if agent == "main":
            self.main.step()
        elif agent == "conn":
            assert self.conn is not None
            self.conn.step()
        else:
            job = next(j for j in self.jobs if j.enabled())
            self.jobs.remove(job)
            prev_cur = self.current
            self.current = "exec"
            try:
                try:
                    res = job.func(*job.args)
                except JoinDeadlock:
                    raise
                except BaseException as exc:  # noqa: BLE001
                    job.loop.call_soon_threadsafe(_set_exc, job.fut, exc)
                else:
                    job.loop.call_soon_threadsafe(_set_res, job.fut, res)
            finally:
                self.current = prev_cur

    def next_timer(self) -> float | None:
        ts = [t for t in (lp.next_timer() for lp in self.loops() if not lp.stopped) if t is not None]
        return min(ts) if ts else None

    def advance_to(self, when: float) -> None:
        if when < self.now:
            raise HarnessError("virtual time cannot go back")
        self.now = when
        for lp in self.loops():
            lp.advance_to(when)

    def close(self) -> None:
        for mod, attr, val in reversed(self._patched):
            setattr(mod, attr, val)
        self._patched.clear()
        for lp in reversed(self.loops()):
            prev = events._get_running_loop()
            events._set_running_loop(lp)
            try:
                for _ in range(5):
                    live = lp.live_tasks()
                    if not live:
                        break
                    for t in live:
                        t.cancel()
                    try:
                        lp.settle(1000)
                    except HarnessError:
                        break
                for t in lp.tasks:
                    if t.done() and not t.cancelled():
                        t._log_traceback = False  # noqa: SLF001
                lp._ready.clear()  # noqa: SLF001
                lp._scheduled.clear()  # noqa: SLF001
            finally:
                events._set_running_loop(prev)
        for j in self.jobs:
            if not j.fut.done():
                j.fut.cancel()
        self.main.deactivate()

    def __enter__(self) -> "DualWorld":
        return self

    def __exit__(self, *a: Any) -> None:
        self.close()


def _set_res(fut: Any, res: Any) -> None:
    if not fut.done():
        fut.set_result(res)


def _set_exc(fut: Any, exc: BaseException) -> None:
    if not fut.done():
        fut.set_exception(exc)
