"""Application-layer PDU input spaces shared by C04, C05, C06, C18."""

from __future__ import annotations

import inspect
from typing import Any, Iterator

from xknx.telegram import apci as A

from .runner import seed_bytes

LENGTHS = list(range(2, 41)) + [48, 64, 128, 254, 255]


def concrete_classes() -> list[type]:
    out: list[type] = []

    def walk(c: type) -> None:
        for s in c.__subclasses__():
            if not inspect.isabstract(s) and s not in out:
                out.append(s)
            walk(s)

    walk(A.APCI)
    return out


def code_of(raw: bytes) -> int:
    return (raw[0] * 256 + raw[1]) & 0x03FF


def struct_space(code: int, seed: int, thorough: bool) -> Iterator[bytes]:
    """For one 10-bit APCI code: TPCI bits {00, FC} x every length x fills x count octet 0..7 (+ second-octet variants)."""
    sb = seed_bytes(seed, 256, 21)
    for tp in (0x00, 0xFC):
        o0 = tp | (code >> 8)
        o1 = code & 0xFF
        for n in LENGTHS:
            body_len = n - 2
            fills = [bytes(body_len), b"\xff" * body_len, bytes((i + 1) & 0xFF for i in range(body_len)), sb[:body_len]]
            seen: set[bytes] = set()
            for f in fills:
                cands = [f]
                if body_len >= 1:
                    # services with an embedded count / number octet: 0..7 in the first and in the second body octet
                    for c in range(8):
                        cands.append(bytes((c,)) + f[1:])
                        if body_len >= 2:
                            cands.append(f[:1] + bytes((c,)) + f[2:])
                    if thorough and body_len >= 3:
                        for c in (0, 1, 2, 0x0F, 0x10, 0xFF):
                            cands.append(f[:2] + bytes((c,)) + f[3:])
                    # flag octets (security control field, restart type, property counts): every single bit of the first three
                    # body octets set alone in the all-zero body / cleared alone in the all-ones body
                    if f in (fills[0], fills[1]):
                        for pos in range(min(3, body_len)):
                            for bit in range(8):
                                cands.append(f[:pos] + bytes((f[pos] ^ (1 << bit),)) + f[pos + 1:])
                for b in cands:
                    if b not in seen:
                        seen.add(b)
                        yield bytes((o0, o1)) + b


def short_space(first: int, thorough: bool) -> Iterator[bytes]:
    """All APDUs of length 0..2 whose first octet is `first`, and of length 3 (quick: 8 third octets; thorough: all)."""
    if first == 0:
        yield b""
    yield bytes((first,))
    thirds = range(256) if thorough else (0x00, 0x01, 0x02, 0x07, 0x10, 0x3F, 0x80, 0xFF)
    for b in range(256):
        yield bytes((first, b))
        for c in thirds:
            yield bytes((first, b, c))
