"""C07 Datapoint decoding is total with declared errors only."""

from __future__ import annotations

from typing import Any

from xknx.core.group_address_dpt import GroupAddressDPT
from xknx.dpt import DPTArray, DPTBinary
from xknx.exceptions import ConversionError, CouldNotParseTelegram
from xknx.telegram import Telegram
from xknx.telegram.address import GroupAddress, IndividualAddress
from xknx.telegram.apci import GroupValueResponse, GroupValueWrite

from ..dptspace import all_dpt_classes, payloads, pl, unpl
from ..runner import Ctx, Part, exc_sig

TITLE = "Datapoint decoding is total with declared errors only"


def check_one(cls: Any, payload: Any) -> tuple[str, list[tuple[str, str]]]:
    """Return (outcome, violations) for one class/payload."""
    try:
        cls.from_knx(payload)
    except CouldNotParseTelegram:
        return "CouldNotParseTelegram", []
    except ConversionError:
        return "ConversionError", []
    except Exception as exc:  # noqa: BLE001
        return "other", [(exc_sig(f"decode-escape:{cls.__name__}", exc), f"{cls.__name__}.from_knx({payload!r}) raised {exc!r}")]
    return "value", []


def consumer_path(cls: Any, payload: Any) -> list[tuple[str, str]]:
    """The same payload through the eager decoding step of the telegram consumer."""
    table = GroupAddressDPT()
    table._ga_dpts[GroupAddress("1/2/3").raw] = cls
    out = []
    for apci in (GroupValueWrite, GroupValueResponse):
        tg = Telegram(GroupAddress("1/2/3"), payload=apci(payload), source_address=IndividualAddress("1.1.1"))
        try:
            table.set_decoded_data(tg)
        except Exception as exc:  # noqa: BLE001
            out.append((exc_sig(f"eager-decode-escape:{cls.__name__}", exc), f"set_decoded_data {cls.__name__} {payload!r}: {exc!r}"))
            continue
        try:
            cls.from_knx(payload)
            ok = True
        except Exception:  # noqa: BLE001
            ok = False
        if ok != (tg.decoded_data is not None):
            out.append((f"eager-decode-mismatch:{cls.__name__}", f"decoded_data presence {tg.decoded_data!r} vs from_knx ok={ok} for {payload!r}"))
    return out


H_TABLE = {"1/0/1": "5.001", "1/0/2": "9.001", "1/0/3": "16.000", "1/0/4": "1.001", "1/0/5": None}
H_PAYLOADS = [DPTArray((0x80,)), DPTArray((0x0C, 0x1A)), DPTArray(tuple(b"Hello World!!!")), DPTBinary(1), DPTArray((0x7F, 0xFF)), DPTArray(()), DPTArray((1, 2, 3))]


def history_events() -> list[tuple[str, int, bool]]:
    return [(a, pi, resp) for a in H_TABLE for pi in range(len(H_PAYLOADS)) for resp in (False,)] + [(a, 0, True) for a in H_TABLE]


def run_history(hist: tuple[int, ...], through_queue: bool, reconf_at: int | None = None) -> list[tuple[str, str]]:
    """A history of group telegrams over five addresses (four typed, one untyped) through ONE GroupAddressDPT table (or the real
    consumer queue): every step behaves as the stateless decode says, whatever came before."""
    from xknx.dpt import DPTBase

    evs = history_events()
    viols: list[tuple[str, str]] = []
    desc = [(evs[i][0], repr(H_PAYLOADS[evs[i][1]]), "response" if evs[i][2] else "write") for i in hist]

    def expect(a: str, payload: Any) -> tuple[bool, Any]:
        name = H_TABLE[a]
        if name is None:
            return False, None
        cls = DPTBase.parse_transcoder(name)
        try:
            return True, cls.from_knx(payload)  # type: ignore[union-attr]
        except (ConversionError, CouldNotParseTelegram):
            return False, None

    def mk(i: int) -> Telegram:
        a, pi, resp = evs[i]
        return Telegram(GroupAddress(a), payload=(GroupValueResponse if resp else GroupValueWrite)(H_PAYLOADS[pi]), source_address=IndividualAddress("1.1.1"))

    if not through_queue:
        table = GroupAddressDPT()
        table.set({a: n for a, n in H_TABLE.items() if n})
        for step, i in enumerate(hist):
            if step == reconf_at:
                # the assignment is loaded again (clear() + set(), what an application does when its project is re-imported)
                try:
                    table.clear()
                    table.set({a: n for a, n in H_TABLE.items() if n})
                except Exception as exc:  # noqa: BLE001
                    viols.append((exc_sig("reconfiguration-raises", exc), f"history {desc[:step]}: {exc!r}"))
                    break
            tg = mk(i)
            try:
                table.set_decoded_data(tg)
            except Exception as exc:  # noqa: BLE001
                viols.append((exc_sig("eager-decode-escape-after-history" if step else "eager-decode-escape-first", exc), f"history {desc[: step + 1]}: {exc!r}"))
                break
            ok, val = expect(evs[i][0], H_PAYLOADS[evs[i][1]])
            if ok != (tg.decoded_data is not None) or (ok and tg.decoded_data.value != val):
                viols.append(("eager-decode-differs-after-history", f"history {desc[: step + 1]}: decoded_data={tg.decoded_data!r}, stateless decode gives {'a value ' + repr(val) if ok else 'nothing'}"))
                break
        return viols
    from ..sim.core import CoreWorld

    with CoreWorld(rate_limit=0) as w:
        seen: list[Any] = []
        w.xknx.group_address_dpt.set({a: n for a, n in H_TABLE.items() if n})
        w.xknx.telegram_queue.register_telegram_received_cb(lambda t: seen.append(t))
        w.start()
        for step, i in enumerate(hist):
            if step == reconf_at:
                w.xknx.group_address_dpt.clear()
                w.xknx.group_address_dpt.set({a: n for a, n in H_TABLE.items() if n})
            w.incoming(mk(i))
            w.run(0.01)
        w.run(1.0)
        if len(seen) != len(hist):
            viols.append(("consumer-stops-after-history", f"history {desc}: {len(seen)} of {len(hist)} telegrams reached the callbacks; escapes={[(n, repr(e)) for n, e in w.task_escapes()]}"))
        else:
            for tg, i in zip(seen, hist):
                ok, val = expect(evs[i][0], H_PAYLOADS[evs[i][1]])
                if ok != (tg.decoded_data is not None) or (ok and tg.decoded_data.value != val):
                    viols.append(("eager-decode-differs-after-history", f"history {desc} (queue): {tg.decoded_data!r} vs {val!r}"))
                    break
    return viols


def w_history(k: int, n: int, depth: int) -> Part:
    import itertools
    import logging

    logging.disable(logging.CRITICAL)
    part = Part()
    ne = len(history_events())
    for j, hist in enumerate(itertools.product(range(ne), repeat=depth)):
        if j % n != k:
            continue
        part.evaluations += 1
        part.nontrivial += 1
        for sig, detail in run_history(hist, False):
            part.viol(sig, detail, ["history", list(hist), False], rank=(len(hist), hist))
        # ... and with the table cleared and loaded again before the last or the last-but-one telegram
        for at in (depth - 1, depth - 2):
            part.evaluations += 1
            for sig, detail in run_history(hist, False, at):
                part.viol(sig + ":after-reconfiguration", detail + f" (clear()+set() before telegram #{at + 1})", ["history", list(hist), False, at], rank=(len(hist), hist))
    # through the real consumer: all histories of length 2, and of length 3 over the events of the first three addresses
    evs = history_events()
    sub = [i for i, e in enumerate(evs) if e[0] in ("1/0/1", "1/0/2", "1/0/5") and e[1] in (0, 1, 4, 5)]
    qh = list(itertools.product(range(ne), repeat=2)) + list(itertools.product(sub, repeat=3))
    for j, hist in enumerate(qh):
        if j % n != k:
            continue
        part.evaluations += 1
        part.nontrivial += 1
        for sig, detail in run_history(hist, True):
            part.viol(sig, detail, ["history", list(hist), True], rank=(len(hist), hist))
        if len(hist) == 2:
            part.evaluations += 1
            for sig, detail in run_history(hist, True, 1):
                part.viol(sig + ":after-reconfiguration", detail + " (clear()+set() before the last telegram)", ["history", list(hist), True, 1], rank=(len(hist), hist))
    return part


def worker(ci: int, seed: int, thorough: bool) -> Part:
    import logging

    logging.disable(logging.CRITICAL)
    part = Part()
    cls = all_dpt_classes()[ci]
    name = cls.__name__
    n = 0
    nontrivial = 0
    outcomes = part.outcomes
    from_knx = cls.from_knx
    for payload in payloads(cls, seed, thorough):
        n += 1
        try:
            from_knx(payload)
        except CouldNotParseTelegram:
            outcomes["CouldNotParseTelegram"] += 1
            continue
        except ConversionError:
            outcomes["ConversionError"] += 1
            nontrivial += 1
            continue
        except Exception as exc:  # noqa: BLE001
            outcomes["other"] += 1
            part.viol(exc_sig(f"decode-escape:{name}", exc), f"{name}.from_knx({payload!r}) raised {exc!r}", [name, pl(payload)])
            continue
        outcomes["value"] += 1
        nontrivial += 1
    # consumer path on everything but the 65 536 two-octet arrays (the call is the same from_knx)
    for payload in payloads(cls, seed, thorough, short=False):
        n += 1
        for sig, detail in consumer_path(cls, payload):
            part.viol(sig, detail, [name, pl(payload), "consumer"])
    for payload in [DPTBinary(v) for v in range(64)] + [DPTArray(())] + [DPTArray((a,)) for a in range(256)]:
        n += 1
        for sig, detail in consumer_path(cls, payload):
            part.viol(sig, detail, [name, pl(payload), "consumer"])
    part.evaluations = n
    part.nontrivial = nontrivial
    part.sample([name, pl(DPTArray((1, 2)))])
    return part


def run(ctx: Ctx) -> None:
    classes = all_dpt_classes()
    ctx.rule = (
        "complete product: every concrete class of DPTBase.dpt_class_tree() x (all 64 DPTBinary + all DPTArray of length 0..2 "
        "+ for declared length L>=3 every octet value at every position over bases {00,FF,seed} + wrong lengths 3..16,20,255); "
        "plus the stateful step in front of the consumer: ALL histories of 3 (thorough 4) group telegrams over 5 addresses (4 typed, 1 untyped) x 7 payloads (fitting, wrong length, wrong kind, "
        "undecodable value) through ONE GroupAddressDPT table - no step raises and each gives what the stateless decode gives - and all histories of 2 (and 3 over a sub-alphabet) through the real "
        "consumer queue, which must hand every telegram to the callbacks; "
        "non-trivial = payload passed validate_payload (value or ConversionError); cases distinct by construction"
    )
    ctx.bounds = {"classes": len(classes), "short_payloads_per_class": 64 + 1 + 256 + 65536, "thorough_pairs": ctx.thorough}
    ctx.assumptions = ["payloads longer than 2 octets are covered per position, not as a full product"]
    ctx.pmap(worker, [(i, ctx.seed, ctx.thorough) for i in range(len(classes))])
    ctx.pmap(w_history, [(k, 32, 4 if ctx.thorough else 3) for k in range(32)])
    ctx.total.extra["classes"] = len(classes)


def replay(case: Any) -> list[tuple[str, str]]:
    if case[0] == "history":
        return run_history(tuple(case[1]), bool(case[2]), case[3] if len(case) > 3 else None)
    name, p = case[0], case[1]
    cls = next(c for c in all_dpt_classes() if c.__name__ == name)
    payload = unpl(p)
    if len(case) > 2:
        return consumer_path(cls, payload)
    return check_one(cls, payload)[1]
