"""C07 Datapoint decoding is total with declared errors only."""

from __future__ import annotations

from typing import Any

from xknx.core.group_address_dpt import GroupAddressDPT
from xknx.dpt import DPTArray, DPTBinary
from xknx.exceptions import ConversionError, CouldNotParseTelegram
from xknx.telegram import Telegram
from xknx.telegram.address import GroupAddress, IndividualAddress
from xknx.telegram.apci import GroupValueResponse, GroupValueWrite

from ..dptspace import all_dpt_classes, payloads, pl, unpl
from ..runner import Ctx, Part, exc_sig

TITLE = "Datapoint decoding is total with declared errors only"


def check_one(cls: Any, payload: Any) -> tuple[str, list[tuple[str, str]]]:
    """Return (outcome, violations) for one class/payload."""
    try:
        cls.from_knx(payload)
    except CouldNotParseTelegram:
        return "CouldNotParseTelegram", []
    except ConversionError:
        return "ConversionError", []
    except Exception as exc:  # noqa: BLE001
        return "other", [(exc_sig(f"decode-escape:{cls.__name__}", exc), f"{cls.__name__}.from_knx({payload!r}) raised {exc!r}")]
    return "value", []


def consumer_path(cls: Any, payload: Any) -> list[tuple[str, str]]:
    """The same payload through the eager decoding step of the telegram consumer."""
    table = GroupAddressDPT()
    table._ga_dpts[GroupAddress("1/2/3").raw] = cls
    out = []
    for apci in (GroupValueWrite, GroupValueResponse):
        tg = Telegram(GroupAddress("1/2/3"), payload=apci(payload), source_address=IndividualAddress("1.1.1"))
        try:
            table.set_decoded_data(tg)
        except Exception as exc:  # noqa: BLE001
            out.append((exc_sig(f"eager-decode-escape:{cls.__name__}", exc), f"set_decoded_data {cls.__name__} {payload!r}: {exc!r}"))
            continue
        try:
            cls.from_knx(payload)
            ok = True
        except Exception:  # noqa: BLE001
            ok = False
        if ok != (tg.decoded_data is not None):
            out.append((f"eager-decode-mismatch:{cls.__name__}", f"decoded_data presence {tg.decoded_data!r} vs from_knx ok={ok} for {payload!r}"))
    return out


def worker(ci: int, seed: int, thorough: bool) -> Part:
    import logging

    logging.disable(logging.CRITICAL)
    part = Part()
    cls = all_dpt_classes()[ci]
    name = cls.__name__
    n = 0
    nontrivial = 0
    outcomes = part.outcomes
    from_knx = cls.from_knx
    for payload in payloads(cls, seed, thorough):
        n += 1
        try:
            from_knx(payload)
        except CouldNotParseTelegram:
            outcomes["CouldNotParseTelegram"] += 1
            continue
        except ConversionError:
            outcomes["ConversionError"] += 1
            nontrivial += 1
            continue
        except Exception as exc:  # noqa: BLE001
            outcomes["other"] += 1
            part.viol(exc_sig(f"decode-escape:{name}", exc), f"{name}.from_knx({payload!r}) raised {exc!r}", [name, pl(payload)])
            continue
        outcomes["value"] += 1
        nontrivial += 1
    # consumer path on everything but the 65 536 two-octet arrays (the call is the same from_knx)
    for payload in payloads(cls, seed, thorough, short=False):
        n += 1
        for sig, detail in consumer_path(cls, payload):
            part.viol(sig, detail, [name, pl(payload), "consumer"])
    for payload in [DPTBinary(v) for v in range(64)] + [DPTArray(())] + [DPTArray((a,)) for a in range(256)]:
        n += 1
        for sig, detail in consumer_path(cls, payload):
            part.viol(sig, detail, [name, pl(payload), "consumer"])
    part.evaluations = n
    part.nontrivial = nontrivial
    part.sample([name, pl(DPTArray((1, 2)))])
    return part


def run(ctx: Ctx) -> None:
    classes = all_dpt_classes()
    ctx.rule = (
        "complete product: every concrete class of DPTBase.dpt_class_tree() x (all 64 DPTBinary + all DPTArray of length 0..2 "
        "+ for declared length L>=3 every octet value at every position over bases {00,FF,seed} + wrong lengths 3..16,20,255); "
        "non-trivial = payload passed validate_payload (value or ConversionError); cases distinct by construction"
    )
    ctx.bounds = {"classes": len(classes), "short_payloads_per_class": 64 + 1 + 256 + 65536, "thorough_pairs": ctx.thorough}
    ctx.assumptions = ["payloads longer than 2 octets are covered per position, not as a full product"]
    ctx.pmap(worker, [(i, ctx.seed, ctx.thorough) for i in range(len(classes))])
    ctx.total.extra["classes"] = len(classes)


def replay(case: Any) -> list[tuple[str, str]]:
    name, p = case[0], case[1]
    cls = next(c for c in all_dpt_classes() if c.__name__ == name)
    payload = unpl(p)
    if len(case) > 2:
        return consumer_path(cls, payload)
    return check_one(cls, payload)[1]
