"""C06 Encoding an application PDU never silently changes a field."""

from __future__ import annotations

import dataclasses
import itertools
from typing import Any, Iterator

from xknx.dpt import DPTArray, DPTBinary
from xknx.exceptions import ConversionError
from xknx.telegram.address import GroupAddress, IndividualAddress
from xknx.telegram.apci import APCI

from ..apcispace import concrete_classes, struct_space
from ..runner import Ctx, Part, exc_sig

TITLE = "APCI encoding never alters a field"

INTS = sorted({-1, 0, 1, 2, 3} | {v for k in (4, 6, 8, 12, 16, 20, 24, 32) for v in (2**k - 1, 2**k, 2**k + 1)})
PAIR_INTS = [0, 1, 15, 16, 63, 64, 255, 256, 4095, 4096, 65535, 65536]


def bases(cls: type) -> list[Any]:
    """Two decoded instances of cls (shortest accepted APDU, and a longer one) - deterministic."""
    code = cls.CODE.value
    found: list[Any] = []
    for raw in struct_space(code, 0, False):
        if raw[0] & 0xFC:
            break
        try:
            obj = APCI.from_knx(raw)
        except Exception:  # noqa: BLE001
            continue
        if type(obj) is not cls:
            continue
        if not found:
            found.append(obj)
        elif len(raw) >= 9 and len(found) == 1:
            found.append(obj)
            break
    return found


def field_values(f: dataclasses.Field[Any], cur: Any) -> list[Any]:
    t = str(f.type)
    if t == "int":
        return list(INTS)
    if t == "bool":
        return [False, True]
    if t == "bytes":
        return [bytes(range(1, n + 1)) for n in range(0, 21)] + [bytes(n) for n in (1, 2, 4, 6, 8)] + [b"\xff" * 6]
    if t in ("int | None", "bytes | None"):
        return [None] + ([0, 1, 255, 256] if "int" in t else [bytes(16), bytes(range(16)), b"", bytes(15), bytes(17)])
    if t == "IndividualAddress":
        return [IndividualAddress(0), IndividualAddress(0x1101), IndividualAddress(0xFFFF)]
    if t == "GroupAddress":
        return [GroupAddress(0), GroupAddress(0x0901), GroupAddress(0xFFFF)]
    if t == "list[GroupAddress]":
        return [[], [GroupAddress(1)], [GroupAddress(1), GroupAddress(0xFFFF)], [GroupAddress(i) for i in range(1, 8)]]
    if t == "DPTBinary | DPTArray":
        extra = []
        for v in (0, 63, 64, 0x45, 255, -1):
            try:
                extra.append(DPTBinary((v,)))   # the one-tuple form validate_payload() hands back; refused at construction for values beyond 6 bits
            except Exception:  # noqa: BLE001
                pass
        return extra + [DPTBinary(0), DPTBinary(1), DPTBinary(63), DPTArray(()), DPTArray((0,)), DPTArray((255, 1)), DPTArray(tuple(range(14))), DPTArray(tuple([7] * 253)), DPTArray(tuple([7] * 254)), DPTArray((256,)), DPTArray((-1,))]
    if t == "ReturnCode":
        return list(type(cur))
    return []  # SecurityControlField / SecureData: kept at the base value


def check_obj(cls: type, obj: Any, what: str) -> tuple[str, list[tuple[str, str]]]:
    name = cls.__name__
    try:
        enc = bytes(obj.to_knx())
    except ConversionError:
        return "refused", []
    except Exception:  # noqa: BLE001  (a refusal by another exception type is still a refusal: reading fixed in DESIGN.md)
        return "refused-other-exception", []
    try:
        back = APCI.from_knx(enc)
    except Exception as exc:  # noqa: BLE001
        return "rejected", [(exc_sig(f"own-encoding-rejected:{name}", exc), f"{obj} -> {enc.hex()} -> {exc!r}")]
    if back != obj:
        changed = "type" if type(back) is not type(obj) else "+".join(
            f.name for f in dataclasses.fields(obj) if getattr(obj, f.name) != getattr(back, f.name)
        )
        return "changed", [(f"field-changed:{name}:{changed}", f"{obj!r} -> {enc.hex()} -> {back!r}")]
    return "ok", []


def variants(cls: type, thorough: bool) -> Iterator[tuple[str, Any, Any]]:
    fields = dataclasses.fields(cls) if dataclasses.is_dataclass(cls) else ()
    for bi, base in enumerate(bases(cls)):
        yield ("base", None, base)
        for f in fields:
            for v in field_values(f, getattr(base, f.name)):
                try:
                    obj = dataclasses.replace(base, **{f.name: v})
                except Exception:  # noqa: BLE001  constructor refuses
                    continue
                yield (f.name, v, obj)
        ints = [f for f in fields if str(f.type) == "int"]
        for fa, fb in itertools.combinations(ints, 2):
            for va in PAIR_INTS:
                for vb in PAIR_INTS:
                    try:
                        obj = dataclasses.replace(base, **{fa.name: va, fb.name: vb})
                    except Exception:  # noqa: BLE001
                        continue
                    yield (f"{fa.name}+{fb.name}", (va, vb), obj)
        if thorough:
            byts = [f for f in fields if str(f.type) == "bytes"]
            for fa in ints:
                for fb in byts:
                    for va in PAIR_INTS:
                        for n in (0, 1, 2, 3, 4, 6, 7, 8, 15, 16, 63, 64):
                            try:
                                obj = dataclasses.replace(base, **{fa.name: va, fb.name: bytes(range(n))})
                            except Exception:  # noqa: BLE001
                                continue
                            yield (f"{fa.name}+{fb.name}", (va, n), obj)


def worker(ci: int, thorough: bool) -> Part:
    part = Part()
    cls = concrete_classes()[ci]
    if not bases(cls):
        # a class the decoder never produces: it must then not be encodable either (stub services)
        try:
            obj = cls()
            enc = bytes(obj.to_knx())
        except Exception:  # noqa: BLE001
            part.evaluations += 1
            part.outcomes["stub-class-refuses"] += 1
            part.extra["stub_classes"] = [cls.__name__]
            return part
        part.viol(f"undecodable-class-encodes:{cls.__name__}", f"{cls.__name__}() encodes to {enc.hex()} but no APDU of the struct space decodes to this class", [cls.__name__, "base", "None", ""])
        return part
    for what, v, obj in variants(cls, thorough):
        part.evaluations += 1
        outcome, viols = check_obj(cls, obj, what)
        part.outcomes[outcome] += 1
        if outcome not in ("refused", "refused-other-exception"):
            part.nontrivial += 1
        for sig, detail in viols:
            part.viol(sig, detail, [cls.__name__, what, repr(v), repr(obj)], rank=(len(repr(v)), repr(v)))
    part.sample([cls.__name__, repr(bases(cls)[0])[:160]])
    return part


def run(ctx: Ctx) -> None:
    cl = concrete_classes()
    ctx.rule = (
        f"every concrete APCI class ({len(cl)}): two decoded base instances; each int field swept over {len(INTS)} values (0..3, 2^k-1/2^k/2^k+1 for k in 4,6,8,12,16,20,24,32, -1), "
        "bytes fields over every length 0..20, bool/enum/address/value fields over their alphabets, every pair of int fields over 12x12 values (thorough: int x bytes-length pairs); "
        "oracle: to_knx() raises (refusal) or APCI.from_knx(to_knx(x)) == x. non-trivial = encoder accepted the object"
    )
    ctx.bounds = {"classes": len(cl)}
    ctx.assumptions = ["any exception from to_knx() counts as a refusal (DESIGN.md readings)"]
    ctx.pmap(worker, [(i, ctx.thorough) for i in range(len(cl))])


def replay(case: Any) -> list[tuple[str, str]]:
    name, what = case[0], case[1]
    cls = next(c for c in concrete_classes() if c.__name__ == name)
    out: list[tuple[str, str]] = []
    for w, v, obj in variants(cls, True):
        if w == what and repr(v) == case[2]:
            out += check_obj(cls, obj, w)[1]
    return out
