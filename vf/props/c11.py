"""C11 Any value accepted for sending becomes a wire-valid telegram."""

from __future__ import annotations

from ..vloop import texc

import asyncio
import datetime
import dataclasses
import inspect
import math
from typing import Any

from xknx.cemi import CEMIFrame, CEMILData, CEMIMessageCode
import xknx.devices as D
from xknx.dpt import DPTArray, DPTBase, DPTBinary, DPTNumeric
from xknx.dpt.dpt_20 import HVACControllerMode, HVACOperationMode
from xknx.exceptions import ConversionError, DeviceIllegalValue, XKNXException
import xknx.remote_value as R
import xknx.remote_value.remote_value_climate_mode as CM
from xknx.remote_value.remote_value_setpoint_shift import SetpointShiftMode
from xknx.telegram import IndividualAddress, Telegram
from xknx.tools import group_value_response, group_value_write

from ..dptspace import all_dpt_classes
from ..runner import Ctx, Part, exc_sig
from ..sim.core import CoreWorld

TITLE = "accepted values are wire-valid"

GENERIC: list[Any] = [
    -1, 0, 1, 2, 63, 64, 100, 101, 150, 255, 256, 360, 361, 65535, 65536, -32769, 2**31 - 1, 2**31, -(2**31) - 1, 2**32, 2**64,
    0.5, -0.5, 100.4, 100.5, 255.5, 1e9, -1e9, 3.5e38, float("nan"), float("inf"), float("-inf"),
    True, False, None, "", "abc", "14 characters.", "fifteen chars..", "ä", b"\x01", b"", [], [1, 2], [256], [-1], [1.5], [0] * 14, [0] * 254, [0] * 255, [0] * 300, (1, 2), (256,), {"a": 1},
]


def prepr(payload: Any) -> str:
    """repr of a queued payload that survives non-integer content (DPTArray.__repr__ applies hex() to every element)."""
    try:
        return repr(payload)
    except Exception:  # noqa: BLE001
        inner = getattr(payload, "value", None)
        return f"{type(payload).__name__}(value={type(inner).__name__}({getattr(inner, 'value', inner)!r}))"


def vrepr(v: Any) -> str:
    if isinstance(v, list) and len(v) > 20:
        return f"[{v[0]}]*{len(v)}"
    return repr(v)


def numeric_boundary(cls: type[DPTNumeric]) -> list[Any]:
    lo, hi, res = cls.value_min, cls.value_max, cls.resolution or 1
    out = [lo, hi, lo + res, hi - res]
    for f in (0.25, 0.4, 0.5, 0.51, 0.75, 1, 1.5, 2):
        out += [hi + f * res, lo - f * res]
    return out


def wire_check(telegram: Telegram) -> str | None:
    """None if the queued telegram serialises onto the wire and parses back to the same payload, else a description."""
    try:
        telegram.source_address = IndividualAddress("1.1.1")
        data = CEMILData.init_from_telegram(telegram)
        raw = CEMIFrame(code=CEMIMessageCode.L_DATA_REQ, data=data).to_knx()
    except Exception as exc:  # noqa: BLE001
        return f"serialisation raises {type(exc).__name__}: {exc}"
    try:
        back = CEMIFrame.from_knx(raw)
        payload = back.data.telegram().payload  # type: ignore[union-attr]
    except Exception as exc:  # noqa: BLE001
        return f"own frame {raw.hex()} does not parse: {type(exc).__name__}: {exc}"
    if payload != telegram.payload:
        return f"frame {raw.hex()} parses back as {payload!r}, queued {prepr(telegram.payload)}"
    return None


def drain(xknx: Any) -> list[Telegram]:
    out = []
    while not xknx.telegrams.empty():
        t = xknx.telegrams.get_nowait()
        xknx.telegrams.task_done()
        if t is not None:
            out.append(t)
    return out


def attempt(w: Any, label: str, call: Any, value: Any, part: Part, case: Any) -> None:
    """One call with one value: classify, check the queue."""
    xknx = w.xknx
    drain(xknx)
    part.evaluations += 1
    try:
        res = call(value)
        if inspect.iscoroutine(res):
            t = w.spawn(res, name="harness-user")
            w.loop.settle()
            if not t.done():
                t.cancel()
                w.loop.settle()
                raise RuntimeError("harness: setter does not return")
            if texc(t) is not None:
                raise texc(t)  # type: ignore[misc]
        raised: BaseException | None = None
    except Exception as exc:  # noqa: BLE001
        raised = exc
    queued = drain(xknx)
    site = label.split("(")[0]
    if raised is None:
        part.nontrivial += 1
        part.outcomes["accepted"] += 1
        for t in queued:
            bad = wire_check(t)
            if bad:
                part.viol(f"accepted-but-not-wire-valid:{site}", f"{label} accepted {vrepr(value)}: queued {prepr(t.payload)}: {bad}", case, rank=(len(vrepr(value)), label))
                break
    else:
        part.outcomes["rejected:" + type(raised).__name__] += 1
        site_of_exc = exc_sig("", raised).split("@", 1)[1]
        if site_of_exc == "?" and not isinstance(raised, XKNXException):
            # raised by the harness's own argument destructuring (e.g. v[0] of an int), not by the library
            part.outcomes["not-applicable-to-this-setter"] += 1
            return
        if queued:
            part.viol(f"rejected-but-queued:{site}", f"{label} raised {raised!r} for {vrepr(value)} but queued {[prepr(t.payload) for t in queued]}", case, rank=(len(vrepr(value)), label))
        # a ConversionError, or the device-level refusal of a mode the device does not support (DeviceIllegalValue)
        if not isinstance(raised, (ConversionError, DeviceIllegalValue)):
            part.viol(f"rejected-with-{type(raised).__name__}@{site_of_exc}", f"{label} refused {vrepr(value)} with {raised!r} instead of a ConversionError", case, rank=(len(vrepr(value)), label))


# ---------------------------------------------------------------------------------------------------------------------
# call sites


def rv_factories() -> list[tuple[str, Any]]:
    out: list[tuple[str, Any]] = []
    ga = {"group_address": "1/2/3"}
    out.append(("RemoteValueSwitch", lambda x: R.RemoteValueSwitch(x, **ga)))
    out.append(("RemoteValueSwitch(invert)", lambda x: R.RemoteValueSwitch(x, invert=True, **ga)))
    out.append(("RemoteValueUpDown", lambda x: R.RemoteValueUpDown(x, **ga)))
    out.append(("RemoteValueStep", lambda x: R.RemoteValueStep(x, **ga)))
    for a, b in ((0, 100), (0, 255), (100, 0), (10, 90), (0, 360)):
        out.append((f"RemoteValueScaling({a},{b})", lambda x, a=a, b=b: R.RemoteValueScaling(x, range_from=a, range_to=b, **ga)))
    out.append(("RemoteValueDptValue1Ucount", lambda x: R.RemoteValueDptValue1Ucount(x, **ga)))
    out.append(("RemoteValueSceneNumber", lambda x: R.RemoteValueSceneNumber(x, **ga)))
    out.append(("RemoteValueSceneControl", lambda x: R.RemoteValueSceneControl(x, **ga)))
    out.append(("RemoteValueTemp", lambda x: R.RemoteValueTemp(x, **ga)))
    out.append(("RemoteValueColorRGB", lambda x: R.RemoteValueColorRGB(x, **ga)))
    out.append(("RemoteValueColorRGBW", lambda x: R.RemoteValueColorRGBW(x, **ga)))
    out.append(("RemoteValueColorXYY", lambda x: R.RemoteValueColorXYY(x, **ga)))
    out.append(("RemoteValueDate", lambda x: R.RemoteValueDate(x, **ga)))
    out.append(("RemoteValueTime", lambda x: R.RemoteValueTime(x, **ga)))
    out.append(("RemoteValueDateTime", lambda x: R.RemoteValueDateTime(x, **ga)))
    for n in (0, 1, 2, 4):
        out.append((f"RemoteValueRaw({n})", lambda x, n=n: R.RemoteValueRaw(x, payload_length=n, **ga)))
    for mode in (SetpointShiftMode.DPT6010, SetpointShiftMode.DPT9002):
        for step in (0.1, 0.5):
            out.append((f"RemoteValueSetpointShift({mode.name},{step})", lambda x, mode=mode, step=step: R.RemoteValueSetpointShift(x, setpoint_shift_mode=mode, setpoint_shift_step=step, **ga)))
    out.append(("RemoteValueString", lambda x: R.RemoteValueString(x, **ga)))
    out.append(("RemoteValueString(latin_1)", lambda x: R.RemoteValueString(x, value_type="latin_1", **ga)))
    out.append(("RemoteValueOperationMode", lambda x: CM.RemoteValueOperationMode(x, **ga)))
    out.append(("RemoteValueControllerMode", lambda x: CM.RemoteValueControllerMode(x, **ga)))
    out.append(("RemoteValueBinaryOperationMode", lambda x: CM.RemoteValueBinaryOperationMode(x, operation_mode=HVACOperationMode.COMFORT, **ga)))
    out.append(("RemoteValueBinaryHeatCool", lambda x: CM.RemoteValueBinaryHeatCool(x, controller_mode=HVACControllerMode.HEAT, **ga)))
    from xknx.dpt import DPT2ByteFloat, DPTValue1ByteUnsigned

    out.append(("RemoteValueByLength", lambda x: R.RemoteValueByLength(x, dpt_classes=(DPTValue1ByteUnsigned, DPT2ByteFloat), **ga)))
    return out


SPECIAL: list[Any] = [
    (0, 0, 0), (255, 255, 255), (256, 0, 0), (-1, 0, 0), (0, 0, 0, 0), (0, 0, 0, 256),
    datetime.time(1, 2, 3), datetime.date(2024, 1, 1), datetime.date(1989, 1, 1), datetime.date(2090, 1, 1), datetime.datetime(2024, 1, 1, 1, 1, 1), datetime.datetime(1899, 1, 1), datetime.datetime(2156, 1, 1),
    HVACOperationMode.COMFORT, HVACOperationMode.AUTO, HVACControllerMode.HEAT, HVACControllerMode.NODEM,
]


def special_values() -> list[Any]:
    from xknx.dpt.dpt_232 import RGBColor
    from xknx.dpt.dpt_242 import XYYColor
    from xknx.dpt.dpt_251 import RGBWColor

    out = list(SPECIAL)
    out += [RGBColor(0, 0, 0), RGBColor(255, 255, 255), RGBColor(256, 0, 0), RGBColor(-1, 0, 0), RGBWColor(1, 2, 3, 4), RGBWColor(1, 2, 3, 256), RGBWColor(None, None, None, 300), XYYColor((0.5, 0.5), 255),
            XYYColor((1.5, 0.5), 255), XYYColor((0.5, 0.5), 256), XYYColor(None, -1), XYYColor((-0.1, 0), None)]
    return out


def w_remote_values(k: int, n: int, seed: int) -> Part:
    import logging

    logging.disable(logging.CRITICAL)
    part = Part()
    values = GENERIC + special_values() + [seed % 300 - 20, (seed % 1000) / 7]
    with CoreWorld(rate_limit=0) as w:
        for i, (label, fac) in enumerate(rv_factories()):
            if i % n != k:
                continue
            rv = fac(w.xknx)
            for vi, v in enumerate(values):
                attempt(w, f"{label}.set", rv.set, v, part, ["rv", label, vi])
                for m in ("on", "off", "up", "down", "increase", "decrease"):
                    if vi == 0 and hasattr(rv, m):
                        attempt(w, f"{label}.{m}", lambda _v, m=m: getattr(rv, m)(), None, part, ["rvm", label, m])
            if hasattr(rv, "set_operation_mode"):
                for vi, v in enumerate(list(HVACOperationMode) + [None, 7, "comfort"]):
                    attempt(w, f"{label}.set_operation_mode", rv.set_operation_mode, v, part, ["rvop", label, vi])
                for vi, v in enumerate(list(HVACControllerMode) + [None, 99, "heat"]):
                    attempt(w, f"{label}.set_controller_mode", rv.set_controller_mode, v, part, ["rvcm", label, vi])
    part.sample(["rv", "RemoteValueScaling(0,100)", 150])
    return part


def dpt_values(cls: type[DPTBase]) -> list[Any]:
    vals = list(GENERIC)
    if issubclass(cls, DPTNumeric):
        vals += numeric_boundary(cls)
    # a few values of the decode image, in Python and in JSON form
    for raw in (bytes(cls.payload_length), b"\xff" * cls.payload_length, bytes((i * 37 + 1) % 256 for i in range(cls.payload_length))):
        try:
            v = cls.from_knx(DPTArray(raw) if cls.payload_type is DPTArray else DPTBinary(raw[0] & 1 if raw else 0))
        except Exception:  # noqa: BLE001
            continue
        vals.append(v)
        if hasattr(v, "as_dict"):
            vals.append(v.as_dict())
        if dataclasses.is_dataclass(v) and raw == bytes((i * 37 + 1) % 256 for i in range(cls.payload_length)) or (dataclasses.is_dataclass(v) and not any(dataclasses.is_dataclass(x) for x in vals[:-2])):
            # structured values: every field replaced in turn by a wrong-typed / out-of-range value, as object and as dict
            for f in dataclasses.fields(v):
                cur = getattr(v, f.name)
                subs: list[Any] = [1.5, 0.5, 2, -1, 255, 256, 1000, None, "1", True, 2**40, float("nan")]
                if isinstance(cur, tuple):
                    subs += [(1.5, 0.5), (0.5,), (0.5, 0.5, 0.5), ("a", "b"), (None, 0.5)]
                for sub in subs:
                    try:
                        vals.append(dataclasses.replace(v, **{f.name: sub}))
                    except Exception:  # noqa: BLE001  refused by the value class itself
                        pass
                    if hasattr(v, "as_dict"):
                        d = dict(v.as_dict())
                        if f.name in d:
                            d[f.name] = list(sub) if isinstance(sub, tuple) else sub
                            vals.append(d)
                        elif isinstance(cur, tuple) and isinstance(sub, tuple) is False:
                            # tuple-valued fields are spread over several dict keys (x_axis / y_axis): substitute each key
                            for key in [k_ for k_ in d if k_ not in {g.name for g in dataclasses.fields(v)}]:
                                d2 = dict(d)
                                d2[key] = sub
                                vals.append(d2)
        if hasattr(v, "name") and hasattr(v, "value") and not isinstance(v, (int, float, str, bool)):
            vals.append(v.name.lower())
    return vals


def type_name(cls: type[DPTBase]) -> str:
    vt = getattr(cls, "value_type", None)
    if vt:
        return str(vt)
    return f"{cls.dpt_main_number}.{cls.dpt_sub_number:03d}" if cls.dpt_sub_number is not None else str(cls.dpt_main_number)


def w_tools(k: int, n: int, seed: int) -> Part:
    """group_value_write / group_value_response / MCP send tool for every DPT (class, value_type name, dpt number) and without one."""
    import logging

    from xknx.mcp import tools as MT
    from xknx.mcp import types as MY

    logging.disable(logging.CRITICAL)
    part = Part()
    classes = all_dpt_classes()
    with CoreWorld(rate_limit=0) as w:
        x = w.xknx
        if k == 0:
            for vi, v in enumerate(GENERIC + special_values()):
                attempt(w, "group_value_write(no type)", lambda v_: group_value_write(x, "1/2/3", v_), v, part, ["gvw-raw", vi])
                attempt(w, "group_value_response(no type)", lambda v_: group_value_response(x, "1/2/3", v_), v, part, ["gvr-raw", vi])
                attempt(w, "mcp.send_group_value_write(no type)", lambda v_: MT.send_group_value_write(x, MY.GroupValueWriteInput(group_address="1/2/3", value=v_, value_type=None)), v, part, ["mcp-raw", vi])
        for ci, cls in enumerate(classes):
            if ci % n != k:
                continue
            vt = type_name(cls)
            for vi, v in enumerate(dpt_values(cls)):
                attempt(w, f"group_value_write({cls.__name__})", lambda v_: group_value_write(x, "1/2/3", v_, value_type=cls), v, part, ["gvw", cls.__name__, vi])
                attempt(w, f"group_value_response({cls.__name__})", lambda v_: group_value_response(x, "1/2/3", v_, value_type=vt), v, part, ["gvr", cls.__name__, vi])
                if isinstance(v, (int, float, str, bool, list, dict, type(None))):
                    attempt(w, f"mcp.send_group_value_write({cls.__name__})", lambda v_: MT.send_group_value_write(x, MY.GroupValueWriteInput(group_address="1/2/3", value=v_, value_type=vt)), v, part, ["mcp", cls.__name__, vi])
    return part


def w_devices(k: int, n: int, seed: int) -> Part:
    """The device setters of the loop-back scenarios (C39) with values across and beyond each setter's range."""
    import logging

    from . import c39

    logging.disable(logging.CRITICAL)
    part = Part()
    scns = c39.scenarios()
    values = GENERIC + special_values()
    for si, scn in enumerate(scns):
        if si % n != k:
            continue
        if scn.label.startswith(("numeric_value(", "expose_sensor(")) and si % 4:
            continue  # the same to_knx as the group_value_write sweep; a quarter of them is kept
        with CoreWorld(rate_limit=0) as w:
            dev = scn.build(w.xknx)
            w.xknx.devices.async_add(dev)
            for ga, payload in scn.prepare:
                from xknx.telegram import GroupAddress
                from xknx.telegram.apci import GroupValueWrite

                dev.process(Telegram(GroupAddress(ga), payload=GroupValueWrite(payload)))
            for vi, v in enumerate(values):
                attempt(w, f"device:{scn.label}", lambda v_: scn.cmd(dev, v_), v, part, ["dev", scn.label, vi])
    return part


def run(ctx: Ctx) -> None:
    nrv = len(rv_factories())
    ctx.rule = (
        f"every call site that accepts a value for sending: {nrv} remote value configurations (every RemoteValue subclass; set / on / off / up / down / increase / decrease / set_*_mode), group_value_write and "
        f"group_value_response and the MCP send tool for EVERY DPT class (as class, value-type name or number) and without a type, and the device setters of the ~200 loop-back scenarios of C39; x a value alphabet "
        f"of {len(GENERIC)} generic values across and beyond every range (negative, >255 per octet, 2^31, 2^32, floats, nan/inf, None, strings, bytes, lists incl. 254/255/300 octets, dicts), colour/date/enum values "
        "in and out of range, and per numeric DPT min/max +- {0.25, 0.4, 0.5, 0.51, 0.75, 1, 1.5, 2} steps plus decode-image values in Python and JSON form. Oracle: the call returns => every queued telegram "
        "serialises through CEMILData/CEMIFrame and parses back to the same payload; the call raises => nothing was queued, and the exception is a ConversionError (reported as its own clause)."
    )
    ctx.bounds = {"remote_values": nrv, "dpt_classes": len(all_dpt_classes()), "generic_values": len(GENERIC)}
    ctx.pmap(w_remote_values, [(k, 16, ctx.seed) for k in range(16)])
    ctx.pmap(w_tools, [(k, 32, ctx.seed) for k in range(32)])
    ctx.pmap(w_devices, [(k, 32, ctx.seed) for k in range(32)])


def replay(case: Any) -> list[tuple[str, str]]:
    """Re-run the call site of the case with its value and return what the oracle says."""
    kind = case[0]
    part = Part()
    with CoreWorld(rate_limit=0) as w:
        x = w.xknx
        values = GENERIC + special_values() + [0 % 300 - 20, 0.0]
        if kind in ("rv", "rvm", "rvop", "rvcm"):
            rv = dict(rv_factories())[case[1]](x)
            if kind == "rv":
                attempt(w, f"{case[1]}.set", rv.set, values[case[2]], part, case)
            elif kind == "rvm":
                attempt(w, f"{case[1]}.{case[2]}", lambda _v: getattr(rv, case[2])(), None, part, case)
            elif kind == "rvop":
                attempt(w, f"{case[1]}.set_operation_mode", rv.set_operation_mode, (list(HVACOperationMode) + [None, 7, "comfort"])[case[2]], part, case)
            else:
                attempt(w, f"{case[1]}.set_controller_mode", rv.set_controller_mode, (list(HVACControllerMode) + [None, 99, "heat"])[case[2]], part, case)
        elif kind == "dev":
            from . import c39

            scn = next(s_ for s_ in c39.scenarios() if s_.label == case[1])
            dev = scn.build(x)
            x.devices.async_add(dev)
            attempt(w, f"device:{scn.label}", lambda v_: scn.cmd(dev, v_), values[case[2]], part, case)
        elif kind.endswith("-raw"):
            v = (GENERIC + special_values())[case[1]]
            if kind == "gvw-raw":
                attempt(w, "group_value_write(no type)", lambda v_: group_value_write(x, "1/2/3", v_), v, part, case)
            elif kind == "gvr-raw":
                attempt(w, "group_value_response(no type)", lambda v_: group_value_response(x, "1/2/3", v_), v, part, case)
            else:
                from xknx.mcp import tools as MT, types as MY

                attempt(w, "mcp.send_group_value_write(no type)", lambda v_: MT.send_group_value_write(x, MY.GroupValueWriteInput(group_address="1/2/3", value=v_, value_type=None)), v, part, case)
        else:
            cls = next(c for c in all_dpt_classes() if c.__name__ == case[1])
            v = dpt_values(cls)[case[2]]
            if kind == "gvw":
                attempt(w, f"group_value_write({cls.__name__})", lambda v_: group_value_write(x, "1/2/3", v_, value_type=cls), v, part, case)
            else:
                vt = type_name(cls)
                if kind == "gvr":
                    attempt(w, f"group_value_response({cls.__name__})", lambda v_: group_value_response(x, "1/2/3", v_, value_type=vt), v, part, case)
                else:
                    from xknx.mcp import tools as MT, types as MY

                    attempt(w, f"mcp.send_group_value_write({cls.__name__})", lambda v_: MT.send_group_value_write(x, MY.GroupValueWriteInput(group_address="1/2/3", value=v_, value_type=vt)), v, part, case)
    return [(sig, v[1]) for sig, v in part.viols.items()]
