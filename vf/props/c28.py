"""C28 IP Secure wrapping is correct, tamper-evident and standard-conformant."""

from __future__ import annotations

import itertools
from typing import Any

from cryptography.hazmat.primitives.asymmetric.x25519 import X25519PrivateKey

from xknx.exceptions import CouldNotParseKNXIP, IPSecureError
from xknx.io import ip_secure as ip_secure_mod
from xknx.io.const import XKNX_SERIAL_NUMBER
from xknx.io.ip_secure import MESSAGE_TAG_TUNNELLING, SecureSequenceTimer, SecureSession
from xknx.knxip import KNXIPFrame, SessionResponse, TimerNotify, TunnellingRequest

from ..knxipspace import valid_frames
from ..ref import ipsec
from ..runner import Ctx, Part, exc_sig, seed_bytes
from ..sim.secure_gateway import PatchCrypto, pub_of
from ..vloop import World

TITLE = "IP Secure wrapping and handshake"


def keys(seed: int) -> list[bytes]:
    return [bytes(range(16)), b"\xff" * 16, seed_bytes(seed, 16, 71)]


def make_session(key: bytes, sid: int, seq: int) -> SecureSession:
    s = SecureSession(remote_addr=("192.168.1.1", 3671), user_id=2, user_password="secret")
    s._key = key  # noqa: SLF001
    s.session_id = sid
    s._sequence_number = seq  # noqa: SLF001
    s.initialized = True
    return s


def plain_frames() -> list[bytes]:
    out = [f for f in valid_frames() if f[2:4] != b"\x09\x50"]   # a wrapper inside a wrapper is not a legal plain frame
    for n in (0, 1, 15, 16, 17, 255):
        out.append(KNXIPFrame.init_from_body(TunnellingRequest(7, 3, bytes((i * 3 + 1) & 0xFF for i in range(n)))).to_knx())
    return out


def w_wrap(ki: int, seed: int, thorough: bool) -> Part:
    part = Part()
    key = keys(seed)[ki]
    frames = plain_frames()
    with PatchCrypto(), World():
        for sid, seq, (fi, plain) in itertools.product((1, 0xFFFF), (0, 1, 2**48 - 1), enumerate(frames)):
            part.evaluations += 1
            part.nontrivial += 1
            case = {"kind": "wrap", "ki": ki, "sid": sid, "seq": seq, "frame": plain, "seed": seed}
            s = make_session(key, sid, seq)
            frame, _ = KNXIPFrame.from_knx(plain)
            try:
                wrapped = s.encrypt_frame(frame).to_knx()
            except Exception as exc:  # noqa: BLE001
                part.viol(exc_sig("wrap-raises", exc), f"sid={sid} seq={seq} frame={plain.hex()}: {exc!r}", case, rank=(len(plain),))
                continue
            ref = ipsec.wrap(key, sid, seq.to_bytes(6, "big"), XKNX_SERIAL_NUMBER, MESSAGE_TAG_TUNNELLING, plain)
            if wrapped != ref:
                where = "mac" if wrapped[:-16] == ref[:-16] else "ciphertext" if wrapped[:22] == ref[:22] else "header-fields"
                part.viol(f"wrapper-differs-from-reference:{where}", f"sid={sid} seq={seq} frame={plain.hex()}: xknx {wrapped.hex()} reference {ref.hex()}", case, rank=(len(plain),))
            try:
                back = s.decrypt_frame(KNXIPFrame.from_knx(ref)[0])
                if back.to_knx() != plain:
                    part.viol("unwrap-changes-frame", f"{plain.hex()} -> {back.to_knx().hex()}", case, rank=(len(plain),))
            except Exception as exc:  # noqa: BLE001
                part.viol(exc_sig("reference-wrapper-rejected", exc), f"sid={sid} seq={seq} frame={plain.hex()}: {exc!r}", case, rank=(len(plain),))
            # tampering: wrong key / wrong session id always; every single-bit flip for a subset of frames
            for what, other in (("wrong-key", make_session(bytes(key[:-1]) + bytes((key[-1] ^ 1,)), sid, 0)), ("wrong-session-id", make_session(key, sid ^ 1, 0))):
                part.evaluations += 1
                try:
                    other.decrypt_frame(KNXIPFrame.from_knx(ref)[0])
                except (ip_secure_mod.KNXSecureValidationError, CouldNotParseKNXIP):
                    continue
                except Exception as exc:  # noqa: BLE001
                    part.viol(exc_sig(f"tamper-raises-undeclared:{what}", exc), f"{exc!r}", case)
                    continue
                part.viol(f"tampered-wrapper-accepted:{what}", f"sid={sid} seq={seq} frame={plain.hex()}", case, rank=(len(plain),))
            # the wrapper's own header is part of what the MAC covers: a parsed wrapper whose header object was altered afterwards
            # (total length, service type) must not verify (every byte-level change of the header is already refused by the parser)
            for what in ("total-length+1", "total-length-1", "total-length=0", "service-type=routing-indication", "service-type=tunnelling-request"):
                part.evaluations += 1
                f3 = KNXIPFrame.from_knx(ref)[0]
                if what.startswith("total-length"):
                    f3.header.total_length = {"+1": f3.header.total_length + 1, "-1": f3.header.total_length - 1, "=0": 0}[what[12:]]
                else:
                    from xknx.knxip.knxip_enum import KNXIPServiceType

                    f3.header.service_type_ident = KNXIPServiceType.ROUTING_INDICATION if "routing" in what else KNXIPServiceType.TUNNELLING_REQUEST
                try:
                    s.decrypt_frame(f3)
                except (ip_secure_mod.KNXSecureValidationError, CouldNotParseKNXIP, AssertionError):
                    continue
                except Exception as exc:  # noqa: BLE001
                    part.viol(exc_sig("tamper-raises-undeclared:header-object", exc), f"{what}: {exc!r}", case)
                    continue
                part.viol("tampered-wrapper-accepted:header-object", f"{what}: wrapper with altered header still unwraps; sid={sid} seq={seq}", case, rank=(len(plain),))
            if seq == 1 and sid == 1 and (fi % (3 if thorough else 9) == 0 or fi >= len(frames) - 6):
                for pos in range(len(ref)):
                    for bit in range(8):
                        raw = ref[:pos] + bytes((ref[pos] ^ (1 << bit),)) + ref[pos + 1:]
                        part.evaluations += 1
                        field = "header" if pos < 6 else "session-id" if pos < 8 else "sequence" if pos < 14 else "serial" if pos < 20 else "tag" if pos < 22 else "mac" if pos >= len(ref) - 16 else "ciphertext"
                        try:
                            f2, rest = KNXIPFrame.from_knx(raw)
                            if rest:
                                continue   # a shorter announced length: the stream parser would treat the rest as the next frame
                            got = s.decrypt_frame(f2)
                        except (ip_secure_mod.KNXSecureValidationError, CouldNotParseKNXIP, AssertionError):
                            part.outcomes["flip-rejected"] += 1
                            continue
                        except Exception as exc:  # noqa: BLE001
                            part.viol(exc_sig(f"tamper-raises-undeclared:{field}", exc), f"bit {bit} of octet {pos}: {exc!r}", {**case, "pos": pos, "bit": bit})
                            continue
                        part.viol(f"tampered-wrapper-accepted:{field}", f"bit {bit} of octet {pos} ({field}) flipped, still unwraps to {got.to_knx().hex()}", {**case, "pos": pos, "bit": bit}, rank=(len(plain), pos))
        # ONE session object used for two sessions in a row (a reconnect: the handshake assigns a new session id and the counter
        # restarts): what it wraps and accepts in the second session is judged against the reference for the second id
        for plain in (frames[0], min(frames, key=len)):
            s2 = make_session(key, 1, 0)
            frame, _ = KNXIPFrame.from_knx(plain)
            try:
                first = s2.encrypt_frame(frame).to_knx()
                s2.decrypt_frame(KNXIPFrame.from_knx(ipsec.wrap(key, 1, (9).to_bytes(6, "big"), XKNX_SERIAL_NUMBER, MESSAGE_TAG_TUNNELLING, plain))[0])
            except Exception:  # noqa: BLE001  (the first session on its own is judged above)
                continue
            for sid2 in (2, 0xFFFF):
                s2.session_id = sid2
                s2._sequence_number = 0  # noqa: SLF001
                part.evaluations += 1
                case2 = {"kind": "wrap", "ki": ki, "sid": sid2, "seq": 0, "frame": plain, "seed": seed, "reuse": True}
                try:
                    again = s2.encrypt_frame(frame).to_knx()
                    ref2 = ipsec.wrap(key, sid2, (0).to_bytes(6, "big"), XKNX_SERIAL_NUMBER, MESSAGE_TAG_TUNNELLING, plain)
                    if again != ref2:
                        part.viol("wrapper-differs-from-reference:second-session-on-the-same-object", f"session id {sid2} after a session with id 1: xknx {again.hex()}, reference {ref2.hex()} (first session: {first.hex()})", case2)
                    back = s2.decrypt_frame(KNXIPFrame.from_knx(ipsec.wrap(key, sid2, (3).to_bytes(6, "big"), XKNX_SERIAL_NUMBER, MESSAGE_TAG_TUNNELLING, plain))[0])
                    if back.to_knx() != plain:
                        part.viol("unwrap-changes-frame:second-session-on-the-same-object", f"{plain.hex()} -> {back.to_knx().hex()}", case2)
                except Exception as exc:  # noqa: BLE001
                    part.viol(exc_sig("reference-wrapper-rejected:second-session-on-the-same-object", exc), f"session id {sid2} after a session with id 1: {exc!r}", case2)
        # pairs of bit flips of one short wrapper (thorough: every pair; quick: pairs within header, session id, tag, first ciphertext octet, MAC ends)
        plain = min(frames, key=len)
        s = make_session(key, 1, 0)
        ref = ipsec.wrap(key, 1, (1).to_bytes(6, "big"), XKNX_SERIAL_NUMBER, MESSAGE_TAG_TUNNELLING, plain)
        if thorough:
            cand = list(range(len(ref) * 8))
        else:
            octs = [0, 2, 3, 5, 6, 7, 13, 14, 19, 20, 21, 22, len(ref) - 17, len(ref) - 16, len(ref) - 1]
            cand = [o * 8 + b for o in octs for b in range(8)]
        for ia, a in enumerate(cand):
            for b in cand[ia + 1:]:
                raw_l = bytearray(ref)
                raw_l[a // 8] ^= 1 << (a % 8)
                raw_l[b // 8] ^= 1 << (b % 8)
                part.evaluations += 1
                try:
                    f2, rest = KNXIPFrame.from_knx(bytes(raw_l))
                    if rest or not isinstance(f2.body, ip_secure_mod.SecureWrapper):
                        continue   # another announced length or another service: not this wrapper any more
                    got = s.decrypt_frame(f2)
                except (ip_secure_mod.KNXSecureValidationError, CouldNotParseKNXIP, AssertionError):
                    part.outcomes["pair-rejected"] += 1
                    continue
                except Exception as exc:  # noqa: BLE001
                    part.viol(exc_sig("tamper-raises-undeclared:two-bits", exc), f"bits {a} and {b}: {exc!r}", {"kind": "wrap", "ki": ki, "sid": 1, "seq": 1, "frame": plain, "seed": seed, "a": a, "b": b})
                    continue
                part.viol("tampered-wrapper-accepted:two-bits", f"bits {a // 8}.{a % 8} and {b // 8}.{b % 8} flipped, still unwraps to {got.to_knx().hex()}", {"kind": "wrap", "ki": ki, "sid": 1, "seq": 1, "frame": plain, "seed": seed, "a": a, "b": b}, rank=(a, b))
    part.sample({"key": key, "frames": len(frames), "session_ids": [1, 65535], "sequence": [0, 1, 2**48 - 1]})
    return part


def w_group(ki: int, seed: int) -> Part:
    """The second user of the wrapping code: SecureGroup (secure routing; session id 0, timer as sequence information, a RANDOM
    message tag per frame - the harness-owned source returns a different value on every call)."""
    import types

    from xknx.io.ip_secure import SecureGroup
    from xknx.knxip import SecureWrapper

    part = Part()
    key = keys(seed)[ki]
    saved = ip_secure_mod.random
    n = {"i": 0}

    def randbytes(k: int) -> bytes:
        n["i"] += 1
        return ((0x5A00 + 37 * n["i"]) & 0xFFFF).to_bytes(2, "big")[:k]

    ip_secure_mod.random = types.SimpleNamespace(uniform=lambda a, b: a, randbytes=randbytes)
    try:
        with World() as w:
            w.loop._vtime = 5000.0  # noqa: SLF001
            g = SecureGroup(("192.168.1.2", 0), ("224.0.23.12", 3671), key)
            try:
                for plain in plain_frames():
                    part.evaluations += 1
                    part.nontrivial += 1
                    case = {"kind": "group", "ki": ki, "frame": plain, "seed": seed}
                    frame, _ = KNXIPFrame.from_knx(plain)
                    try:
                        wf = g.encrypt_frame(frame)
                        wrapped = wf.to_knx()
                    except Exception as exc:  # noqa: BLE001
                        part.viol(exc_sig("group-wrap-raises", exc), f"frame={plain.hex()}: {exc!r}", case, rank=(len(plain),))
                        continue
                    body = wf.body
                    assert isinstance(body, SecureWrapper)
                    ref = ipsec.wrap(key, 0, body.sequence_information, body.serial_number, body.message_tag, plain)
                    if wrapped != ref:
                        where = "mac" if wrapped[:-16] == ref[:-16] else "ciphertext" if wrapped[:22] == ref[:22] else "header-fields"
                        part.viol(f"group-wrapper-differs-from-reference:{where}", f"frame={plain.hex()}: xknx {wrapped.hex()}, reference for the fields it carries {ref.hex()}", case, rank=(len(plain),))
                    elif ipsec.unwrap(key, 0, wrapped) != plain:
                        part.viol("group-wrapper-does-not-unwrap", f"frame={plain.hex()}", case, rank=(len(plain),))
                    # a conformant peer's wrapper (its own serial and tag) is unwrapped to the plain frame
                    peer = ipsec.wrap(key, 0, body.sequence_information, bytes.fromhex("00fa12345678"), b"\x12\x34", plain)
                    try:
                        back = g.decrypt_frame(KNXIPFrame.from_knx(peer)[0])
                        if back.to_knx() != plain:
                            part.viol("group-unwrap-changes-frame", f"{plain.hex()} -> {back.to_knx().hex()}", case, rank=(len(plain),))
                    except Exception as exc:  # noqa: BLE001
                        part.viol(exc_sig("group-reference-wrapper-rejected", exc), f"frame={plain.hex()}: {exc!r}", case, rank=(len(plain),))
                    # tamper evidence on the multicast path too: EVERY single-bit flip of the peer's wrapper (session id field included)
                    if len(plain) <= 24 or plain is plain_frames()[-1]:
                        for pos in range(len(peer)):
                            for bit in range(8):
                                raw = peer[:pos] + bytes((peer[pos] ^ (1 << bit),)) + peer[pos + 1:]
                                part.evaluations += 1
                                field = "header" if pos < 6 else "session-id" if pos < 8 else "sequence" if pos < 14 else "serial" if pos < 20 else "tag" if pos < 22 else "mac" if pos >= len(peer) - 16 else "ciphertext"
                                try:
                                    f2, rest = KNXIPFrame.from_knx(raw)
                                    if rest:
                                        continue
                                    got = g.decrypt_frame(f2)
                                except (ip_secure_mod.KNXSecureValidationError, CouldNotParseKNXIP, AssertionError):
                                    continue
                                except Exception as exc:  # noqa: BLE001
                                    part.viol(exc_sig(f"group-tamper-raises-undeclared:{field}", exc), f"bit {bit} of octet {pos}: {exc!r}", {**case, "pos": pos, "bit": bit})
                                    continue
                                part.viol(f"group-tampered-wrapper-accepted:{field}", f"SecureGroup: bit {bit} of octet {pos} ({field}) flipped, still unwraps to {got.to_knx().hex()}", {**case, "pos": pos, "bit": bit}, rank=(len(plain), pos))
            finally:
                g.secure_timer.stop()
    finally:
        ip_secure_mod.random = saved
    return part


def w_handshake(seed: int) -> Part:
    part = Part()
    privs = [bytes(range(1, 33)), bytes(range(100, 132)), seed_bytes(seed, 32, 72)]
    saved = ip_secure_mod.generate_ecdh_key_pair
    with PatchCrypto(), World():
        try:
            for cpriv, spriv, upw, uid, dpw, sid in itertools.product(privs, privs[:2], ("a", "secret", "ü"), (1, 2, 127), (None, "trustme"), (1, 0xFFFE)):
                part.evaluations += 1
                part.nontrivial += 1
                case = {"kind": "handshake", "cpriv": cpriv, "spriv": spriv, "upw": upw, "uid": uid, "dpw": dpw, "sid": sid}
                cpub, spub = pub_of(cpriv), pub_of(spriv)
                s = SecureSession(remote_addr=("192.168.1.1", 3671), user_id=uid, user_password=upw, device_authentication_password=dpw)
                s._private_key = X25519PrivateKey.from_private_bytes(cpriv)  # noqa: SLF001
                s.public_key = cpub
                dkey = ipsec.device_authentication_key(dpw) if dpw else bytes(16)
                good = ipsec.session_response_mac(dkey, sid, cpub, spub)
                try:
                    auth_mac = s.handshake(SessionResponse(secure_session_id=sid, ecdh_server_public_key=spub, message_authentication_code=good))
                except Exception as exc:  # noqa: BLE001
                    part.viol(exc_sig("handshake-rejects-reference-response", exc), f"{case}: {exc!r}", case)
                    continue
                want = ipsec.session_authenticate_mac(ipsec.user_password_key(upw), uid, cpub, spub)
                if auth_mac != want:
                    part.viol("authenticate-mac-differs-from-reference", f"{case}: xknx {auth_mac.hex()} reference {want.hex()}", case)
                shared = X25519PrivateKey.from_private_bytes(spriv).exchange(X25519PrivateKey.from_private_bytes(cpriv).public_key())
                if s._key != ipsec.session_key(shared) or s.session_id != sid:  # noqa: SLF001
                    part.viol("session-key-differs-from-reference", f"{case}", case)
                if dpw:
                    for bit in range(0, 128, 7):
                        bad = bytearray(good)
                        bad[bit // 8] ^= 1 << (bit % 8)
                        part.evaluations += 1
                        try:
                            s.handshake(SessionResponse(secure_session_id=sid, ecdh_server_public_key=spub, message_authentication_code=bytes(bad)))
                        except IPSecureError:
                            continue
                        except Exception as exc:  # noqa: BLE001
                            part.viol(exc_sig("forged-session-response-raises-undeclared", exc), f"{exc!r}", case)
                            continue
                        part.viol("forged-session-response-accepted", f"{case}: MAC bit {bit} flipped", case)
        finally:
            ip_secure_mod.generate_ecdh_key_pair = saved
    return part


def w_timer(seed: int) -> Part:
    part = Part()
    with World():
        for key, timer, tag in itertools.product(keys(seed), (0, 1, 123456789, 2**48 - 1), (b"\x00\x00", b"\xaf\xfe")):
            part.evaluations += 1
            part.nontrivial += 1
            sent: list[Any] = []
            t = SecureSequenceTimer(backbone_key=key, latency_ms=1000, transport_send=lambda frame, addr: sent.append(frame))
            t.update(timer)
            t.send_timer_notify(message_tag=tag)
            case = {"kind": "timer", "key": key, "timer": timer, "tag": tag}
            body = sent[0].body
            assert isinstance(body, TimerNotify)
            want = ipsec.timer_notify_mac(key, body.timer_value, XKNX_SERIAL_NUMBER, tag)
            if body.message_authentication_code != want or abs(body.timer_value - timer) > 5:
                part.viol("timer-notify-mac-differs-from-reference", f"{case}: {body.message_authentication_code.hex()} vs {want.hex()}", case)
            ref_frame = KNXIPFrame.from_knx(ipsec.timer_notify_frame(key, timer, bytes.fromhex("00fa12345678"), tag))[0].body
            try:
                t.verify_timer_notify_mac(ref_frame)
            except Exception as exc:  # noqa: BLE001
                part.viol(exc_sig("reference-timer-notify-rejected", exc), f"{case}: {exc!r}", case)
            forged = KNXIPFrame.from_knx(ipsec.timer_notify_frame(key, timer, bytes.fromhex("00fa12345678"), tag, forge=True))[0].body
            try:
                t.verify_timer_notify_mac(forged)
                part.viol("forged-timer-notify-accepted", f"{case}", case)
            except ip_secure_mod.KNXSecureValidationError:
                pass
    return part


def selftest() -> None:
    ipsec.selftest()


def run(ctx: Ctx) -> None:
    ipsec.selftest()
    ctx.rule = (
        "SecureSession.encrypt_frame == independent reference (validated against the worked example of 03.08.09) byte for byte and decrypt_frame(reference wrapper) == plain frame for: minimal/"
        "typical frames of every body class + TunnellingRequests with cEMI lengths {0,1,15,16,17,255} x 3 keys x session id {1,65535} x sequence {0,1,2^48-1}; wrong key / wrong session id and "
        "EVERY single-bit flip of a subset of wrappers rejected, the same frames through SecureGroup.encrypt_frame (secure routing: session id 0, timer value, a random message tag that differs on every draw) "
        "must equal the reference wrapper for the fields they carry and a peer's reference wrapper must unwrap, as are parsed wrappers whose header object was altered; handshake: 3x2 key pairs x passwords {a,secret,u-umlaut} x user ids {1,2,127} x with/without device authentication x 2 session ids: "
        "authenticate MAC and session key equal the reference, forged SessionResponse MACs rejected; TimerNotify MACs equal the reference"
    )
    ctx.pmap(w_wrap, [(k, ctx.seed, ctx.thorough) for k in range(3)])
    ctx.pmap(w_group, [(k, ctx.seed) for k in range(3)])
    ctx.pmap(w_handshake, [(ctx.seed,)])
    ctx.pmap(w_timer, [(ctx.seed,)])


def replay(case: Any) -> list[tuple[str, str]]:
    if case.get("kind") == "wrap":
        p = w_wrap(case["ki"], case.get("seed", 0), True)
    elif case.get("kind") == "group":
        p = w_group(case["ki"], case.get("seed", 0))
    elif case.get("kind") == "handshake":
        p = w_handshake(0)
    else:
        p = w_timer(0)
    return [(s, v[1]) for s, v in p.viols.items()]
