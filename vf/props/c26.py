"""C26 Heartbeat gives up exactly after four consecutive failures."""

from __future__ import annotations

import asyncio
from typing import Any

from xknx.exceptions import CommunicationError
from xknx.io.const import HEARTBEAT_RATE
from xknx.io.data_connection import ConnectionHeartbeat

from ..explore import Chooser, explore, finalize_states, replay_schedule
from ..runner import Ctx
from ..vloop import World

TITLE = "heartbeat"
OUTCOMES = ["ok", "error-status", "no-response", "raise", "gone(None)", "stop()-during-request", "start()-during-request"]
DUR = {"ok": 0.05, "error-status": 0.05, "no-response": 10.0, "raise": 0.0, "gone(None)": 0.0}


def make(depth: int, with_control: bool):
    """All outcome sequences of length <= depth (every option has cost 0 => complete product)."""
    n_opts = len(OUTCOMES) if with_control else 5

    def scenario(ch: Chooser) -> list[tuple[str, str]]:
        viols: list[tuple[str, str]] = []
        with World() as w:
            loop = w.loop
            sends: list[float] = []       # start time of every ConnectionStateRequest
            failures: list[float] = []    # times on_failure ran
            log: list[str] = []
            hb_box: list[Any] = []
            # reference automaton state
            ref = {"alive": True, "consec": 0, "next_due": HEARTBEAT_RATE, "expect_fail": 0}

            async def send() -> Any:
                now = loop.time()
                sends.append(now)
                if not ref["alive"]:
                    viols.append(("send-after-end", f"request sent at t={now} although the heartbeat had ended; log={log}"))
                elif abs(now - ref["next_due"]) > 1e-6:
                    viols.append(("send-at-wrong-time", f"request at t={now}, reference expects t={ref['next_due']}; log={log}"))
                if len(sends) > depth:
                    # horizon: connection gone, heartbeat must end quietly
                    ref["alive"] = False
                    log.append("gone(None)")
                    return None
                c = ch.choose(f"cs{len(sends)}", n_opts, [0] * n_opts)
                out = OUTCOMES[c]
                log.append(out)
                if out == "stop()-during-request":
                    ref["alive"] = False
                    loop.call_later(0.02, hb_box[0].stop)
                    await asyncio.sleep(10)
                    return True, None
                if out == "start()-during-request":
                    ref["consec"] = 0
                    ref["next_due"] = now + 0.02 + HEARTBEAT_RATE
                    loop.call_later(0.02, hb_box[0].start)
                    await asyncio.sleep(10)
                    return True, None
                if DUR[out]:
                    await asyncio.sleep(DUR[out])
                end = loop.time()
                if out == "ok":
                    ref["consec"] = 0
                    ref["next_due"] = end + HEARTBEAT_RATE
                    return True, None
                if out == "gone(None)":
                    ref["alive"] = False
                    return None
                if out == "raise":
                    ref["alive"] = False
                    ref["expect_fail"] += 1
                    raise CommunicationError("transport gone")
                ref["consec"] += 1
                if ref["consec"] >= 4:
                    ref["alive"] = False
                    ref["expect_fail"] += 1
                else:
                    ref["next_due"] = end  # repeated immediately
                return (False, "E_CONNECTION_ID" if out == "error-status" else None)

            async def on_failure() -> None:
                failures.append(loop.time())

            hb = ConnectionHeartbeat("Test", send, on_failure)
            hb_box.append(hb)

            async def starter() -> None:
                hb.start()

            w.spawn(starter())
            loop.run_until(HEARTBEAT_RATE * (depth + 3) + 200)
            if len(failures) != ref["expect_fail"]:
                viols.append(("on-failure-count", f"on_failure ran {len(failures)}x at {failures}, reference expects {ref['expect_fail']}; log={log}"))
            if ref["alive"] and len(sends) <= depth:
                viols.append(("heartbeat-stalled", f"heartbeat alive by reference but only {len(sends)} requests by the horizon; log={log}"))
            for name, exc in loop.task_failures():
                viols.append((f"task-exception:{type(exc).__name__}", f"{name}: {exc!r}; log={log}"))
            for ctxd in loop.exceptions:
                viols.append(("loop-exception", repr(ctxd)[:300]))
            ch.state((ref["alive"], ref["consec"], len(failures)))
            ch.notes.append(f"sends={len(sends)},fail={len(failures)},alive={ref['alive']}")
        return viols

    return scenario


SCENARIOS = {"heartbeat": make}

USER_KINDS = ["udp-tunnel", "tcp-tunnel", "udp-device-management", "tcp-device-management"]


def users_case(kind: str, script: tuple[str, ...], channel: int = 7) -> list[tuple[str, str]]:
    """The heartbeat as its users run it: a real tunnel / device management connection whose ConnectionStateRequests a simulated
    gateway answers from `script` ('ok', 'silent' or the name of an error status; 'ok' after the script).  What counts as a
    failed request is decided by the user's own callback, so every status code goes through it."""
    from xknx import XKNX
    from xknx.io.device_management_connection import TCPDeviceManagementConnection, UDPDeviceManagementConnection
    from xknx.io.tunnel import TCPTunnel, UDPTunnel
    from xknx.knxip import ConnectionStateRequest, ConnectionStateResponse, DisconnectRequest, ErrorCode
    from xknx.knxip.knxip_enum import ConnectRequestType

    from ..sim.gateway import GW_ADDR, DefaultPolicy, Gateway
    from ..vloop import texc

    viols: list[tuple[str, str]] = []
    with World() as w:
        loop = w.loop
        gw = Gateway(loop)
        tcp = kind.startswith("tcp")
        dm = "device-management" in kind
        pol = DefaultPolicy(gw, tcp=tcp, first_channel=channel, request_type=ConnectRequestType.DEVICE_MGMT_CONNECTION if dm else ConnectRequestType.TUNNEL_CONNECTION)
        requests: list[float] = []

        def handler(body: Any) -> None:
            if isinstance(body, ConnectionStateRequest):
                i = len(requests)
                requests.append(loop.time())
                ans = script[i] if i < len(script) else "ok"
                if ans == "silent":
                    return
                gw.send(ConnectionStateResponse(body.communication_channel_id, ErrorCode.E_NO_ERROR if ans == "ok" else ErrorCode[ans]))
                return
            pol(body)

        gw.handler = handler
        xknx = XKNX()
        try:
            if dm:
                conn: Any = TCPDeviceManagementConnection(GW_ADDR[0], GW_ADDR[1]) if tcp else UDPDeviceManagementConnection(GW_ADDR[0], GW_ADDR[1], local_ip="192.168.1.2")
            elif tcp:
                conn = TCPTunnel(xknx, gateway_ip=GW_ADDR[0], gateway_port=GW_ADDR[1], cemi_received_callback=lambda c: None, auto_reconnect=False)
            else:
                conn = UDPTunnel(xknx, gateway_ip=GW_ADDR[0], gateway_port=GW_ADDR[1], local_ip="192.168.1.2", local_port=0, route_back=False,
                                 cemi_received_callback=lambda c: None, auto_reconnect=False)
            t0 = w.spawn(conn.connect(), name="harness-connect")
            loop.settle()
            if not (t0.done() and texc(t0) is None):
                return [("harness:connect-failed", repr(t0))]
            # reference: consecutive failures; lost at the 4th
            consec, lost_at = 0, None
            for i, a in enumerate(script):
                consec = 0 if a == "ok" else consec + 1
                if consec == 4:
                    lost_at = i
                    break
            loop.run_until(loop.time() + (len(script) + 2) * (HEARTBEAT_RATE + 15))
            # declared lost = the client gave the channel up: it forgot the channel id or told the server (DisconnectRequest)
            lost = conn.communication_channel is None or any(isinstance(b, DisconnectRequest) for _t, b in gw.log)
            ctxs = f"{kind} (channel id {channel}): answers {list(script)} -> {len(requests)} ConnectionStateRequests at {[round(t, 2) for t in requests]}, connection {'lost' if lost else 'open'}"
            if lost_at is None:
                if lost:
                    viols.append(("user:connection-declared-lost-without-four-failures", ctxs))
                elif len(requests) < len(script):
                    viols.append(("user:failed-request-not-repeated", ctxs))
            else:
                if not lost:
                    viols.append((f"user:not-lost-after-four-failures:{'device-management' if dm else 'tunnel'}", ctxs))
                elif len(requests) != lost_at + 1:
                    viols.append(("user:request-count-before-loss-wrong", ctxs + f"; reference {lost_at + 1}"))
            for name, exc in loop.task_failures():
                viols.append((f"task-exception:{type(exc).__name__}", f"{name}: {exc!r}; {ctxs}"))
        finally:
            xknx.started.clear()
    return viols


GONE_HOW = ["user-disconnect", "server-disconnect-request", "peer-closes-tcp"]


def gone_case(kind: str, how: str, after: int) -> list[tuple[str, str]]:
    """'the heartbeat stops quietly once the connection is gone': the connection ends (the user disconnects, the server sends a
    DisconnectRequest, the peer closes the TCP connection) right after connect or after `after` answered heartbeats; from then on
    no ConnectionStateRequest, no heartbeat task, and the loss is not declared a second time."""
    from xknx import XKNX
    from xknx.io import device_management_connection as dmc
    from xknx.io import tunnel as tun
    from xknx.knxip import ConnectionStateRequest, DisconnectRequest
    from xknx.knxip.knxip_enum import ConnectRequestType

    from ..sim.gateway import GW_ADDR, DefaultPolicy, Gateway
    from ..vloop import texc

    viols: list[tuple[str, str]] = []
    tcp = kind.startswith("tcp")
    dm = "device-management" in kind
    cls, meth = (dmc._DeviceManagementConnection, "_connection_lost") if dm else (tun._Tunnel, "_tunnel_lost")  # noqa: SLF001
    orig = getattr(cls, meth)
    with World() as w:
        loop = w.loop
        lost_calls: list[float] = []

        def counted(self: Any, *a: Any, **k: Any) -> Any:
            lost_calls.append(loop.time())
            return orig(self, *a, **k)

        setattr(cls, meth, counted)
        gw = Gateway(loop)
        gw.handler = DefaultPolicy(gw, tcp=tcp, request_type=ConnectRequestType.DEVICE_MGMT_CONNECTION if dm else ConnectRequestType.TUNNEL_CONNECTION)
        xknx = XKNX()
        try:
            if dm:
                conn: Any = dmc.TCPDeviceManagementConnection(GW_ADDR[0], GW_ADDR[1]) if tcp else dmc.UDPDeviceManagementConnection(GW_ADDR[0], GW_ADDR[1], local_ip="192.168.1.2")
            elif tcp:
                conn = tun.TCPTunnel(xknx, gateway_ip=GW_ADDR[0], gateway_port=GW_ADDR[1], cemi_received_callback=lambda c: None, auto_reconnect=False)
            else:
                conn = tun.UDPTunnel(xknx, gateway_ip=GW_ADDR[0], gateway_port=GW_ADDR[1], local_ip="192.168.1.2", local_port=0, route_back=False, cemi_received_callback=lambda c: None, auto_reconnect=False)
            t0 = w.spawn(conn.connect(), name="harness-connect")
            loop.settle()
            if not (t0.done() and texc(t0) is None):
                return [("harness:connect-failed", repr(t0))]
            loop.run_until(loop.time() + after * HEARTBEAT_RATE + (1 if after else 0))
            n_before = sum(1 for _t, b in gw.log if isinstance(b, ConnectionStateRequest))
            if n_before != after:
                return [("harness:heartbeat-count", f"{n_before} requests before the event, expected {after}")]
            t_event = loop.time()
            chan = conn.communication_channel
            if how == "user-disconnect":
                w.spawn(conn.disconnect(), name="harness-disconnect")
            elif how == "server-disconnect-request":
                gw.send(DisconnectRequest(chan))
            else:
                gw.tr.lose(ConnectionResetError("peer reset"))
            loop.settle()
            calls_at_event = len(lost_calls)
            alive = [t.get_name() for t in loop.live_tasks() if t.get_name().endswith(" heartbeat")]
            ctxs = f"{kind}: {how} after {after} answered heartbeat(s) at t={t_event}"
            if alive:
                viols.append((f"gone:heartbeat-still-running:{how}", f"{ctxs}: task(s) {alive} alive after the connection ended"))
            loop.run_until(loop.time() + 3 * HEARTBEAT_RATE + 60)
            later = [round(t, 2) for t, b in gw.log if isinstance(b, ConnectionStateRequest) and t > t_event]
            if later:
                viols.append((f"gone:connection-state-request-after-end:{how}", f"{ctxs}: ConnectionStateRequests at {later}"))
            if len(lost_calls) > max(1, calls_at_event) or (how == "user-disconnect" and lost_calls):
                viols.append((f"gone:loss-declared-again:{how}", f"{ctxs}: {meth} called at {[round(t, 2) for t in lost_calls]}"))
            for name, exc in loop.task_failures():
                if not name.startswith("harness-"):
                    viols.append((f"task-exception:{type(exc).__name__}", f"{name}: {exc!r}; {ctxs}"))
        finally:
            setattr(cls, meth, orig)
            xknx.started.clear()
    return viols


def user_scripts() -> list[tuple[str, ...]]:
    import itertools

    from xknx.knxip import ErrorCode

    out: list[tuple[str, ...]] = []
    for n in range(1, 6):
        out += list(itertools.product(("ok", "silent", "E_CONNECTION_ID"), repeat=n))
    for e in ErrorCode:
        if e is ErrorCode.E_NO_ERROR or e is ErrorCode.E_CONNECTION_ID:
            continue
        x = e.name
        out += [(x,) * 4, ("silent",) * 3 + (x,), (x, "ok", x, x, x), (x, x, x, "ok"), ("E_CONNECTION_ID", "silent", "E_DATA_CONNECTION", x), (x, "silent", x, "E_CONNECTION_ID")]
    return out


def users_worker(k: int, n: int) -> Any:
    import logging

    from ..runner import Part

    logging.disable(logging.CRITICAL)
    part = Part()
    i = 0
    scripts = [(s_, 7) for s_ in user_scripts()] + [(s_, ch) for ch in (0, 255) for s_ in user_scripts() if len(s_) == 4]   # channel ids 0 and 255 are as valid as any
    for kind in USER_KINDS:
        for script, channel in scripts:
            i += 1
            if i % n != k:
                continue
            viols = users_case(kind, script, channel)
            part.evaluations += 1
            part.traces += 1
            part.transitions += len(script)
            if any(a != "ok" for a in script):
                part.nontrivial += 1
            part.outcomes["users:" + ("violating" if viols else "ok")] += 1
            for sig, detail in viols:
                part.viol(sig, detail, {"scenario": "users", "kind": kind, "script": list(script), "channel": channel}, rank=(len(script), channel != 7, script))
    for kind in USER_KINDS:
        for how in GONE_HOW:
            if how == "peer-closes-tcp" and not kind.startswith("tcp"):
                continue
            for after in (0, 1, 2):
                i += 1
                if i % n != k:
                    continue
                viols = gone_case(kind, how, after)
                part.evaluations += 1
                part.traces += 1
                part.nontrivial += 1
                part.outcomes["gone:" + ("violating" if viols else "ok")] += 1
                for sig, detail in viols:
                    part.viol(sig, detail, {"scenario": "gone", "kind": kind, "how": how, "after": after}, rank=(after, GONE_HOW.index(how)))
    return part


def run(ctx: Ctx) -> None:
    depth = (10 if ctx.thorough else 7) + int(__import__("os").environ.get("VF_DEEPER", 0))
    ctx.rule = (
        f"real ConnectionHeartbeat on the virtual loop; EVERY sequence of request outcomes {OUTCOMES[:5]} of length <= {depth + 1} "
        f"(complete product, not deviation bounded) and every sequence of length {depth - 1} that also contains stop()/start() during a request; reference automaton "
        "(70 s period, immediate repeats, on_failure once after 4 consecutive failures or a raise, None/stop ends quietly) stepped in lock-step; "
        "plus the heartbeat as its users run it - real UDP/TCP tunnel and UDP/TCP device management connection against a simulated gateway answering the ConnectionStateRequests from a script: ALL scripts of "
        "length <= 5 over {ok, silent, E_CONNECTION_ID} and 6 patterns for EVERY other status code (4 in a row, as 4th failure, reset by ok, ...): lost exactly after four consecutive failed requests, whatever the status and whatever channel id (7, 0, 255) the server assigned; and for each of the four users the connection ending (user disconnect, server DisconnectRequest, peer closing the TCP connection) right after connect or after 1-2 answered heartbeats: no heartbeat task and no ConnectionStateRequest afterwards, the loss not declared a second time. "
        "non-trivial = schedule with at least one non-ok outcome"
    )
    ctx.bounds = {"outcome_sequences_length": depth + 1, "with_start_stop_length": depth - 1}
    explore(ctx, __name__, "heartbeat", (depth + 1, False), bound=0)
    explore(ctx, __name__, "heartbeat", (depth - 1, True), bound=0)
    ctx.bounds["user_scripts"] = len(user_scripts())
    ctx.pmap(users_worker, [(k, 32) for k in range(32)])
    finalize_states(ctx)


def replay(case: Any) -> list[tuple[str, str]]:
    if case.get("scenario") == "gone":
        return gone_case(case["kind"], case["how"], case["after"])
    if case.get("scenario") == "users":
        return users_case(case["kind"], tuple(case["script"]), case.get("channel", 7))
    return replay_schedule(__name__, case)
