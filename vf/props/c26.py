"""C26 Heartbeat gives up exactly after four consecutive failures."""

from __future__ import annotations

import asyncio
from typing import Any

from xknx.exceptions import CommunicationError
from xknx.io.const import HEARTBEAT_RATE
from xknx.io.data_connection import ConnectionHeartbeat

from ..explore import Chooser, explore, finalize_states, replay_schedule
from ..runner import Ctx
from ..vloop import World

TITLE = "heartbeat"
OUTCOMES = ["ok", "error-status", "no-response", "raise", "gone(None)", "stop()-during-request", "start()-during-request"]
DUR = {"ok": 0.05, "error-status": 0.05, "no-response": 10.0, "raise": 0.0, "gone(None)": 0.0}


def make(depth: int, with_control: bool):
    """All outcome sequences of length <= depth (every option has cost 0 => complete product)."""
    n_opts = len(OUTCOMES) if with_control else 5

    def scenario(ch: Chooser) -> list[tuple[str, str]]:
        viols: list[tuple[str, str]] = []
        with World() as w:
            loop = w.loop
            sends: list[float] = []       # start time of every ConnectionStateRequest
            failures: list[float] = []    # times on_failure ran
            log: list[str] = []
            hb_box: list[Any] = []
            # reference automaton state
            ref = {"alive": True, "consec": 0, "next_due": HEARTBEAT_RATE, "expect_fail": 0}

            async def send() -> Any:
                now = loop.time()
                sends.append(now)
                if not ref["alive"]:
                    viols.append(("send-after-end", f"request sent at t={now} although the heartbeat had ended; log={log}"))
                elif abs(now - ref["next_due"]) > 1e-6:
                    viols.append(("send-at-wrong-time", f"request at t={now}, reference expects t={ref['next_due']}; log={log}"))
                if len(sends) > depth:
                    # horizon: connection gone, heartbeat must end quietly
                    ref["alive"] = False
                    log.append("gone(None)")
                    return None
                c = ch.choose(f"cs{len(sends)}", n_opts, [0] * n_opts)
                out = OUTCOMES[c]
                log.append(out)
                if out == "stop()-during-request":
                    ref["alive"] = False
                    loop.call_later(0.02, hb_box[0].stop)
                    await asyncio.sleep(10)
                    return True, None
                if out == "start()-during-request":
                    ref["consec"] = 0
                    ref["next_due"] = now + 0.02 + HEARTBEAT_RATE
                    loop.call_later(0.02, hb_box[0].start)
                    await asyncio.sleep(10)
                    return True, None
                if DUR[out]:
                    await asyncio.sleep(DUR[out])
                end = loop.time()
                if out == "ok":
                    ref["consec"] = 0
                    ref["next_due"] = end + HEARTBEAT_RATE
                    return True, None
                if out == "gone(None)":
                    ref["alive"] = False
                    return None
                if out == "raise":
                    ref["alive"] = False
                    ref["expect_fail"] += 1
                    raise CommunicationError("transport gone")
                ref["consec"] += 1
                if ref["consec"] >= 4:
                    ref["alive"] = False
                    ref["expect_fail"] += 1
                else:
                    ref["next_due"] = end  # repeated immediately
                return (False, "E_CONNECTION_ID" if out == "error-status" else None)

            async def on_failure() -> None:
                failures.append(loop.time())

            hb = ConnectionHeartbeat("Test", send, on_failure)
            hb_box.append(hb)

            async def starter() -> None:
                hb.start()

            w.spawn(starter())
            loop.run_until(HEARTBEAT_RATE * (depth + 3) + 200)
            if len(failures) != ref["expect_fail"]:
                viols.append(("on-failure-count", f"on_failure ran {len(failures)}x at {failures}, reference expects {ref['expect_fail']}; log={log}"))
            if ref["alive"] and len(sends) <= depth:
                viols.append(("heartbeat-stalled", f"heartbeat alive by reference but only {len(sends)} requests by the horizon; log={log}"))
            for name, exc in loop.task_failures():
                viols.append((f"task-exception:{type(exc).__name__}", f"{name}: {exc!r}; log={log}"))
            for ctxd in loop.exceptions:
                viols.append(("loop-exception", repr(ctxd)[:300]))
            ch.state((ref["alive"], ref["consec"], len(failures)))
            ch.notes.append(f"sends={len(sends)},fail={len(failures)},alive={ref['alive']}")
        return viols

    return scenario


SCENARIOS = {"heartbeat": make}


def run(ctx: Ctx) -> None:
    depth = 10 if ctx.thorough else 7
    ctx.rule = (
        f"real ConnectionHeartbeat on the virtual loop; EVERY sequence of request outcomes {OUTCOMES[:5]} of length <= {depth + 1} "
        f"(complete product, not deviation bounded) and every sequence of length {depth - 1} that also contains stop()/start() during a request; reference automaton "
        "(70 s period, immediate repeats, on_failure once after 4 consecutive failures or a raise, None/stop ends quietly) stepped in lock-step; "
        "non-trivial = schedule with at least one non-ok outcome"
    )
    ctx.bounds = {"outcome_sequences_length": depth + 1, "with_start_stop_length": depth - 1}
    explore(ctx, __name__, "heartbeat", (depth + 1, False), bound=0)
    explore(ctx, __name__, "heartbeat", (depth - 1, True), bound=0)
    finalize_states(ctx)


def replay(case: Any) -> list[tuple[str, str]]:
    return replay_schedule(__name__, case)
