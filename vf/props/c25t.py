"""C25 (threaded family): the real XKNX with ConnectionConfig(threaded=True) on two event loops under one scheduler.

The application's loop ("main"), the connection thread's loop ("conn") and the executor ("exec") are the agents of vf/dual.py;
whenever more than one could go on, which one runs its next loop iteration is a decision of the explorer (a departure from the
default order main > exec > conn costs one deviation), and at quiescent points the environment sends bus frames, lets the
server end the tunnel, lets the user send / stop, or lets time pass.  Everything between `XKNX.start()` and `XKNX.stop()` is the
library's code: KNXIPInterfaceThreaded, the UDP/TCP tunnel, ConnectionManager's hand-over to the main loop, CEMIHandler, the
telegram queue.
"""

from __future__ import annotations

import asyncio
from typing import Any

from xknx import XKNX
from xknx.core import XknxConnectionState
from xknx.dpt import DPTArray
from xknx.io import ConnectionConfig, ConnectionType
from xknx.knxip import (
    ConnectionStateRequest,
    ConnectionStateResponse,
    ConnectRequest,
    DisconnectRequest,
    DisconnectResponse,
    ErrorCode,
    TunnellingAck,
    TunnellingRequest,
)
from xknx.telegram import GroupAddress, Telegram
from xknx.telegram.apci import GroupValueWrite

from ..dual import DualWorld, JoinDeadlock
from ..explore import Chooser
from ..sim.gateway import GW_ADDR, Gateway
from ..vloop import texc

Q_EVENTS = ["next-timer", "bus-frame", "user-send", "user-stop", "server-disconnect", "+0.5s", "user-start-again"]
ORDER = ["main", "exec", "conn"]


def ind_cemi(i: int) -> bytes:
    # L_Data.ind from 1.1.7 to 1/2/3, GroupValueWrite one octet i
    return bytes.fromhex("2900bcd011070a03020080") + bytes((i & 0xFF,))


def make_threaded(kind: str, family: str, steps: int, order: str = "main-first"):
    """kind: udp | tcp; family: '' (gateway accepts) | 'refused' (the first ConnectRequest is refused: start() fails and is called again)."""
    tcp = kind == "tcp"
    # default agent order: "main-first" = the application's loop is idle and picks everything up at once; "conn-first" = the
    # application's loop is busy, so the connection thread runs as far as it can before the main loop gets a turn (reports and
    # frames pile up in front of the main loop)
    agent_order = ORDER if order == "main-first" else ["conn", "exec", "main"]

    def scenario(ch: Chooser) -> list[tuple[str, str]]:
        viols: list[tuple[str, str]] = []
        events: list[Any] = []
        with DualWorld() as w:
            st: dict[str, Any] = {"next_channel": 7, "connects": 0, "chan": None, "gw_seq": 0, "log": [], "acked": [], "gw": None, "sent_cemi": [], "open": set()}

            def on_conn(lp: Any) -> None:
                gw = Gateway(lp)
                st["gw"] = gw
                gw.handler = handler

            def handler(body: Any) -> None:
                gw = st["gw"]
                now = w.now
                if isinstance(body, ConnectRequest):
                    st["connects"] += 1
                    st["log"].append((now, "ConnectRequest"))
                    if family == "refused" and st["connects"] == 1:
                        gw.send(gw.connect_response(0, status=ErrorCode.E_NO_MORE_CONNECTIONS, tcp=tcp))
                        return
                    chan = st["next_channel"]
                    st["next_channel"] += 1
                    st["chan"] = chan
                    st["gw_seq"] = 0
                    st["open"].add(chan)
                    gw.send(gw.connect_response(chan, tcp=tcp))
                elif isinstance(body, ConnectionStateRequest):
                    gw.send(ConnectionStateResponse(body.communication_channel_id))
                elif isinstance(body, DisconnectRequest):
                    st["log"].append((now, "DisconnectRequest"))
                    st["open"].discard(body.communication_channel_id)
                    gw.send(DisconnectResponse(body.communication_channel_id))
                elif isinstance(body, TunnellingRequest):
                    st["log"].append((now, "TunnellingRequest", body.sequence_counter))
                    st["sent_cemi"].append(bytes(body.raw_cemi))
                    if not tcp:
                        gw.send(TunnellingAck(body.communication_channel_id, body.sequence_counter))
                    # the bus confirms: L_Data.con with the same content
                    con = bytes((0x2E,)) + bytes(body.raw_cemi)[1:]
                    gw.send(TunnellingRequest(body.communication_channel_id, st["gw_seq"], con))
                    st["gw_seq"] = (st["gw_seq"] + 1) & 0xFF
                elif isinstance(body, TunnellingAck):
                    st["acked"].append((now, body.sequence_counter))
                else:
                    st["log"].append((now, type(body).__name__))

            w.on_conn = on_conn
            xknx = XKNX(connection_config=ConnectionConfig(connection_type=ConnectionType.TUNNELING_TCP if tcp else ConnectionType.TUNNELING, gateway_ip=GW_ADDR[0], gateway_port=GW_ADDR[1],
                                                           local_ip="192.168.1.2", threaded=True, auto_reconnect=True, auto_reconnect_wait=3))
            try:
                cb_log: list[Any] = []
                wrong_thread: list[str] = []

                def on_state(state: Any) -> None:
                    cb_log.append(state)
                    if w.current != "main":
                        wrong_thread.append(f"connection state callback({state}) ran in the {w.current} thread")

                xknx.connection_manager.register_connection_state_changed_cb(on_state)
                received: list[int] = []

                def on_telegram(tg: Telegram) -> None:
                    if w.current != "main":
                        wrong_thread.append(f"telegram callback ran in the {w.current} thread")
                    if tg.destination_address == GroupAddress("1/2/3") and isinstance(tg.payload, GroupValueWrite):
                        received.append(tg.payload.value.value[0])

                xknx.telegram_queue.register_telegram_received_cb(on_telegram)
                user: dict[str, Any] = {"started": None, "start_error": None, "stop_called": None, "stopped": None, "sends": 0, "frames": 0, "frames_before_stop": 0, "wire_at_stop": None}

                async def do_start() -> None:
                    try:
                        await xknx.start()
                    except Exception as exc:  # noqa: BLE001
                        user["start_error"] = exc
                        if family == "refused":
                            events.append((round(w.now, 3), f"start() raised {type(exc).__name__}; start() again"))
                            user["start_error"] = None
                            await xknx.start()
                    user["started"] = w.now

                async def do_stop() -> None:
                    await xknx.stop()
                    user["stopped"] = w.now
                    user["wire_at_stop"] = len(st["gw"].raw_log) if st["gw"] is not None else 0

                tasks = [w.main.create_task(do_start(), name="harness-start")]

                def inject(ev: str) -> None:
                    events.append((round(w.now, 3), ev))
                    gw = st["gw"]
                    if ev == "bus-frame":
                        if gw is not None and gw.tr is not None and not gw.tr.closed and st["chan"] is not None:
                            gw.send(TunnellingRequest(st["chan"], st["gw_seq"], ind_cemi(user["frames"])))
                            st["gw_seq"] = (st["gw_seq"] + 1) & 0xFF
                            user["frames"] += 1
                            if user["stop_called"] is None:
                                user["frames_before_stop"] = user["frames"]
                    elif ev == "user-send":
                        xknx.telegrams.put_nowait(Telegram(GroupAddress("1/2/9"), payload=GroupValueWrite(DPTArray((user["sends"],)))))
                        user["sends"] += 1
                    elif ev == "user-stop":
                        user["stop_called"] = w.now
                        tasks.append(w.main.create_task(do_stop(), name="harness-stop"))
                    elif ev == "user-start-again":
                        # start() on the running interface: refused, and the running connection is not disturbed
                        async def again() -> None:
                            try:
                                await xknx.knxip_interface.start()
                            except Exception as exc:  # noqa: BLE001
                                events.append((round(w.now, 3), f"second start() raised {type(exc).__name__}"))
                            else:
                                events.append((round(w.now, 3), "second start() returned"))

                        tasks.insert(1, w.main.create_task(again(), name="harness-start-again"))
                    elif ev == "server-disconnect":
                        if gw is not None and gw.tr is not None and not gw.tr.closed and st["chan"] is not None:
                            gw.send(DisconnectRequest(st["chan"]))
                            st["open"].discard(st["chan"])

                def check_cb() -> None:
                    for a, b in zip(cb_log, cb_log[1:]):
                        if a == b:
                            viols.append(("threaded:state-callback-repeats-state", f"callback saw {a} twice in a row; events={events}"))
                            return

                def settle() -> bool:
                    """Run the agents until none is enabled. Returns False when the run has to be abandoned."""
                    guard = 0
                    while True:
                        en = [a for a in agent_order if a in w.enabled()]
                        if not en:
                            return True
                        c = ch.choose("sched:" + "+".join(en), len(en)) if len(en) > 1 else 0
                        try:
                            w.run_agent(en[c])
                        except JoinDeadlock as exc:
                            viols.append(("threaded:join-deadlock", f"{exc}; events={events}"))
                            return False
                        check_cb()
                        guard += 1
                        if guard > 20000:
                            viols.append(("threaded:livelock", f"agents never go idle at one instant; events={events}"))
                            return False
                        # while stop() is in progress the bus does not stop either
                        if user["stop_called"] is not None and user["stopped"] is None and user["frames"] < 3 and w.enabled():
                            if ch.choose("frame-during-stop", 2):
                                inject("bus-frame")

                ok = settle()
                if ok and user["started"] is None:
                    # connecting may need time (connect timeout, retry)
                    for _ in range(40):
                        t = w.next_timer()
                        if t is None or user["started"] is not None or tasks[0].done():
                            break
                        w.advance_to(max(t, w.now))
                        ok = settle()
                        if not ok:
                            break
                if ok and user["started"] is None:
                    exc = texc(tasks[0]) if tasks[0].done() else None
                    viols.append(("threaded:start-does-not-complete", f"start() {'raised ' + repr(exc) if exc else 'still pending'}; events={events} log={st['log']}"))
                    ok = False
                def check_quiescent() -> None:
                    state = xknx.connection_manager.state
                    itf = xknx.knxip_interface._interface  # noqa: SLF001
                    if state is XknxConnectionState.CONNECTED and user["stop_called"] is None and (itf is None or getattr(itf, "communication_channel", None) is None):
                        viols.append(("threaded:connected-without-connection", f"state CONNECTED at a quiescent point with interface {'absent' if itf is None else 'without channel'}; events={events}"))

                step = 0
                while ok and step < steps:
                    step += 1
                    check_quiescent()
                    ch.state((xknx.connection_manager.state.name, user["stop_called"] is not None, user["stopped"] is not None, len(received), user["sends"], len(w.main.live_tasks())))
                    if user["stop_called"] is not None:
                        opts = ["next-timer"]
                    else:
                        opts = Q_EVENTS
                    c = ch.choose("q", len(opts)) if len(opts) > 1 else 0
                    ev = opts[c]
                    if ev == "next-timer":
                        t = w.next_timer()
                        if t is None:
                            break
                        events.append((round(w.now, 3), "next-timer"))
                        w.advance_to(max(t, w.now))
                    elif ev == "+0.5s":
                        events.append((round(w.now, 3), "+0.5s"))
                        w.advance_to(w.now + 0.5)
                    else:
                        inject(ev)
                    ok = settle()
                if ok and user["stop_called"] is None:
                    inject("user-stop")
                    ok = settle()
                # run on: stop() has to return
                n = 0
                while ok and user["stopped"] is None and n < 200:
                    t = w.next_timer()
                    if t is None:
                        break
                    w.advance_to(max(t, w.now))
                    ok = settle()
                    n += 1
                if ok:
                    if user["stopped"] is None:
                        stop_task = tasks[-1]
                        exc = texc(stop_task) if stop_task.done() else None
                        viols.append(("threaded:stop-does-not-return", f"stop() {'raised ' + repr(exc) if exc else 'still pending'} at t={w.now}; events={events} log={st['log']}"))
                    else:
                        # afterwards: 60 s of silence
                        t_end = w.now + 60
                        while ok:
                            t = w.next_timer()
                            if t is None or t > t_end:
                                break
                            w.advance_to(max(t, w.now))
                            ok = settle()
                        gw = st["gw"]
                        late = gw.raw_log[user["wire_at_stop"]:] if gw is not None else []
                        if st["open"]:
                            viols.append(("threaded:tunnel-left-open-at-the-gateway", f"stop() returned but the gateway was never asked to close channel(s) {sorted(st['open'])}; events={events} log={st['log']}"))
                        if late:
                            viols.append(("threaded:sent-after-stop", f"{len(late)} frames written after stop() returned: {[r.hex() for _, r in late][:3]}; events={events}"))
                        for lp in w.loops():
                            alive = [t for t in lp.live_tasks() if not t.get_name().startswith("harness-")]
                            if alive and not lp.stopped:
                                viols.append(("threaded:task-alive-after-stop", f"{lp.name}: {[(t.get_name(), getattr(t.get_coro(), '__qualname__', '?')) for t in alive]}; events={events}"))
                        if w.conn is not None and not w.conn.stopped:
                            viols.append(("threaded:connection-loop-not-stopped", f"events={events}"))
                        if any(t.is_alive() for t in w.threads):
                            viols.append(("threaded:thread-alive-after-stop", f"events={events}"))
                        state = xknx.connection_manager.state
                        if state is not XknxConnectionState.DISCONNECTED or xknx.connection_manager.connected.is_set():
                            viols.append(("threaded:state-after-stop", f"state {state}, connected event {'set' if xknx.connection_manager.connected.is_set() else 'clear'} after stop() returned and the main loop went idle; events={events}"))
                        if cb_log and cb_log[-1] != state:
                            viols.append(("threaded:callbacks-missed-a-change", f"state {state}, last callback {cb_log[-1]}; events={events}"))
                        # bus frames: those the tunnel acknowledged before stop() was asked for are delivered once, in order; none twice
                        want = list(range(user["frames_before_stop"]))
                        if received[: len(want)] != want or len(received) != len(set(received)) or received != sorted(received):
                            viols.append(("threaded:bus-frames-not-delivered-once-in-order", f"sent {user['frames']} ({user['frames_before_stop']} before stop()), telegram callback saw {received}; events={events}"))
                        # user telegrams: each went to the wire once, in order (stop() waits for the queue)
                        vals = []
                        for raw in st["sent_cemi"]:
                            if raw[6:8] == bytes.fromhex("0a09"):
                                vals.append(raw[-1])
                        if vals != list(range(user["sends"])):
                            viols.append(("threaded:user-telegrams-not-sent-once-in-order", f"{user['sends']} telegrams queued before stop(), wire saw {vals}; events={events} log={st['log']}"))
                check_cb()
                if wrong_thread:
                    viols.append(("threaded:callback-outside-main-loop", f"{wrong_thread[:3]}; events={events}"))
                if w.foreign_calls:
                    viols.append(("threaded:loop-used-from-other-thread", f"{w.foreign_calls[:3]}; events={events}"))
                for lp in w.loops():
                    for name, exc in lp.task_failures():
                        viols.append((f"threaded:task-exception:{type(exc).__name__}", f"{lp.name}/{name}: {exc!r}; events={events}"))
                    for c in lp.exceptions:
                        viols.append(("threaded:loop-exception", f"{lp.name}: " + repr(c)[:300] + f"; events={events}"))
                ch.notes.append(f"{xknx.connection_manager.state.name},rx={len(received)},tx={len(st['sent_cemi'])},connects={st['connects']}")
            finally:
                xknx.started.clear()
        seen = set()
        out = []
        for s, d in viols:
            if s not in seen:
                seen.add(s)
                out.append((s, d))
        return out

    return scenario
