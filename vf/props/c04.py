"""C04 Application-layer decoding is total with declared errors only."""

from __future__ import annotations

import signal
from typing import Any, Iterator

from xknx.exceptions import ConversionError, UnsupportedAPCIService
from xknx.telegram.apci import APCI

from ..apcispace import code_of, short_space, struct_space
from ..runner import Ctx, Part, exc_sig

TITLE = "APCI decoding total"


class _Timeout(Exception):
    pass


def _alarm(signum: int, frame: Any) -> None:
    raise _Timeout()


def decode(raw: bytes) -> tuple[str, Any]:
    try:
        return "object", APCI.from_knx(raw)
    except UnsupportedAPCIService as exc:
        return "unsupported", exc
    except ConversionError as exc:
        return "malformed", exc
    except _Timeout:
        raise
    except Exception as exc:  # noqa: BLE001
        return "escape", exc


def same_pdu(a: Any, b: Any) -> bool:
    try:
        if a == b:
            return True
    except Exception:  # noqa: BLE001
        pass
    try:
        return bytes(a.to_knx()) == bytes(b.to_knx())
    except Exception:  # noqa: BLE001
        return repr(a) == repr(b)


def run_space(gen: Iterator[bytes], part: Part, budget_s: float) -> None:
    """Decode every APDU; per 10-bit code: a code that decodes for some APDU must never answer 'unsupported'."""
    signal.signal(signal.SIGALRM, _alarm)
    signal.setitimer(signal.ITIMER_REAL, budget_s)
    accepted: dict[int, bytes] = {}
    unsupported: dict[int, bytes] = {}
    raw = b""
    try:
        for raw in gen:
            part.evaluations += 1
            outcome, val = decode(raw)
            part.outcomes[outcome] += 1
            # the same APDU again (a repetition on the bus, the L_Data.con echo of a frame): the verdict is a function of the octets,
            # not of what was decoded before - the enumeration order makes every kind of APDU follow every other kind
            again, val2 = decode(raw)
            if again != outcome or (outcome == "object" and (type(val2) is not type(val) or not same_pdu(val, val2))):
                part.viol(f"verdict-depends-on-history:{outcome}-then-{again}", f"APCI.from_knx({raw.hex()}) gave {outcome} ({val!r}) and, asked again at once, {again} ({val2!r})", raw, rank=(len(raw), raw))
            if outcome == "escape":
                part.viol(exc_sig("escape", val), f"APCI.from_knx({raw.hex()}) raised {val!r}", raw, rank=(len(raw), raw))
            if len(raw) >= 2:
                code = code_of(raw)
                if outcome == "object":
                    part.nontrivial += 1
                    if code not in accepted or len(raw) < len(accepted[code]):
                        accepted[code] = raw
                elif outcome == "unsupported":
                    if code not in unsupported or len(raw) < len(unsupported[code]):
                        unsupported[code] = raw
    except _Timeout:
        part.viol(f"no-termination:{code_of(raw) if len(raw) >= 2 else -1:#05x}", f"decoding stalled at {raw.hex()} (budget {budget_s}s for the unit)", raw, rank=(len(raw), raw))
    finally:
        signal.setitimer(signal.ITIMER_REAL, 0)
    for code in sorted(set(accepted) & set(unsupported)):
        cls = type(APCI.from_knx(accepted[code])).__name__
        part.viol(f"recognised-service-reported-unsupported:{cls}", f"code {code:#05x} decodes {accepted[code].hex()} to {cls} but answers UnsupportedAPCIService for {unsupported[code].hex()}",
                  unsupported[code], rank=(len(unsupported[code]), unsupported[code]))


def w_struct(code_lo: int, code_hi: int, seed: int, thorough: bool) -> Part:
    part = Part()
    for code in range(code_lo, code_hi):
        run_space(struct_space(code, seed, thorough), part, 120)
    part.sample(bytes((code_lo >> 8, code_lo & 0xFF, 1, 2, 3)))
    return part


def w_short(first: int, thorough: bool) -> Part:
    part = Part()
    run_space(short_space(first, thorough), part, 300)
    return part


def run(ctx: Ctx) -> None:
    ctx.rule = (
        "every APDU is decoded twice in a row (same verdict and object, whatever was decoded before); APCI.from_knx on: all APDUs of length 0..2 and of length 3 (quick: 8 third-octet values, thorough: all 16.8M); struct-space: all 1024 APCI codes x TPCI bits {00,FC} x every length "
        "2..40 and {48,64,128,254,255} x fills {00,FF,01 02 03..,seed} x count octet 0..7 in the first/second body octet. Oracle: object, ConversionError or UnsupportedAPCIService, "
        "no hang; a 10-bit code that decodes to an object for any APDU in the space must never answer 'unsupported'. non-trivial = decoded to an object"
    )
    ctx.bounds = {"codes": 1024, "lengths": "2..40,48,64,128,254,255", "short_third_octets": 256 if ctx.thorough else 8}
    step = 8
    ctx.pmap(w_struct, [(c, c + step, ctx.seed, ctx.thorough) for c in range(0, 1024, step)])
    ctx.pmap(w_short, [(f, ctx.thorough) for f in range(256)])


def replay(case: Any) -> list[tuple[str, str]]:
    raw = bytes(case)
    outcome, val = decode(raw)
    if outcome == "escape":
        return [(exc_sig("escape", val), repr(val))]
    if outcome == "unsupported" and len(raw) >= 2:
        # is the code recognised for some other APDU of the struct space?
        part = Part()
        run_space(struct_space(code_of(raw), 0, False), part, 120)
        run_space(iter([raw]), part, 10)
        return [(s, v[1]) for s, v in part.viols.items()]
    return []
