"""C03 Transport-layer control octets decode only to PDUs that re-encode to them."""

from __future__ import annotations

from ..vloop import texc

from typing import Any

from xknx.exceptions import ConversionError
from xknx.telegram import tpci as T

from ..runner import Ctx, Part, exc_sig

TITLE = "TPCI"
DESTS = {"individual": (False, False), "group": (True, False), "broadcast": (True, True)}


def reference(octet: int, dest: str) -> tuple[str, int] | None:
    """TPDU table of KNX Transport Layer 03.03.04 §2: (PDU name, sequence number) or None if undefined."""
    seq = octet >> 2 & 0xF
    top = octet >> 6
    if dest in ("group", "broadcast"):
        if top == 0 and seq == 0:
            return ("TDataBroadcast" if dest == "broadcast" else "TDataGroup", 0)
        if top == 0 and seq == 1:
            return ("TDataTagGroup", 1)
        return None
    if top == 0:
        return ("TDataIndividual", 0) if seq == 0 else None
    if top == 1:
        return ("TDataConnected", seq)
    if top == 2:
        if octet == 0x80:
            return ("TConnect", 0)
        if octet == 0x81:
            return ("TDisconnect", 0)
        return None
    if octet & 3 == 2:
        return ("TAck", seq)
    if octet & 3 == 3:
        return ("TNak", seq)
    return None


def check_octet(octet: int, dest: str) -> tuple[str, list[tuple[str, str]]]:
    grp, zero = DESTS[dest]
    ref = reference(octet, dest)
    try:
        pdu = T.TPCI.resolve(octet, dst_is_group_address=grp, dst_is_zero=zero)
    except ConversionError:
        if ref is not None:
            return "rejected", [(f"defined-octet-rejected:{ref[0]}", f"octet {octet:#04x} ({dest}) is {ref} but was rejected")]
        return "rejected", []
    except Exception as exc:  # noqa: BLE001
        return "escape", [(exc_sig("resolve-escape", exc), f"octet {octet:#04x} ({dest}): {exc!r}")]
    viols = []
    mask = 0xFF if octet & 0x80 else 0xFC
    name = type(pdu).__name__
    if pdu.to_knx() != octet & mask:
        viols.append((f"reencode-differs:{name}", f"octet {octet:#04x} ({dest}) -> {pdu!r} -> {pdu.to_knx():#04x} (compared on mask {mask:#04x})"))
    if ref is None:
        viols.append((f"undefined-octet-accepted:{name}", f"octet {octet:#04x} ({dest}) is undefined in the TPDU table but was read as {pdu!r}"))
    elif (name, pdu.sequence_number) != ref:
        viols.append((f"wrong-pdu:{name}", f"octet {octet:#04x} ({dest}) -> {pdu!r}, reference {ref}"))
    return "pdu", viols


def pdus() -> list[tuple[Any, list[str]]]:
    out: list[tuple[Any, list[str]]] = [
        (T.TDataGroup(), ["group"]),
        (T.TDataBroadcast(), ["broadcast"]),
        (T.TDataTagGroup(), ["group", "broadcast"]),
        (T.TDataIndividual(), ["individual"]),
        (T.TConnect(), ["individual"]),
        (T.TDisconnect(), ["individual"]),
    ]
    for s in range(16):
        out += [(T.TDataConnected(s), ["individual"]), (T.TAck(s), ["individual"]), (T.TNak(s), ["individual"])]
    # numbers the 4-bit field cannot carry: the constructors accept them, so the encoder has to refuse them
    for s in (-1, 16, 17, 31, 64, 255, 256):
        out += [(T.TDataConnected(s), ["individual"]), (T.TAck(s), ["individual"]), (T.TNak(s), ["individual"])]
    return out


def check_pdu(pdu: Any, dest: str) -> list[tuple[str, str]]:
    grp, zero = DESTS[dest]
    name = type(pdu).__name__
    try:
        octet = pdu.to_knx()
    except Exception as exc:  # noqa: BLE001
        if not 0 <= pdu.sequence_number <= 15:
            return []  # refused: an unrepresentable number is not silently altered
        return [(exc_sig(f"encoder-refuses-valid-pdu:{name}", exc), f"{pdu!r} ({dest}): {exc!r}")]
    try:
        back = T.TPCI.resolve(octet, dst_is_group_address=grp, dst_is_zero=zero)
    except Exception as exc:  # noqa: BLE001
        return [(exc_sig(f"own-octet-rejected:{name}", exc), f"{pdu!r} ({dest}): {exc!r}")]
    if type(back) is not type(pdu) or back != pdu or back.sequence_number != pdu.sequence_number:
        return [(f"encode-decode-differs:{name}", f"{pdu!r} ({dest}) -> {octet:#04x} -> {back!r}")]
    return []


def library_built_pdus(part: Part) -> None:
    """PDUs the library builds itself on a point-to-point connection (connect, 40 numbered data frames, the T_ACKs for 40
    received responses, disconnect): each must serialise inside its cEMI frame and parse back to the same PDU."""
    from xknx.cemi import CEMIFrame, CEMILData, CEMIMessageCode
    from xknx.telegram import IndividualAddress, apci

    from ..sim.bus import BusWorld, Device

    dev = Device("dev", "1.1.5", False, "normal")
    with BusWorld([dev]) as w:
        async def user() -> None:
            async with w.xknx.management.connection(IndividualAddress("1.1.5")) as conn:
                for _ in range(40):
                    await conn.request(payload=apci.DeviceDescriptorRead(descriptor=0))

        t = w.spawn(user(), name="harness-user")
        w.loop.run_until(w.loop.time() + 600)
        if not t.done() or texc(t) is not None:
            part.viol("library-built-pdu:connection-fails", f"40 requests on one connection: {texc(t) if t.done() else 'not finished'!r}; sent {[repr(tg.tpci) for _t, tg in w.sent][-6:]}", {"library": True})
        kinds = set()
        for _t, tg in w.sent:
            part.evaluations += 1
            part.nontrivial += 1
            kinds.add(type(tg.tpci).__name__)
            try:
                raw = CEMIFrame(code=CEMIMessageCode.L_DATA_REQ, data=CEMILData.init_from_telegram(tg, src_addr=IndividualAddress("1.1.250"))).to_knx()
                back = CEMIFrame.from_knx(raw).data.tpci  # type: ignore[union-attr]
            except Exception as exc:  # noqa: BLE001
                part.viol(exc_sig("library-built-pdu-does-not-encode", exc), f"{tg.tpci!r}: {exc!r}", {"library": True})
                continue
            if type(back) is not type(tg.tpci) or back.sequence_number != tg.tpci.sequence_number:
                part.viol(f"library-built-pdu-changes:{type(tg.tpci).__name__}", f"{tg.tpci!r} -> {raw.hex()} -> {back!r}", {"library": True})
        if not {"TConnect", "TDataConnected", "TAck", "TDisconnect"} <= kinds:
            part.viol("harness:library-pdus-incomplete", f"{kinds}", {"library": True})


def through_cemi(part: Part) -> None:
    """Every constructible PDU x admissible destination inside a cEMI L_Data frame built by the library's serialiser: the
    control octet carries the PDU's transport bits and the frame parses back to the same PDU - for every ORDERED PAIR of
    PDUs serialised one after the other with the same application payload (a serialiser that keeps state between frames,
    or drops the bits of one PDU kind, shows here)."""
    from xknx.cemi import CEMIFrame, CEMILData, CEMIMessageCode
    from xknx.dpt import DPTBinary
    from xknx.telegram import GroupAddress, IndividualAddress, Telegram, apci

    dst = {"group": GroupAddress("1/2/3"), "broadcast": GroupAddress(0), "individual": IndividualAddress("1.1.5")}
    payloads = {"group": [lambda: apci.GroupValueRead(), lambda: apci.GroupValueWrite(DPTBinary(1))], "broadcast": [lambda: apci.IndividualAddressRead()],
                "individual": [lambda: apci.DeviceDescriptorRead(descriptor=0), lambda: apci.MemoryRead(address=0x10, count=1)]}
    cases = [(p, d) for p, ds in pdus() for d in ds if 0 <= p.sequence_number <= 15]

    def one(pdu: Any, dest: str, mk: Any) -> tuple[bytes, Any]:
        payload = mk() if isinstance(pdu, T.TDataGroup | T.TDataBroadcast | T.TDataTagGroup | T.TDataIndividual | T.TDataConnected) else None
        tg = Telegram(destination_address=dst[dest], tpci=pdu, payload=payload)
        raw = CEMIFrame(code=CEMIMessageCode.L_DATA_REQ, data=CEMILData.init_from_telegram(tg, src_addr=IndividualAddress("1.1.250"))).to_knx()
        return raw, CEMIFrame.from_knx(raw).data.tpci  # type: ignore[union-attr]

    for (p1, d1) in cases:
        for (p2, d2) in cases:
            if d1 != d2:
                continue
            for k, mk in enumerate(payloads[d2]):
                part.evaluations += 1
                part.nontrivial += 1
                name = type(p2).__name__
                case = {"cemi": [type(p1).__name__, p1.sequence_number, name, p2.sequence_number, d2, k]}
                try:
                    one(p1, d1, mk)
                    raw, back = one(p2, d2, mk)
                except Exception as exc:  # noqa: BLE001
                    part.viol(exc_sig(f"cemi-serialiser-refuses:{name}", exc), f"{p1!r} then {p2!r} ({d2}): {exc!r}", case)
                    continue
                octet = raw[9]  # message code, add.info length (0), ctrl1, ctrl2, src(2), dst(2), length, then the TPCI/APCI octet
                mask = 0xFF if octet & 0x80 else 0xFC
                if octet & mask != p2.to_knx():
                    part.viol(f"cemi-control-octet-differs:{name}", f"{p1!r} then {p2!r} ({d2}): frame {raw.hex()} carries transport bits {octet & mask:#04x}, the PDU encodes to {p2.to_knx():#04x}", case)
                elif type(back) is not type(p2) or back.sequence_number != p2.sequence_number:
                    part.viol(f"cemi-round-trip-changes:{name}", f"{p1!r} then {p2!r} ({d2}) -> {raw.hex()} -> {back!r}", case)


def run(ctx: Ctx) -> None:
    part = Part()
    library_built_pdus(part)
    through_cemi(part)
    for dest in DESTS:
        for octet in range(256):
            part.evaluations += 1
            outcome, viols = check_octet(octet, dest)
            part.outcomes[outcome] += 1
            if outcome != "rejected":
                part.nontrivial += 1
            for sig, detail in viols:
                part.viol(sig, detail, {"octet": octet, "dest": dest}, rank=(octet,))
    known = {n for n in dir(T) if isinstance(getattr(T, n), type) and issubclass(getattr(T, n), T.TPCI) and getattr(T, n) is not T.TPCI}
    built = {type(p).__name__ for p, _ in pdus()}
    if known != built:
        part.viol("harness:pdu-classes", f"TPCI classes not covered: {sorted(known - built)}", None)
    for pdu, dests in pdus():
        for dest in dests:
            part.evaluations += 1
            part.nontrivial += 1
            for sig, detail in check_pdu(pdu, dest):
                part.viol(sig, detail, {"pdu": type(pdu).__name__, "seq": pdu.sequence_number, "dest": dest})
    part.sample({"octet": 0x82, "dest": "individual"})
    part.sample({"pdu": "TAck", "seq": 15, "dest": "individual"})
    ctx.merge(part)
    ctx.rule = ("complete: all 256 octets x {individual, group, broadcast} through TPCI.resolve against the TPDU table of Transport Layer 2 (written in the harness), "
                "re-encoding compared on the transport bits (0xFC data / 0xFF control); every constructible PDU x sequence 0..15 x admissible destination encode->resolve; numbered PDUs with sequence numbers -1, 16, 17, 31, 64, 255, 256 must be refused by the encoder or survive the round trip; the PDUs the library builds itself on a management connection (connect, 40 numbered requests, 40 T_ACKs, disconnect) serialise and parse back equal; every ordered pair of constructible PDUs (same destination kind, 1-2 application payloads) serialised one after the other through CEMILData.to_knx: control octet = the PDU's transport bits, frame parses back to the PDU. "
                "non-trivial = octets that were not rejected + all PDU cases")


def replay(case: Any) -> list[tuple[str, str]]:
    if case and case.get("cemi"):
        p = Part()
        through_cemi(p)
        return [(sg, v[1]) for sg, v in p.viols.items()]
    if case and case.get("library"):
        p = Part()
        library_built_pdus(p)
        return [(sg, v[1]) for sg, v in p.viols.items()]
    if "octet" in case:
        return check_octet(case["octet"], case["dest"])[1]
    for pdu, dests in pdus():
        if type(pdu).__name__ == case["pdu"] and pdu.sequence_number == case["seq"]:
            return check_pdu(pdu, case["dest"])
    return []
