"""C41 Exposed values respect cooldown and always end up on the bus."""

from __future__ import annotations

from ..vloop import texc

import itertools
from typing import Any

from xknx.devices import ExposeSensor
from xknx.dpt import DPTArray, DPTBinary
from xknx.telegram import GroupAddress, IndividualAddress, Telegram, TelegramDirection
from xknx.telegram.apci import GroupValueRead, GroupValueResponse, GroupValueWrite

from ..runner import Ctx, Part, exc_sig
from ..sim.core import CoreWorld

TITLE = "expose sensor"
GA = "1/1/1"
# (cooldown, periodic_send, value_type)
# (cooldown, periodic_send, value type[, respond_to_read])
CONFIGS: list[tuple[Any, ...]] = [(10, 0, "percentU8"), (10, 30, "percentU8"), (0, 30, "percentU8"), (0, 0, "percentU8"), (10, 0, "binary"), (10, 30, "binary"),
                                  (10, 0, "percentU8", False), (10, 5, "percentU8")]
EVENTS = ["set:A", "set:B", "set:A:skip", "set:B:skip", "read", "init:B", "in-write:A", "DISCONNECT", "CONNECT", "+1", "+5", "+10", "+30", "in-write:undecodable"]
COARSE = ["set:A", "set:B", "+1", "+10"]
HORIZON = 45.0
T0 = 1000.0


def val(cfg: tuple[Any, ...], name: str) -> Any:
    if cfg[2] == "binary":
        return name == "A"
    return 10 if name == "A" else 20


def payload_of(cfg: tuple[Any, ...], name: str) -> Any:
    if cfg[2] == "binary":
        return DPTBinary(1 if name == "A" else 0)
    return DPTArray((10 if name == "A" else 20,))


STATES: set[Any] = set()


def run_case(ci: int, seq: tuple[int, ...]) -> list[tuple[str, str]]:
    cfg = CONFIGS[ci]
    cd, per, vt = cfg[:3]
    respond = cfg[3] if len(cfg) > 3 else True
    viols: list[tuple[str, str]] = []
    with CoreWorld(t0=T0, rate_limit=0) as w:
        xknx, loop = w.xknx, w.loop
        dev = ExposeSensor(xknx, "expose", group_address=GA, value_type=vt, cooldown=cd, periodic_send=per, respond_to_read=respond)
        xknx.devices.async_add(dev)
        w.start(connected=True)
        names = {repr(payload_of(cfg, "A")): "A", repr(payload_of(cfg, "B")): "B"}
        # log entries in causal order: (time, kind, value name)
        #   kinds: out-write, out-response (seen at the interface), set / set-skipped / init / read / in-write (harness events), connect, disconnect
        log: list[tuple[float, str, str]] = [(T0, "connect", "")]

        def on_send(tg: Telegram) -> None:
            if tg.destination_address == GroupAddress(GA) and isinstance(tg.payload, GroupValueWrite | GroupValueResponse):
                log.append((loop.time(), "out-write" if isinstance(tg.payload, GroupValueWrite) else "out-response", names.get(repr(tg.payload.value), "?")))

        w.iface.on_send = on_send
        trace: list[str] = []
        last_set: str | None = None  # most recent value given to set()/initialize_value()
        connected = True
        for ei in seq:
            ev = EVENTS[ei]
            trace.append(ev)
            try:
                if ev.startswith("set:"):
                    _s, name, *skip = ev.split(":")
                    effective = not (skip and last_set == name)
                    log.append((loop.time(), "set" if effective else "set-skipped", name))
                    last_set = name
                    t = w.spawn(dev.set(val(cfg, name), skip_unchanged=bool(skip)), name="harness-user")
                    loop.settle()
                    if t.done() and texc(t) is not None:
                        viols.append((exc_sig("set-raises", texc(t)), f"{texc(t)!r}; trace={trace}"))  # type: ignore[arg-type]
                elif ev == "init:B":
                    log.append((loop.time(), "init", "B"))
                    last_set = "B"
                    dev.initialize_value(val(cfg, "B"))
                elif ev == "read":
                    log.append((loop.time(), "read", last_set or ""))
                    xknx.telegrams.put_nowait(Telegram(GroupAddress(GA), payload=GroupValueRead(), source_address=IndividualAddress("1.1.9"), direction=TelegramDirection.INCOMING))
                elif ev == "in-write:A":
                    log.append((loop.time(), "in-write", "A"))
                    xknx.telegrams.put_nowait(Telegram(GroupAddress(GA), payload=GroupValueWrite(payload_of(cfg, "A")), source_address=IndividualAddress("1.1.9"), direction=TelegramDirection.INCOMING))
                elif ev == "in-write:undecodable":
                    # a frame on the address that the sensor's type cannot decode (three octets): it carries no value and changes nothing
                    log.append((loop.time(), "in-garbage", ""))
                    xknx.telegrams.put_nowait(Telegram(GroupAddress(GA), payload=GroupValueWrite(DPTArray((1, 2, 3))), source_address=IndividualAddress("1.1.9"), direction=TelegramDirection.INCOMING))
                elif ev == "DISCONNECT":
                    if connected:
                        log.append((loop.time(), "disconnect", ""))
                    connected = False
                    w.disconnect()
                elif ev == "CONNECT":
                    if not connected:
                        log.append((loop.time(), "connect", ""))
                    connected = True
                    w.connect()
                else:
                    w.run(float(ev))
            except Exception as exc:  # noqa: BLE001
                viols.append((exc_sig(f"call-raises:{ev.split(':')[0]}", exc), f"{exc!r}; trace={trace}"))
                break
            loop.settle()
            STATES.add((ci, connected, repr(dev.sensor_value.last_payload), repr(dev._payload_after_cooldown), last_set, loop.timer_profile()))  # noqa: SLF001
        end_events = loop.time()
        w.run(HORIZON)
        viols += check_log(cfg, log, end_events, loop.time(), trace)
        for name, exc in w.task_escapes():
            viols.append((exc_sig("task-exception", exc), f"{name}: {exc!r}; trace={trace}"))
        for c in loop.exceptions:
            viols.append((f"loop-exception:{type(c.get('exception')).__name__}", f"{c.get('message')} {c.get('exception')!r}; trace={trace}"))
    seen: set[str] = set()
    return [(s, d) for s, d in viols if not (s in seen or seen.add(s))]


def check_log(cfg: tuple[Any, ...], log: list[tuple[float, str, str]], end_events: float, end: float, trace: list[str]) -> list[tuple[str, str]]:
    cd, per, _vt = cfg[:3]
    respond = cfg[3] if len(cfg) > 3 else True
    viols: list[tuple[str, str]] = []
    ctx = f"config=(cooldown={cd}, periodic={per}, {cfg[2]}, respond_to_read={respond}) trace={trace} log={[(round(t - T0, 3), k, n) for t, k, n in log]}"

    def connected_throughout(a: float, b: float) -> bool:
        conn = False
        for t, k, _n in log:
            if t > b:
                break
            if k == "connect":
                conn = True
            elif k == "disconnect":
                if t >= a or not conn:
                    pass
                conn = False
                if t >= a:
                    return False
        # state at a
        conn = False
        for t, k, _n in log:
            if t > a:
                break
            if k == "connect":
                conn = True
            elif k == "disconnect":
                conn = False
        return conn

    # ---- (1) update-caused value telegrams are at least the cooldown apart
    outs = [(i, t, k, n) for i, (t, k, n) in enumerate(log) if k.startswith("out-")]
    restarts = [T0] + [t for t, k, _n in log if k == "connect"]

    def maybe_periodic(i: int, t: float) -> bool:
        if not per:
            return False
        prev_out = [tt for j, tt, _k, _n in outs if j < i]
        anchors = restarts + prev_out[-1:]
        return any(abs(t - per - a) < 1e-9 for a in anchors)

    upd_writes = [(i, t, n) for i, t, k, n in outs if k == "out-write" and not maybe_periodic(i, t)]
    for (i1, t1, n1), (i2, t2, n2) in zip(upd_writes, upd_writes[1:]):
        if cd and t2 - t1 < cd - 1e-9:
            viols.append(("value-telegrams-closer-than-cooldown", f"writes {n1}@t+{t1 - T0} and {n2}@t+{t2 - T0} are {t2 - t1:.3f}s apart (cooldown {cd}); {ctx}"))
            break
    # ---- (2) the most recently set value reaches the bus within one cooldown of the last update
    sets = [(i, t, n) for i, (t, k, n) in enumerate(log) if k == "set"]
    for idx, (i, t, n) in enumerate(sets):
        deadline = t + cd
        if deadline > end - 1e-9:
            continue
        # superseded by a later update (set or initialize) inside the window?
        later = [(j, tt, kk) for j, (tt, kk, _nn) in enumerate(log) if j > i and kk in ("set", "init", "set-skipped") and tt <= deadline + 1e-9]
        if any(kk in ("set", "init") for _j, _tt, kk in later):
            continue
        if not connected_throughout(t, deadline):
            continue
        # satisfied if at some moment of [t, t + cooldown] the value last on the bus is the set value: it already was at the time
        # of the set ("unless it equals the value last on the bus"), or a telegram carrying it was sent in the window
        sent = any(j > i and (k.startswith("out-") or k == "in-write") and nn == n and tt <= deadline + 1e-9 for j, (tt, k, nn) in enumerate(log))
        # initialize_value() is documented as "treated as if it had been sent", so it counts as the value last on the bus
        bus = [nn for j, (tt, k, nn) in enumerate(log) if j < i and (k.startswith("out-") or k in ("in-write", "init"))]
        if not sent and not (bus and bus[-1] == n):
            viols.append(("set-value-not-on-bus-within-cooldown", f"set({n}) at t+{t - T0}: not sent by t+{deadline - T0} and the value last on the bus is {bus[-1] if bus else None}; {ctx}"))
            break
    # ---- (3) reads are answered, at once, with the most recent value
    for i, (t, k, n) in enumerate(log):
        if k != "read":
            continue
        nxt = next((j for j in range(i + 1, len(log)) if not log[j][1].startswith("out-")), len(log))  # every event is settled before the next
        answers = [(tt, nn) for (tt, kk, nn) in log[i + 1 : nxt] if kk == "out-response" and abs(tt - t) < 1e-9]
        # a foreign write to the address after the last set/initialize is a more recent value on the bus, but not one the
        # application set: either is accepted as "the most recent value" (and with no set at all, so is silence)
        prior = [(kk, nn) for (tt, kk, nn) in log[:i] if kk in ("set", "set-skipped", "init", "in-write")]
        ok = {n} if n else set()
        if prior and prior[-1][0] == "in-write":
            ok.add(prior[-1][1])
        if not respond:
            # respond_to_read=False: reads are not this sensor's business - no answer (and, clause 2, no effect on what is sent when)
            if answers:
                viols.append(("read-answered-although-respond_to_read-is-off", f"read at t+{t - T0}: {answers}; {ctx}"))
            continue
        if not ok:
            if answers:
                viols.append(("read-answered-without-a-value", f"read at t+{t - T0}: {answers}; {ctx}"))
            continue
        if not answers:
            if n:
                viols.append(("read-not-answered", f"read at t+{t - T0}, most recent value {n}; {ctx}"))
        elif answers[0][1] not in ok:
            viols.append(("read-answered-with-stale-value", f"read at t+{t - T0} answered {answers[0][1]}, most recent value {sorted(ok)}; {ctx}"))
    # ---- (4) skip_unchanged on a differing value behaves like a plain set: it is in `sets` above; an ignored one must not send by itself
    return viols


def sequences(depth: int) -> list[tuple[int, ...]]:
    out = []
    for n in range(1, depth + 1):
        for seq in itertools.product(range(len(EVENTS)), repeat=n):
            names = [EVENTS[e] for e in seq]
            if names[0].startswith("+") or names[0] == "CONNECT":
                continue
            out.append(seq)
    return out


def worker(k: int, n: int, depth: int) -> Part:
    import logging

    logging.disable(logging.CRITICAL)
    part = Part()
    seqs = sequences(depth)
    i = 0
    for ci in range(len(CONFIGS)):
        for seq in seqs:
            i += 1
            if i % n != k:
                continue
            viols = run_case(ci, seq)
            part.evaluations += 1
            part.traces += 1
            part.transitions += len(seq)
            if len(seq) > 1:
                part.nontrivial += 1
            part.outcomes[f"cfg{ci}:" + ("violating" if viols else "ok")] += 1
            for s, d in viols:
                part.viol(s, d, [ci, list(seq)], rank=(len(seq), ci, seq))
            if part.evaluations <= 2:
                part.sample([ci, [EVENTS[e] for e in seq]])
    # long histories over a coarse alphabet: a fault that needs an idle cooldown end, a deferred value and two more sets in a row
    # is out of reach of depth 4/5 over the full alphabet
    coarse = [EVENTS.index(e) for e in COARSE]
    cdepth = depth + (4 if depth <= 4 else 4)
    j = 0
    for ci, cfg in enumerate(CONFIGS):
        if not cfg[0]:
            continue   # (cooldown configurations)
        for nn in range(depth + 1, cdepth + 1):
            for seq in itertools.product(coarse, repeat=nn):
                if EVENTS[seq[0]].startswith("+"):
                    continue
                j += 1
                if j % n != k:
                    continue
                viols = run_case(ci, seq)
                part.evaluations += 1
                part.traces += 1
                part.transitions += len(seq)
                part.nontrivial += 1
                part.outcomes[f"cfg{ci}:" + ("violating" if viols else "ok")] += 1
                for s, d in viols:
                    part.viol(s, d, [ci, list(seq)], rank=(len(seq), ci, seq))
    for k_ in STATES:
        part.state(k_)
    STATES.clear()
    return part


def run(ctx: Ctx) -> None:
    depth = (5 if ctx.thorough else 4) + int(__import__("os").environ.get("VF_DEEPER", 0))
    ctx.rule = (
        f"real ExposeSensor + TaskRegistry + TelegramQueue on the virtual loop, {len(CONFIGS)} configurations (cooldown, periodic_send, type) {CONFIGS}: ALL event sequences of length <= {depth} over {EVENTS} "
        f"(set / set with skip_unchanged of two values, GroupValueRead, initialize_value, a foreign write to the address, connection changes, time), then {HORIZON} s of timers. The interface log of value "
        "telegrams and responses is checked against the statement: update-caused writes >= cooldown apart (writes exactly one period after the previous telegram/(re)connection are attributed to periodic sending); "
        "every effective set that is not superseded within the cooldown has its value on the bus by set time + cooldown (sent in that window, or it is the value last on the bus), while connected; every read is "
        "answered at once with the most recent value; set(skip_unchanged) of a differing value counts as an effective set. "
        f"Plus, for the configurations with a cooldown, ALL sequences of length {depth + 1}..{depth + 4} over the coarse alphabet {COARSE}."
    )
    ctx.bounds = {"depth": depth, "configs": len(CONFIGS), "sequences": len(sequences(depth))}
    ctx.pmap(worker, [(k, 128, depth) for k in range(128)])


def replay(case: Any) -> list[tuple[str, str]]:
    ci, seq = case
    return run_case(ci, tuple(seq))
