"""C19 Data Secure output conforms to the KNX CCM construction."""

from __future__ import annotations

import itertools
from typing import Any

from xknx.cemi.flags import CEMIAddressType, CEMIFrameFormat
from xknx.secure.data_secure_asdu import SecureData, SecurityALService, SecurityAlgorithmIdentifier, SecurityControlField
from xknx.telegram import tpci as T

from ..ref import ccm
from ..runner import Ctx, Part, exc_sig, seed_bytes

TITLE = "Data Secure CCM conformance"

TPCIS = [("group", T.TDataGroup()), ("tag", T.TDataTagGroup()), ("individual", T.TDataIndividual()), ("connected0", T.TDataConnected(0)), ("connected15", T.TDataConnected(15))]


def scfs() -> list[SecurityControlField]:
    return [SecurityControlField(tool_access=t, algorithm=a, system_broadcast=s, service=v)
            for t in (False, True) for a in SecurityAlgorithmIdentifier for s in (False, True) for v in SecurityALService]


def keys(seed: int, thorough: bool) -> list[bytes]:
    ks = [bytes(range(16)), seed_bytes(seed, 16, 41)]
    if thorough:
        ks += [bytes(16), b"\xff" * 16]
    return ks


def addr_fields(thorough: bool) -> list[tuple[int, int]]:
    af = [(0x1101, 0x0901), (0xFFFF, 0xFFFF)]
    if thorough:
        af += [(0x0001, 0x0001), (0x4009, 0x0400)]
    return af


def seqs(seed: int, thorough: bool) -> list[int]:
    s = [1, 2**48 - 1]
    if thorough:
        s += [2**32 - 1, int.from_bytes(seed_bytes(seed, 6, 42), "big")]
    return s


def lengths(thorough: bool) -> list[int]:
    return list(range(0, 241)) if thorough else [0, 1, 2, 11, 12, 13, 14, 15, 16, 17, 27, 28, 29, 31, 32, 33, 240]


def apdu_of(n: int, seed: int) -> bytes:
    return bytes((i * 37 + 11 + seed) & 0xFF for i in range(n))


def check_one(key: bytes, sa: int, da: int, at: CEMIAddressType, eff: CEMIFrameFormat, tp: Any, seq: int, scf: SecurityControlField, apdu: bytes) -> tuple[str, list[tuple[str, str]]]:
    what = f"key={key.hex()} sa={sa:#06x} da={da:#06x} at={at.name} eff={int(eff)} tpci={tp!r} seq={seq} scf={scf.to_knx()[0]:#04x} apdu[{len(apdu)}]"
    encrypt = scf.algorithm is SecurityAlgorithmIdentifier.CCM_ENCRYPTION
    ref = ccm.data_secure_asdu(key, scf.to_knx()[0], seq, sa, da, at is CEMIAddressType.GROUP, int(eff), tp.to_knx(), apdu, encrypt)
    afr = sa.to_bytes(2, "big") + da.to_bytes(2, "big")
    try:
        got = SecureData.init_from_plain_apdu(key=key, apdu=apdu, scf=scf, sequence_number=seq, address_fields_raw=afr, address_type=at, frame_format=eff, tpci=tp).to_knx()
    except Exception as exc:  # noqa: BLE001
        return "raised", [(exc_sig(f"secure-raises:tpci={tp.to_knx():#04x}", exc), f"{what}: {exc!r}")]
    viols = []
    alg = "encryption" if encrypt else "authentication-only"
    if got != ref:
        part = "sequence" if got[:6] != ref[:6] else "mac" if got[6:-4] == ref[6:-4] else "ciphertext" if got[-4:] == ref[-4:] else "ciphertext+mac"
        viols.append((f"differs-from-reference:{alg}:{part}:tpci={tp.to_knx():#04x}", f"{what}: xknx {got.hex()} reference {ref.hex()}"))
    # the receiving side accepts the reference's output and returns the plain APDU
    try:
        sd = SecureData.from_knx(ref)
        plain = sd.get_plain_apdu(key=key, scf=scf, address_fields_raw=afr, address_type=at, frame_format=eff, tpci=tp)
        if bytes(plain) != apdu:
            viols.append((f"reference-frame-decrypts-wrong:{alg}:tpci={tp.to_knx():#04x}", f"{what}: {bytes(plain).hex()} != {apdu.hex()}"))
    except Exception as exc:  # noqa: BLE001
        viols.append((exc_sig(f"reference-frame-rejected:{alg}:tpci={tp.to_knx():#04x}", exc), f"{what}: {exc!r}"))
    return ("ok" if not viols else "bad"), viols


def worker(ki: int, tpi: int, seed: int, thorough: bool) -> Part:
    part = Part()
    key = keys(seed, thorough)[ki]
    tname, tp = TPCIS[tpi]
    first = True
    for (sa, da), at, eff, seq, scf, n in itertools.product(addr_fields(thorough), CEMIAddressType, (CEMIFrameFormat.STANDARD, CEMIFrameFormat.LTE_HEE), seqs(seed, thorough), scfs(), lengths(thorough)):
        apdu = apdu_of(n, seed)
        part.evaluations += 1
        part.nontrivial += 1
        outcome, viols = check_one(key, sa, da, at, eff, tp, seq, scf, apdu)
        part.outcomes[outcome] += 1
        for sig, detail in viols:
            part.viol(sig, detail, {"key": key, "sa": sa, "da": da, "at": int(at), "eff": int(eff), "tpci": tpi, "seq": seq, "scf": scf.to_knx()[0], "apdu": apdu}, rank=(n,))
        if first:
            first = False
            part.sample({"key": key, "sa": sa, "da": da, "tpci": tname, "seq": seq, "scf": scf.to_knx()[0], "apdu_len": n})
    return part


def w_frames(seed: int, thorough: bool) -> Part:
    """The sender path as a whole: DataSecure.outgoing_cemi -> CEMIFrame.to_knx; the secured APDU on the WIRE is compared with the
    reference computed from the fields that are on the wire (addresses, AT, EFF of Ctrl2, TPCI octet, SCF, sequence number)."""
    from xknx.cemi import CEMIFrame, CEMILData, CEMIMessageCode
    from xknx.cemi.flags import CEMIFlags, CEMIFrameType, CEMIPriority
    from xknx.dpt import DPTArray
    from xknx.secure.data_secure import DataSecure
    from xknx.telegram import GroupAddress, IndividualAddress
    from xknx.telegram.apci import GroupValueWrite

    part = Part()
    for key in keys(seed, thorough):
        # ONE DataSecure instance per key for all frames below (as in a running system): what it sends for one frame must not depend
        # on the frames before it - other sources (a tunnel that was given another address), other groups, other flags
        ds = DataSecure(group_key_table={GroupAddress(g): key for g in (0x0901, 0xFFFF)}, individual_address_table={}, last_sequence_number_sending=5)
        for ga in (0x0901, 0xFFFF):
            for src in (0x1101, 0xFFFE):
                for tp in (T.TDataGroup(), T.TDataTagGroup()):
                    for eff in (CEMIFrameFormat.STANDARD, CEMIFrameFormat.LTE_HEE):
                        for ft in (CEMIFrameType.STANDARD, CEMIFrameType.EXTENDED):
                            for hop, prio in ((6, CEMIPriority.LOW), (0, CEMIPriority.SYSTEM)):
                                for n in (1, 2, 9, 10, 40, 200):
                                    for seq0 in (5, 2**47):
                                        part.evaluations += 1
                                        ds._sequence_number_sending = seq0  # noqa: SLF001
                                        data = CEMILData(flags=CEMIFlags(priority=prio, hop_count=hop, frame_type=ft, frame_format=eff), src_addr=IndividualAddress(src), dst_addr=GroupAddress(ga), tpci=tp,
                                                         payload=GroupValueWrite(DPTArray(apdu_of(n, seed))))
                                        case = {"frames": True, "key": key, "ga": ga, "src": src, "tag": isinstance(tp, T.TDataTagGroup), "eff": int(eff), "ft": ft.name, "hop": hop, "n": n, "seq0": seq0}
                                        try:
                                            sec = ds.outgoing_cemi(data)
                                            raw = CEMIFrame(code=CEMIMessageCode.L_DATA_REQ, data=sec).to_knx()
                                        except Exception as exc:  # noqa: BLE001
                                            if isinstance(tp, T.TDataTagGroup):
                                                part.outcomes["tag-group-known-finding"] += 1
                                                continue  # block_0 with TPCI 0x04 is a listed finding of the first half
                                            part.viol(exc_sig("sender-path-raises", exc), f"{case}: {exc!r}", case, rank=(n,))
                                            continue
                                        # parse the wire frame by hand: mc, addil, ctrl1, ctrl2, src, dst, len, tpci/apci ...
                                        ctrl2 = raw[3]
                                        w_src, w_dst = int.from_bytes(raw[4:6], "big"), int.from_bytes(raw[6:8], "big")
                                        npdu_len = raw[8]
                                        tpdu = raw[9 : 9 + npdu_len + 1]
                                        if tpdu[0] & 0x03 != 0x03 or tpdu[1] != 0xF1:
                                            part.viol("sender-path-frame-not-secured", f"{case}: {raw.hex()}", case, rank=(n,))
                                            continue
                                        scf_octet, asdu = tpdu[2], bytes(tpdu[3:])
                                        w_seq = int.from_bytes(asdu[:6], "big")
                                        ref = ccm.data_secure_asdu(key, scf_octet, w_seq, w_src, w_dst, bool(ctrl2 & 0x80), ctrl2 & 0x0F, tpdu[0] & 0xFC, data.payload.to_knx(), True)
                                        part.nontrivial += 1
                                        if not seq0 <= w_seq <= seq0 + 1 or (w_src, w_dst) != (src, ga):
                                            part.viol("sender-path-wrong-sequence-or-addresses", f"{case}: wire seq {w_seq} src {w_src:#x} dst {w_dst:#x}", case, rank=(n,))
                                        if asdu != ref:
                                            if isinstance(tp, T.TDataTagGroup):
                                                part.outcomes["tag-group-known-finding"] += 1
                                                continue
                                            what = "mac" if asdu[:-4] == ref[:-4] else "ciphertext"
                                            part.viol(f"wire-frame-differs-from-reference:{what}:eff={ctrl2 & 0x0F}", f"{case}: frame {raw.hex()} carries {asdu.hex()}, reference over the wire fields {ref.hex()}", case, rank=(n,))
                                        part.outcomes["frame-ok"] += 1
    part.sample({"frames": True, "ga": 0x0901, "eff": 4, "n": 9})
    return part


def selftest() -> None:
    ccm.selftest()


def run(ctx: Ctx) -> None:
    ccm.selftest()
    k = keys(ctx.seed, ctx.thorough)
    ctx.rule = (
        f"SecureData.init_from_plain_apdu(...).to_knx() == vf/ref/ccm.py byte for byte (reference validated at start-up against the AN158 Annex A worked example and a frame captured from a real "
        f"device) and get_plain_apdu accepts the reference output: keys({len(k)}) x address fields({len(addr_fields(ctx.thorough))}) x AT(2) x EFF{{0,4}} x TPCI{[n for n, _ in TPCIS]} x "
        f"sequence({len(seqs(ctx.seed, ctx.thorough))}) x all 24 SCF values x APDU lengths {'0..240' if ctx.thorough else lengths(False)}; and the whole sender path DataSecure.outgoing_cemi -> CEMIFrame.to_knx "
        "(keys x 2 groups x 2 sources x 2 TPCI x EFF {0,4} x frame-type flag x hop/priority x 6 lengths x 2 sequence starts): the secured APDU on the wire equals the reference computed from the fields on the wire"
    )
    ctx.assumptions = ["reference AES is the pure-Python FIPS-197 implementation in vf/ref/aes.py (checked against FIPS vectors at start-up)"]
    ctx.pmap(worker, [(ki, ti, ctx.seed, ctx.thorough) for ki in range(len(k)) for ti in range(len(TPCIS))])
    ctx.pmap(w_frames, [(ctx.seed, ctx.thorough)])


def replay(case: Any) -> list[tuple[str, str]]:
    if case.get("frames"):
        p = w_frames(0, False)
        return [(sg, v[1]) for sg, v in p.viols.items()]
    scf = next(s for s in scfs() if s.to_knx()[0] == case["scf"])
    return check_one(bytes(case["key"]), case["sa"], case["da"], CEMIAddressType(case["at"]), CEMIFrameFormat(case["eff"]), TPCIS[case["tpci"]][1], case["seq"], scf, bytes(case["apdu"]))[1]
