"""C01 Addresses survive text and wire round trips in every notation."""

from __future__ import annotations

import itertools
from typing import Any, Iterator

from xknx.exceptions import CouldNotParseAddress
from xknx.telegram.address import GroupAddress, GroupAddressType, IndividualAddress, InternalGroupAddress, parse_device_group_address

from ..runner import Ctx, Part, exc_sig

TITLE = "addresses round-trip"
SIGMA = ["0", "1", "9", "/", ".", "-", " ", "i", "I", "_", "a", "²", "٣"]
FIELDS = ["0", "1", "7", "8", "15", "16", "31", "32", "255", "256", "2047", "2048", "65535", "65536", "00", "007"]
FORMATS = [GroupAddressType.LONG, GroupAddressType.SHORT, GroupAddressType.FREE]
PARSERS = {
    "IndividualAddress": IndividualAddress,
    "GroupAddress": GroupAddress,
    "InternalGroupAddress": InternalGroupAddress,
    "parse_device_group_address": parse_device_group_address,
}


def check_parse(pname: str, fmt: GroupAddressType, text: Any) -> tuple[str, list[tuple[str, str]]]:
    GroupAddress.address_format = fmt
    try:
        try:
            a = PARSERS[pname](text)
        except CouldNotParseAddress:
            return "rejected", []
        except Exception as exc:  # noqa: BLE001
            return "escape", [(exc_sig(f"parse-escape:{pname}", exc), f"{pname}({text!r}) [{fmt.name}] raised {exc!r}")]
        try:
            s = str(a)
            b = type(a)(s)
        except Exception as exc:  # noqa: BLE001
            return "unstable", [(exc_sig(f"render-reparse-fails:{pname}", exc), f"{pname}({text!r}) [{fmt.name}] -> {a!r}; str/re-parse raised {exc!r}")]
        if b != a or str(b) != s:
            return "unstable", [(f"render-reparse-differs:{type(a).__name__}", f"{pname}({text!r}) [{fmt.name}] -> {a!r} -> {s!r} -> {b!r}")]
        if pname == "parse_device_group_address" and isinstance(a, GroupAddress) and a.raw == 0:
            return "broadcast", [("device-address-broadcast-accepted", f"parse_device_group_address({text!r}) returned the broadcast address")]
        return "address", []
    finally:
        GroupAddress.address_format = GroupAddressType.LONG


def w_raw(lo: int, hi: int) -> Part:
    part = Part()
    try:
        for raw in range(lo, hi):
            for fmt in FORMATS:
                GroupAddress.address_format = fmt
                part.evaluations += 1
                part.nontrivial += 1
                ga = GroupAddress(raw)
                text = str(ga)
                back = GroupAddress(text)
                if back.raw != raw or back != ga:
                    part.viol(f"group-text-roundtrip:{fmt.name}", f"GroupAddress({raw}) -> {text!r} -> raw {back.raw}", {"raw": raw, "fmt": fmt.name, "kind": "group"}, rank=(raw,))
                if GroupAddress.from_knx(ga.to_knx()).raw != raw or len(ga.to_knx()) != 2:
                    part.viol("group-wire-roundtrip", f"GroupAddress({raw}) -> {ga.to_knx().hex()}", {"raw": raw, "fmt": fmt.name, "kind": "group"}, rank=(raw,))
                if eval(repr(ga), {"GroupAddress": GroupAddress}).raw != raw:  # noqa: S307
                    part.viol("group-repr-roundtrip", f"repr {ga!r}", {"raw": raw, "fmt": fmt.name, "kind": "group"}, rank=(raw,))
                d = parse_device_group_address(text) if raw else None
                if raw and (not isinstance(d, GroupAddress) or d.raw != raw):
                    part.viol("device-address-roundtrip", f"parse_device_group_address({text!r}) -> {d!r}", {"raw": raw, "fmt": fmt.name, "kind": "group"}, rank=(raw,))
            part.evaluations += 1
            part.nontrivial += 1
            ia = IndividualAddress(raw)
            back_i = IndividualAddress(str(ia))
            if back_i.raw != raw or IndividualAddress.from_knx(ia.to_knx()).raw != raw or len(ia.to_knx()) != 2 or eval(repr(ia), {"IndividualAddress": IndividualAddress}).raw != raw:  # noqa: S307
                part.viol("individual-roundtrip", f"IndividualAddress({raw}) -> {str(ia)!r} -> {back_i.raw}", {"raw": raw, "kind": "individual"}, rank=(raw,))
    finally:
        GroupAddress.address_format = GroupAddressType.LONG
    part.sample({"raw": lo, "str_long": str(GroupAddress(lo)), "individual": str(IndividualAddress(lo))})
    return part


def strings(first: str, maxlen: int) -> Iterator[str]:
    yield first
    for n in range(1, maxlen):
        for tail in itertools.product(SIGMA, repeat=n):
            yield first + "".join(tail)


def run_texts(texts: Iterator[Any], part: Part) -> None:
    for text in texts:
        for pname in PARSERS:
            for fmt in (FORMATS if pname in ("GroupAddress", "parse_device_group_address") else FORMATS[:1]):
                part.evaluations += 1
                outcome, viols = check_parse(pname, fmt, text)
                part.outcomes[outcome] += 1
                if outcome != "rejected":
                    part.nontrivial += 1
                for sig, detail in viols:
                    part.viol(sig, detail, {"parser": pname, "fmt": fmt.name, "text": text if isinstance(text, str) else repr(text), "is_str": isinstance(text, str)}, rank=(len(str(text)), str(text)))


def w_strings(first: str, maxlen: int) -> Part:
    part = Part()
    run_texts(strings(first, maxlen), part)
    return part


def structured() -> Iterator[str]:
    yield ""
    for a in FIELDS:
        yield a
        for b in FIELDS:
            yield f"{a}/{b}"
            for c in FIELDS:
                yield f"{a}/{b}/{c}"
                yield f"{a}.{b}.{c}"
    # very long inputs (CPython refuses int() of more than 4300 digits with a ValueError)
    for n in (6, 20, 4300, 4301, 10000):
        yield "1" * n
        yield "0" * n + "7"
        yield "1/1/" + "1" * n
        yield "1." + "1" * n + ".1"
        yield "i-" + "x" * n
    for s in ("1/2/3/4", "1//3", "/1/2", "1/2/", " 1/2/3", "1/2/3 ", "1.1", "1.1.1.1", "0x10", "1e3", "+5", "-1", "i-", "i", "I_abc", "i- x ", "i-1/2/3", "٣/٣/٣", "²/1/1", "1.²"):
        yield s


def nonstrings() -> list[Any]:
    return [None, True, False, -1, 0, 1, 65535, 65536, 2**64, 1.0, 1.5, float("nan"), b"1/2/3", b"\x11\x01", (1, 2, 3), [1], {"a": 1},
            GroupAddress(0x0901), IndividualAddress(0x1101), InternalGroupAddress("i-x"), object()]


def w_misc() -> Part:
    part = Part()
    run_texts(structured(), part)
    run_texts(iter(nonstrings()), part)
    part.sample({"text": "1/2/3"})
    return part


def run(ctx: Ctx) -> None:
    maxlen = 6 if ctx.thorough else 5
    ctx.rule = (
        "(a) all 65 536 raw values x {individual, group x LONG/SHORT/FREE}: str -> constructor -> same raw, to_knx/from_knx, repr; (b) ALL strings of length <= "
        f"{maxlen} over {SIGMA} through IndividualAddress, GroupAddress (3 notations), InternalGroupAddress and parse_device_group_address (3 notations); (c) all a/b/c, a/b, a, a.b.c over "
        f"{len(FIELDS)} field values and digit strings of 6..10000 characters; (d) non-string objects. Oracle: an address A with type(A)(str(A)) == A, or CouldNotParseAddress. non-trivial = input accepted"
    )
    ctx.bounds = {"raw_values": 65536, "string_alphabet": SIGMA, "max_string_length": maxlen}
    ctx.pmap(w_raw, [(lo, lo + 2048) for lo in range(0, 65536, 2048)])
    ctx.pmap(w_strings, [(c, maxlen) for c in SIGMA])
    ctx.pmap(w_misc, [()])


def replay(case: Any) -> list[tuple[str, str]]:
    if "raw" in case:
        p = w_raw(case["raw"], case["raw"] + 1)
        return [(s, v[1]) for s, v in p.viols.items()]
    if not case.get("is_str", True):
        out = []
        for obj in nonstrings():
            if repr(obj) == case["text"]:
                out += check_parse(case["parser"], GroupAddressType[case["fmt"]], obj)[1]
        return out
    return check_parse(case["parser"], GroupAddressType[case["fmt"]], case["text"])[1]
