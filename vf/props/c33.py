"""C33 Outgoing telegrams go out in order, one at a time, and never stall the queue."""

from __future__ import annotations

from ..vloop import texc

import itertools
from typing import Any

from xknx import XKNX
from xknx.devices import Switch
from xknx.dpt import DPTArray, DPTBinary
from xknx.exceptions import CommunicationError, ConversionError
from xknx.telegram import GroupAddress, Telegram, TelegramDirection
from xknx.telegram.address import InternalGroupAddress
from xknx.telegram.apci import GroupValueWrite

from ..explore import Chooser, explore, finalize_states, replay_schedule
from ..runner import Ctx
from ..vloop import World

TITLE = "telegram queue"
KINDS = ["out-GA1", "out-GA2", "out-internal", "in-GA1"]
SEND = ["send-ok", "send-slow(0.5s)", "send-raises-CommunicationError", "send-raises-ConversionError", "send-raises-ValueError", "send-ok-but-no-confirmation"]
STOP = ["join-then-stop", "stop-directly", "queue-stop-with-backlog", "queue-stop-with-backlog-10ms-later"]
GA1, GA2 = GroupAddress("1/1/1"), GroupAddress("1/1/2")


class RaisingSwitch(Switch):
    def process(self, telegram: Telegram) -> None:  # type: ignore[override]
        self.seen.append(telegram)  # type: ignore[attr-defined]
        raise RuntimeError("device bug")


def mixes(maxlen: int) -> list[tuple[str, ...]]:
    return [m for n in range(1, maxlen + 1) for m in itertools.product(KINDS, repeat=n)]


def make(mix_index: int, maxlen: int, rate_limit: int, restart: bool):
    mix = mixes(maxlen)[mix_index]

    def scenario(ch: Chooser) -> list[tuple[str, str]]:
        viols: list[tuple[str, str]] = []
        with World() as w:
            loop = w.loop
            loop._vtime = 100.0  # noqa: SLF001
            xknx = XKNX(rate_limit=rate_limit)
            iface_calls: list[dict[str, Any]] = []
            events: list[Any] = []

            from xknx.io import ConnectionConfig

            class Fake:
                connection_config = ConnectionConfig()

                async def start(self) -> None:
                    return None

                async def stop(self) -> None:
                    return None

                async def send_cemi(self, cemi: Any) -> None:
                    import asyncio

                    tg = cemi.data.telegram()
                    rec = {"start": loop.time(), "tag": tg.payload.value.value if isinstance(tg.payload, GroupValueWrite) else None, "dst": tg.destination_address}
                    iface_calls.append(rec)
                    c = ch.choose("send", len(SEND))
                    rec["mode"] = SEND[c]
                    events.append((round(loop.time(), 3), "send_cemi", rec["tag"], SEND[c]))
                    try:
                        if SEND[c] == "send-raises-CommunicationError":
                            raise CommunicationError("down")
                        if SEND[c] == "send-raises-ConversionError":
                            raise ConversionError("bad")
                        if SEND[c] == "send-raises-ValueError":
                            raise ValueError("bad frame")
                        if SEND[c] == "send-slow(0.5s)":
                            await asyncio.sleep(0.5)
                        if SEND[c] != "send-ok-but-no-confirmation":
                            loop.call_soon(xknx.cemi_handler._l_data_confirmation_event.set)  # noqa: SLF001
                    finally:
                        rec["end"] = loop.time()

            xknx.knxip_interface = Fake()  # type: ignore[assignment]
            # GA1: a DPT that does not fit the 1-bit payloads (wrong payload kind); GA2: a DPT whose payload shape fits but whose
            # value cannot be converted (an undefined enumeration code) - both kinds of eager-decoding failure in front of the consumer
            xknx.group_address_dpt.set({"1/1/1": "temperature", "1/1/2": "20.102"})
            cb_log: list[Any] = []
            dev_good = Switch(xknx, "good", group_address="1/1/1")
            dev_bad = RaisingSwitch(xknx, "bad", group_address="1/1/2")
            dev_bad.seen = []  # type: ignore[attr-defined]
            dev_int = Switch(xknx, "int", group_address="i-test")
            good_seen: list[Any] = []
            int_seen: list[Any] = []
            for dev, log in ((dev_good, good_seen), (dev_int, int_seen)):
                orig = dev.process

                def wrapped(t: Telegram, _o: Any = orig, _l: list[Any] = log) -> None:
                    _l.append(t)
                    _o(t)

                dev.process = wrapped  # type: ignore[method-assign]
            xknx.devices.async_add(dev_good)
            xknx.devices.async_add(dev_bad)
            xknx.devices.async_add(dev_int)
            followups = {"n": 0}

            def raising_cb(t: Telegram) -> None:
                raise RuntimeError("callback bug")

            def recording_cb(t: Telegram) -> None:
                cb_log.append(t)
                # processing an incoming telegram queues one more outgoing telegram (like an ExposeSensor answering a read)
                if t.direction is TelegramDirection.INCOMING and followups["n"] < 1:
                    followups["n"] += 1
                    xknx.telegrams.put_nowait(Telegram(GA2, payload=GroupValueWrite(DPTBinary(0)), direction=TelegramDirection.OUTGOING))

            xknx.telegram_queue.register_telegram_received_cb(raising_cb, match_for_outgoing=True)
            xknx.telegram_queue.register_telegram_received_cb(recording_cb, match_for_outgoing=True)
            queued: list[Telegram] = []
            for i, kind in enumerate(mix):
                if kind == "out-GA1":
                    t = Telegram(GA1, payload=GroupValueWrite(DPTArray((i + 1,))), direction=TelegramDirection.OUTGOING)
                elif kind == "out-GA2":
                    t = Telegram(GA2, payload=GroupValueWrite(DPTArray((0xF0 + i,))), direction=TelegramDirection.OUTGOING)
                elif kind == "out-internal":
                    t = Telegram(InternalGroupAddress("i-test"), payload=GroupValueWrite(DPTBinary(1)), direction=TelegramDirection.OUTGOING)
                else:
                    t = Telegram(GA1, payload=GroupValueWrite(DPTBinary(1)), direction=TelegramDirection.INCOMING)
                queued.append(t)
            result: dict[str, Any] = {}

            async def user() -> None:
                await xknx.start()
                if restart is True:
                    await xknx.stop()
                    await xknx.start()
                if restart == 2:
                    # a complete first session: one bus telegram, join, stop at once (inside the 1/r pause), then start again
                    xknx.telegrams.put_nowait(Telegram(GA2, payload=GroupValueWrite(DPTBinary(0)), direction=TelegramDirection.OUTGOING))
                    await xknx.join()
                    await xknx.stop()
                    result["first-session-stopped"] = loop.time()
                    await xknx.start()
                for t in queued:
                    xknx.telegrams.put_nowait(t)
                mode = STOP[ch.choose("stop-mode", 4, [0, 0, 0, 0])]
                result["mode"] = mode
                if mode == "join-then-stop":
                    await xknx.join()
                    result["joined"] = loop.time()
                if mode.startswith("queue-stop-with-backlog"):
                    if mode.endswith("later"):
                        import asyncio

                        await asyncio.sleep(0.01)   # the first telegram is out: with a rate limit the sender is inside its 1/r pause
                    # (no follow-up telegram from the callback here: it would be queued behind the stop marker, which is not a
                    # case the statement speaks about)
                    followups["n"] = 1
                    # TelegramQueue.stop() itself, while telegrams are still waiting (XKNX.stop() joins first): the backlog is
                    # drained - in order, one at a time, rate limited - before the queue ends
                    await xknx.telegram_queue.stop()
                    result["queue-stopped"] = loop.time()
                    xknx.started.clear()   # (XKNX.__del__ would otherwise try to run stop() on a real loop)
                else:
                    await xknx.stop()
                result["stopped"] = loop.time()
                # and the queue object stays usable: a later join returns at once
                await xknx.join()
                result["joined-after-stop"] = loop.time()

            u = w.spawn(user(), name="harness-user")
            loop.run_until(loop.time() + 120)
            xknx.started.clear()   # whatever state the run ended in: XKNX.__del__ must not try to run stop() on a real loop
            ctxs = f"mix={mix} rate_limit={rate_limit} restart={restart} result={result} events={events}"
            if not u.done():
                viols.append((f"join-or-stop-never-returns:{result.get('mode', 'start')}", f"unfinished={xknx.telegrams._unfinished_tasks}; {ctxs}"))  # noqa: SLF001
            elif texc(u) is not None:
                viols.append((f"user-call-raises:{type(texc(u)).__name__}", f"{texc(u)!r}; {ctxs}"))
            if u.done() and xknx.telegrams._unfinished_tasks:  # noqa: SLF001
                viols.append(("telegram-not-marked-done", f"unfinished={xknx.telegrams._unfinished_tasks}; {ctxs}"))  # noqa: SLF001
            # order at the interface = queue order of the non-internal outgoing telegrams (+ the follow-up at the end or after its trigger)
            want_tags = [t.payload.value.value for t in queued if t.direction is TelegramDirection.OUTGOING and not isinstance(t.destination_address, InternalGroupAddress)]
            got_tags = [c["tag"] for c in iface_calls if c["tag"] != 0 and c["tag"] is not None and c["tag"] != (0,)]
            got_tags = [g for g in got_tags if g != 0]
            seen_main = [c["tag"] for c in iface_calls if isinstance(c["tag"], tuple)]
            if seen_main != want_tags:
                viols.append(("interface-order-or-content-wrong", f"interface saw {seen_main}, queue order {want_tags}; {ctxs}"))
            if any(isinstance(c["dst"], InternalGroupAddress) for c in iface_calls):
                viols.append(("internal-telegram-reached-interface", ctxs))
            session = iface_calls[1:] if restart == 2 else iface_calls  # spacing is required within one start..stop session
            for a, b in zip(session, session[1:]):
                if b["start"] < a.get("end", 1e18) - 1e-9:
                    viols.append(("two-sends-in-flight", f"{a} overlaps {b}; {ctxs}"))
                if rate_limit and b["start"] - a["start"] < 1 / rate_limit - 1e-9:
                    viols.append(("rate-limit-violated", f"sends {b['start'] - a['start']:.4f}s apart, limit {1 / rate_limit:.4f}s; {ctxs}"))
            n_int = sum(1 for k in mix if k == "out-internal")
            if len(int_seen) != n_int:
                viols.append(("internal-telegram-not-processed-by-device", f"{len(int_seen)} of {n_int}; {ctxs}"))
            n_in = sum(1 for k in mix if k == "in-GA1")
            if sum(1 for t in good_seen if t.direction is TelegramDirection.INCOMING) != n_in:
                viols.append(("incoming-telegram-not-processed-by-device", f"{good_seen}; {ctxs}"))
            if sum(1 for t in cb_log if t.direction is TelegramDirection.INCOMING) != n_in:
                viols.append(("callback-after-raising-callback-not-run", f"{len(cb_log)}; {ctxs}"))
            for name, exc in loop.task_failures():
                if not name.startswith("harness-"):
                    viols.append((f"task-exception:{type(exc).__name__}", f"{name}: {exc!r}; {ctxs}"))
            ch.notes.append(f"iface={len(iface_calls)},{result.get('mode')}")
            ch.state((len(iface_calls), tuple(c.get("mode") for c in iface_calls), result.get("mode")))
        seen: set[str] = set()
        return [(s, d) for s, d in viols if not (s in seen or seen.add(s))]

    return scenario


SCENARIOS = {"queue": make}


def run(ctx: Ctx) -> None:
    bound = 2 + int(__import__("os").environ.get("VF_DEEPER", 0))
    maxlen = 4 if ctx.thorough else 3
    n = len(mixes(maxlen))
    ctx.rule = (
        f"real XKNX (start/join/stop, TelegramQueue, devices, callbacks) over a fake interface: ALL {n} telegram mixes of length <= {maxlen} over {KINDS} x rate limit {{0, 20}} (+ a start-stop-start "
        f"variant and a variant with a complete first session - send, join, stop inside the rate-limit pause - before the explored one) x stop mode {STOP}; per send_cemi the interface outcome is one of {SEND}; every schedule with <= {bound} non-default outcomes; a raising callback, a raising device, a "
        "GA-DPT entry of the wrong payload kind, one whose value cannot be converted, and a callback that queues a follow-up telegram are always present. Oracle: interface order = queue order, never two sends in flight, >= 1/r apart, internal "
        "telegrams never reach the interface but their device, callbacks/devices still run after a raising one, every telegram marked done, join() and stop() return within 120 s of virtual time"
    )
    ctx.bounds = {"deviation_bound": bound, "mixes": n}
    for mi in range(n):
        for rl in (0, 20):
            explore(ctx, __name__, "queue", (mi, maxlen, rl, False), bound=bound if len(mixes(maxlen)[mi]) <= 2 or ctx.thorough else 1, split_depth=1)
    for mi in range(min(n, 20)):
        explore(ctx, __name__, "queue", (mi, maxlen, 0, True), bound=1, split_depth=1)
        explore(ctx, __name__, "queue", (mi, maxlen, 20, 2), bound=1, split_depth=1)
        explore(ctx, __name__, "queue", (mi, maxlen, 0, 2), bound=1, split_depth=1)
    finalize_states(ctx)


def replay(case: Any) -> list[tuple[str, str]]:
    return replay_schedule(__name__, case)
