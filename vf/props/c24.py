"""C24 Outgoing tunnel frames are sequenced and confirmed only by their own ACK."""

from __future__ import annotations

from ..vloop import texc

import asyncio
from typing import Any

from xknx import XKNX
from xknx.cemi import CEMIFrame, CEMILData, CEMIMessageCode
from xknx.dpt import DPTArray
from xknx.io.tunnel import UDPTunnel
from xknx.knxip import (
    ConnectionStateRequest,
    ConnectionStateResponse,
    ConnectRequest,
    DisconnectRequest,
    DisconnectResponse,
    ErrorCode,
    TunnellingAck,
    TunnellingRequest,
)
from xknx.telegram import GroupAddress, IndividualAddress, Telegram
from xknx.telegram.apci import GroupValueWrite

from ..explore import Chooser, explore, finalize_states, replay_schedule
from ..runner import Ctx
from ..sim.gateway import GW_ADDR, Gateway
from ..vloop import World

TITLE = "outgoing tunnel frames"

ACK_OPTS = ["ack-ok", "no-ack", "ack-error-status", "ack-stale-counter", "ack-other-channel", "ack-twice", "ack-late(1.2s)",
            "no-ack+server-disconnect-now", "no-ack+server-disconnect-in-0.9s"]
CONN_OPTS = ["connect-ok", "connect-late(0.5s)", "connect-refused", "connect-no-answer"]


def make_cemi(i: int) -> CEMIFrame:
    tg = Telegram(GroupAddress(0x0901), payload=GroupValueWrite(DPTArray((i & 0xFF, i >> 8))), source_address=IndividualAddress("1.1.240"))
    return CEMIFrame(code=CEMIMessageCode.L_DATA_REQ, data=CEMILData.init_from_telegram(tg))


def make(n_sends: int, concurrent: int, auto_reconnect: bool, manual: bool = False, route_back: bool = False):
    """n_sends send_cemi calls, `concurrent` of them started together, the rest one after the other.
    manual: without auto-reconnect the user calls connect() again on the same object when the tunnel is gone, then goes on sending."""

    def scenario(ch: Chooser) -> list[tuple[str, str]]:
        viols: list[tuple[str, str]] = []
        with World() as w:
            loop = w.loop
            gw = Gateway(loop)
            st = {"next_channel": 7, "open": set(), "acks": [], "events": []}
            # every ack the server sent: (deliver_time, channel, counter, status_ok)

            def handler(body: Any) -> None:
                now = loop.time()
                if isinstance(body, ConnectRequest):
                    if not st["events"]:
                        c = 0  # the initial connect is not a choice point
                    else:
                        c = ch.choose("connect", len(CONN_OPTS))
                    opt = CONN_OPTS[c]
                    st["events"].append((now, "ConnectRequest", opt))
                    if opt in ("connect-ok", "connect-late(0.5s)"):
                        chan = st["next_channel"]
                        st["next_channel"] += 1
                        st["open"].add(chan)
                        delay = 0.5 if "late" in opt else 0.0

                        def deliver_cr(chan: int = chan, tr: Any = gw.tr) -> None:
                            st["events"].append((loop.time(), "ConnectResponse", chan))
                            gw.send(gw.connect_response(chan), tr=tr)

                        if delay:
                            loop.call_later(delay, deliver_cr)
                        else:
                            deliver_cr()
                    elif opt == "connect-refused":
                        gw.send(gw.connect_response(0, status=ErrorCode.E_NO_MORE_CONNECTIONS))
                elif isinstance(body, ConnectionStateRequest):
                    gw.send(ConnectionStateResponse(body.communication_channel_id))
                elif isinstance(body, DisconnectRequest):
                    st["open"].discard(body.communication_channel_id)
                    st["events"].append((now, "DisconnectRequest(client)", body.communication_channel_id))
                    gw.send(DisconnectResponse(body.communication_channel_id))
                elif isinstance(body, TunnellingRequest):
                    chan, cnt = body.communication_channel_id, body.sequence_counter
                    c = ch.choose(f"treq", len(ACK_OPTS))
                    opt = ACK_OPTS[c]
                    st["events"].append((now, "TunnellingRequest", chan, cnt, bytes(body.raw_cemi), opt))

                    def ack(channel: int, counter: int, status: ErrorCode = ErrorCode.E_NO_ERROR, delay: float = 0.0) -> None:
                        st["acks"].append((now + delay, channel, counter, status is ErrorCode.E_NO_ERROR))
                        gw.send(TunnellingAck(channel, counter, status), delay=delay)

                    if opt == "ack-ok":
                        ack(chan, cnt)
                    elif opt == "ack-error-status":
                        ack(chan, cnt, ErrorCode.E_SEQUENCE_NUMBER)
                    elif opt == "ack-stale-counter":
                        ack(chan, (cnt - 1) % 256)
                    elif opt == "ack-other-channel":
                        ack(chan + 50, cnt)
                    elif opt == "ack-twice":
                        ack(chan, cnt)
                        ack(chan, cnt)
                    elif opt == "ack-late(1.2s)":
                        ack(chan, cnt, delay=1.2)
                    elif opt.startswith("no-ack+server-disconnect"):
                        delay = 0.9 if "0.9" in opt else 0.0
                        st["open"].discard(chan)
                        st["events"].append((now + delay, "DisconnectRequest(server)", chan))
                        gw.send(DisconnectRequest(chan), delay=delay)

            gw.handler = handler
            xknx = XKNX()
            tunnel = UDPTunnel(xknx, lambda raw: None, gateway_ip=GW_ADDR[0], gateway_port=GW_ADDR[1], local_ip="192.168.1.2",
                               auto_reconnect=auto_reconnect, auto_reconnect_wait=3, route_back=route_back)
            t = w.spawn(tunnel.connect())
            loop.settle()
            if not (t.done() and texc(t) is None):
                return [("harness:connect-failed", repr(t))]
            results: dict[int, Any] = {}

            async def user(i: int) -> None:
                started = loop.time()
                try:
                    await tunnel.send_cemi(make_cemi(i))
                    results[i] = ("ok", started, loop.time())
                except BaseException as exc:  # noqa: BLE001
                    results[i] = (type(exc).__name__, started, loop.time())
                st["events"].append((loop.time(), "SendDone", i, results[i][0]))

            async def driver() -> None:
                first = [asyncio.ensure_future(user(i)) for i in range(concurrent)]
                if first:
                    await asyncio.wait(first)
                for i in range(concurrent, n_sends):
                    if manual and tunnel.communication_channel is None:
                        st["events"].append((loop.time(), "UserConnect"))
                        try:
                            await tunnel.connect()
                        except Exception as exc:  # noqa: BLE001
                            st["events"].append((loop.time(), "UserConnectFailed", type(exc).__name__))
                    await user(i)

            d = w.spawn(driver())
            loop.run_until(60.0)
            if not d.done():
                viols.append(("send-never-returns", f"send_cemi calls still pending after 60 s of virtual time: results={results} events={st['events']}"))
            ch.notes.append(",".join(f"{results.get(i, ('pending',))[0]}" for i in range(n_sends)))
            ch.state((tunnel.sequence_number, tunnel.communication_channel is not None, tuple(sorted(results.items())) and tuple(r[0] for _, r in sorted(results.items()))))

            # ---------------- oracle over the server's log ----------------
            ev = st["events"]
            cemis = {bytes(make_cemi(i).to_knx()): i for i in range(n_sends)}
            per_conn_next: dict[int, int] = {}
            last_on_chan: dict[int, Any] = {}
            count_same: dict[tuple[int, int], int] = {}
            treqs = [e for e in ev if e[1] == "TunnellingRequest"]
            current = None
            for e in ev:
                if e[1] == "ConnectResponse":
                    current = e[2]
                    continue
                if e[1] != "TunnellingRequest":
                    continue
                t_, _, chan, cnt, raw, opt = e
                if chan != current:
                    viols.append(("request-on-wrong-channel", f"TunnellingRequest on channel {chan} at t={t_} but the connection established last is {current}; events={ev}"))
                    continue
                i = cemis.get(raw)
                count_same[(chan, cnt)] = count_same.get((chan, cnt), 0) + 1
                prev = last_on_chan.get(chan)
                nxt = per_conn_next.get(chan, 0)
                if prev is not None and prev[0] == i and prev[1] == cnt:
                    # repetition of the same cEMI with the same counter
                    if count_same[(chan, cnt)] > 2:
                        viols.append(("repeated-more-than-once", f"cEMI #{i} sent {count_same[(chan, cnt)]}x with counter {cnt} on channel {chan}; events={ev}"))
                else:
                    if cnt != nxt:
                        kind = "within-connection"
                        if nxt == 0:
                            # first frame of a connection: was an earlier send in flight while this connection was being set up?
                            idx_cr = max(k for k, x in enumerate(ev) if x[1] == "ConnectResponse" and x[2] == chan and k < ev.index(e))
                            idx_req = max(k for k, x in enumerate(ev) if x[1] == "ConnectRequest" and k < idx_cr)
                            started_before = {cemis.get(x[4]) for x in ev[:idx_cr] if x[1] == "TunnellingRequest"}
                            done_at = {x[2]: k for k, x in enumerate(ev) if x[1] == "SendDone"}
                            if any(done_at.get(j, 10**9) > idx_cr for j in started_before if j != i):
                                kind = "first-frame-of-connection:earlier-send-ended-after-connection-established"
                            elif any(idx_req < done_at.get(j, -1) < idx_cr for j in started_before if j != i):
                                kind = "first-frame-of-connection:earlier-send-ended-while-connecting"
                            else:
                                kind = "first-frame-of-connection"
                        viols.append((f"wrong-sequence-counter:{kind}", f"new cEMI #{i} on channel {chan} carries counter {cnt}, reference {nxt} (0 after every ConnectResponse, +1 mod 256 per new frame); events={ev}"))
                    per_conn_next[chan] = (cnt + 1) % 256
                last_on_chan[chan] = (i, cnt)
            # one request outstanding at a time
            for a, b in zip(treqs, treqs[1:]):
                if b[0] - a[0] < 1.0 - 1e-9:
                    if not any(a[0] - 1e-9 <= at <= b[0] + 1e-9 for (at, *_rest) in st["acks"]):
                        viols.append(("two-requests-outstanding", f"request at t={b[0]} follows request at t={a[0]} with neither a timeout nor any ack in between; events={ev}"))
            # success only by its own ack
            for i, res in results.items():
                if res[0] != "ok":
                    continue
                mine = [e for e in treqs if cemis.get(e[4]) == i]
                good = any(
                    any(ok and ac == e[2] and an == e[3] and e[0] - 1e-9 <= at <= res[2] + 1e-9 for (at, ac, an, ok) in st["acks"])
                    for e in mine
                )
                if not good:
                    # which ack (if any) did the client take as confirmation? the last error-free one delivered while one of
                    # this send's requests was outstanding
                    last = mine[-1] if mine else None
                    taken = [a for a in st["acks"] if last is not None and a[3] and last[0] - 1e-9 <= a[0] <= res[2] + 1e-9]
                    if not taken:
                        kind = "no-ack-at-all"
                    elif taken[-1][1] != last[2]:
                        kind = "accepted-ack-of-other-channel"
                    elif taken[-1][2] != last[3]:
                        kind = "accepted-ack-with-other-counter"
                    else:
                        kind = "other"
                    viols.append((f"success-without-own-ack:{kind}", f"send_cemi #{i} returned normally at t={res[2]} but no error-free ack with the channel and counter of one of its requests {[(e[0], e[2], e[3], e[5]) for e in mine]} had arrived; acks={st['acks']}"))
            for name, exc in loop.task_failures():
                viols.append((f"task-exception:{type(exc).__name__}", f"{name}: {exc!r}; events={ev}"))
            for c in loop.exceptions:
                viols.append(("loop-exception", repr(c)[:300]))
        return viols

    return scenario


def make_wrap(n: int):
    def scenario(ch: Chooser) -> list[tuple[str, str]]:
        return make(n, 0, True)(ch)

    return scenario


SCENARIOS = {"sends": make, "wrap": make_wrap}


def run(ctx: Ctx) -> None:
    bound = 5 if ctx.thorough else 3
    ctx.rule = (
        f"real UDPTunnel (connected through the real connect()) against a simulated gateway on the virtual loop; user: 1-3 send_cemi calls (0 or 2 concurrent), "
        f"auto-reconnect on/off, without it also a user who calls connect() again on the same object when the tunnel is gone, route_back off/on; per TunnellingRequest the gateway answers one of {ACK_OPTS}, per re-ConnectRequest one of {CONN_OPTS}; EVERY schedule with <= {bound} "
        "non-default answers is executed to a 60 s horizon; oracle over the gateway's log (counter = next mod 256, 0 after each ConnectResponse, <=1 repetition, one outstanding, "
        "success only with an error-free ack of the same channel and counter); plus a 300-send default run for the wrap-around. non-trivial = schedule with >=1 deviation"
    )
    ctx.bounds = {"deviation_bound": bound, "horizon_s": 60, "sends": [1, 2, 3], "ack_options": len(ACK_OPTS), "connect_options": len(CONN_OPTS)}
    for args in [(1, 0, True), (2, 0, True), (3, 0, True), (2, 2, True), (3, 2, True), (2, 0, False), (2, 2, False), (3, 0, False, True), (3, 2, False, True),
                 (3, 0, True, False, True), (3, 0, False, True, True)]:   # ... manual reconnect; route_back=True
        explore(ctx, __name__, "sends", args, bound=bound)
    explore(ctx, __name__, "wrap", (300,), bound=0)
    finalize_states(ctx)


def replay(case: Any) -> list[tuple[str, str]]:
    return replay_schedule(__name__, case)
