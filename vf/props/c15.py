"""C15 Data Secure frames decrypt to exactly what was sent."""

from __future__ import annotations

import itertools
from typing import Any

from xknx.cemi import CEMIFrame, CEMILData, CEMIMessageCode
from xknx.dpt import DPTArray, DPTBinary
from xknx.management.management import Management
from xknx.secure.data_secure import DataSecure
from xknx.secure.data_secure_asdu import SecureData, SecurityALService, SecurityAlgorithmIdentifier, SecurityControlField
from xknx.telegram import GroupAddress, IndividualAddress, Telegram, tpci as T
from xknx.telegram.apci import GroupValueWrite, SecureAPDU

from ..dsecure import Receiver
from ..runner import Ctx, Part, exc_sig, seed_bytes

TITLE = "Data Secure round trip between two xknx instances"
SENDERS = [0x0001, 0x1101, 0xFFFF]
GROUPS = [0x0001, 0x0901, 0xFFFF]
TPCIS = [("T_Data_Group", T.TDataGroup), ("T_Data_Tag_Group", T.TDataTagGroup)]


def keys(seed: int) -> list[bytes]:
    return [bytes(16), b"\xff" * 16, bytes(range(16)), seed_bytes(seed, 16, 51)]


def seqs(seed: int) -> list[int]:
    return [1, 2**32 - 1, 2**48 - 2, int.from_bytes(seed_bytes(seed, 6, 52), "big") % (2**48 - 2) + 1]


def payload_of(n: int) -> Any:
    """GroupValueWrite whose APDU has n octets after the TPCI octet."""
    if n == 1:
        return GroupValueWrite(DPTBinary(1))
    return GroupValueWrite(DPTArray(tuple((i * 3 + n) & 0xFF for i in range(n - 1))))


def secure_by_xknx(key: bytes, sa: int, ga: int, tp: Any, seq: int, payload: Any, encrypt: bool) -> bytes:
    """Frame secured by a (second) xknx instance."""
    data = CEMILData.init_from_telegram(Telegram(GroupAddress(ga), payload=payload, tpci=tp()), src_addr=IndividualAddress(sa))
    if encrypt:
        sender = DataSecure(group_key_table={GroupAddress(ga): key}, individual_address_table={}, last_sequence_number_sending=seq)
        sec = sender.outgoing_cemi(data)
    else:
        scf = SecurityControlField(tool_access=False, algorithm=SecurityAlgorithmIdentifier.CCM_AUTHENTICATION, system_broadcast=False, service=SecurityALService.S_A_DATA)
        asdu = SecureData.init_from_plain_apdu(key=key, apdu=payload.to_knx(), scf=scf, sequence_number=seq, address_fields_raw=IndividualAddress(sa).to_knx() + GroupAddress(ga).to_knx(),
                                               address_type=data.address_type, frame_format=data.flags.frame_format, tpci=data.tpci)
        data.payload = SecureAPDU(scf=scf, secured_data=asdu)
        sec = data
    return CEMIFrame(code=CEMIMessageCode.L_DATA_IND, data=sec).to_knx()


def check_one(key: bytes, sa: int, ga: int, ti: int, seq: int, n: int, encrypt: bool, mgmt_calls: list[Any]) -> tuple[str, list[tuple[str, str]]]:
    tname, tp = TPCIS[ti]
    what = f"key={key.hex()} sender={sa:#06x} group={ga:#06x} {tname} seq={seq} apdu_len={n} {'A+C' if encrypt else 'auth-only'}"
    payload = payload_of(n)
    try:
        raw = secure_by_xknx(key, sa, ga, tp, seq, payload, encrypt)
    except Exception as exc:  # noqa: BLE001
        if n > 240:
            return "sender-refused-too-long", []
        return "sender-refused", [(exc_sig("sender-refuses", exc), f"{what}: {exc!r}")]
    rx = Receiver({ga: key}, {sa: seq - 1})
    if n % 3 == 0:
        # the receiver has just refused a damaged copy of this very frame (one MAC bit flipped): the genuine frame is still accepted
        bad = raw[:-1] + bytes((raw[-1] ^ 0x01,))
        mgmt_calls.clear()
        got0, _issues0, exc0 = rx.feed(bad)
        if exc0 is not None or got0 or mgmt_calls:
            return "damaged-copy", [("damaged-copy-not-refused-quietly", f"{what}: delivered {len(got0)} / raised {exc0!r}")]
    mgmt_calls.clear()
    got, issues, exc = rx.feed(raw)
    if exc is not None:
        return "raised", [(exc_sig("receiver-raises", exc), f"{what}: {exc!r}")]
    delivered = got + list(mgmt_calls)
    if len(delivered) != 1:
        return "not-delivered", [(f"not-delivered-once:{tname}:{'enc' if encrypt else 'auth'}", f"{what}: {len(got)} telegrams, {len(mgmt_calls)} management, {issues} key issues; frame {raw.hex()}")]
    t = delivered[0]
    viols = []
    if t.payload != payload:
        viols.append((f"payload-changed:{tname}", f"{what}: {t.payload} != {payload}"))
    if not t.data_secure:
        viols.append(("not-marked-data-secure", f"{what}: data_secure={t.data_secure}"))
    if t.destination_address != GroupAddress(ga) or t.source_address != IndividualAddress(sa):
        viols.append(("addresses-changed", f"{what}: {t}"))
    if (tname == "T_Data_Group") != bool(got):
        viols.append(("wrong-consumer", f"{what}: queue={len(got)} management={len(mgmt_calls)}"))
    return ("ok" if not viols else "bad"), viols


def worker(ki: int, si: int, seed: int, thorough: bool) -> Part:
    part = Part()
    key = keys(seed)[ki]
    seq = seqs(seed)[si]
    lens = list(range(1, 243)) if thorough else list(range(1, 21)) + [239, 240, 241, 242]
    calls: list[Any] = []
    orig = Management.process
    Management.process = lambda self, telegram: calls.append(telegram)  # type: ignore[method-assign]
    try:
        for sa, ga, ti, n, enc in itertools.product(SENDERS, GROUPS, range(2), lens, (True, False)):
            part.evaluations += 1
            outcome, viols = check_one(key, sa, ga, ti, seq, n, enc, calls)
            part.outcomes[outcome] += 1
            if outcome in ("ok", "bad"):
                part.nontrivial += 1
            for sig, detail in viols:
                part.viol(sig, detail, {"ki": ki, "si": si, "sa": sa, "ga": ga, "ti": ti, "n": n, "enc": enc, "seed": seed}, rank=(n,))
    finally:
        Management.process = orig  # type: ignore[method-assign]
    part.sample({"key": key, "seq": seq, "senders": SENDERS, "groups": GROUPS, "apdu_lengths": f"{lens[0]}..{lens[-1]}"})
    return part


def run(ctx: Ctx) -> None:
    ctx.rule = (
        "keys {00..,FF..,00 01..0F,seed} x sender {0.0.1,1.1.1,15.15.255} x group {0/0/1,1/1/1,31/7/255} x {T_Data_Group,T_Data_Tag_Group} x sequence {1,2^32-1,2^48-2,seed} x "
        f"GroupValueWrite APDU of {'every length 1..242' if ctx.thorough else 'lengths 1..20,239..242'} x {{A+C by DataSecure.outgoing_cemi of a second instance, authentication-only by "
        "SecureData.init_from_plain_apdu}; the frame goes through the real CEMIHandler.handle_raw_cemi of a receiver with the same key (for every third length right after a damaged copy of it was refused): exactly one delivery, payload equal, data_secure set"
    )
    ctx.pmap(worker, [(k, s, ctx.seed, ctx.thorough) for k in range(4) for s in range(4)])


def replay(case: Any) -> list[tuple[str, str]]:
    calls: list[Any] = []
    orig = Management.process
    Management.process = lambda self, telegram: calls.append(telegram)  # type: ignore[method-assign]
    try:
        return check_one(keys(case["seed"])[case["ki"]], case["sa"], case["ga"], case["ti"], seqs(case["seed"])[case["si"]], case["n"], case["enc"], calls)[1]
    finally:
        Management.process = orig  # type: ignore[method-assign]
