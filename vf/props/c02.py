"""C02 Group address filters match exactly the addresses their pattern denotes."""

from __future__ import annotations

import itertools
from typing import Any

from xknx.core.telegram_queue import TelegramQueue
from xknx.telegram import Telegram, TelegramDirection
from xknx.telegram.address import GroupAddress, GroupAddressType, InternalGroupAddress
from xknx.telegram.address_filter import AddressFilter

from ..ref import addr as R
from ..runner import Ctx, Part, exc_sig

TITLE = "address filters"
NUMS = [0, 1, 7, 8, 31, 32, 255, 256, 2047, 2048, 65535, 65536, 70000]
FMT = {3: GroupAddressType.LONG, 2: GroupAddressType.SHORT, 1: GroupAddressType.FREE}


def items(seed: int) -> list[str]:
    ns = NUMS + [seed % 2048 + 3]
    out = ["*"] + [str(n) for n in ns]
    out += [f"{a}-{b}" for a in ns for b in ns]
    out += [f"-{b}" for b in ns] + [f"{a}-" for a in ns]
    return out


PAIR_ITEMS = ["*", "0", "7", "255", "2048", "0-1", "1-7", "8-31", "31-8", "32-255", "256-2047", "2047-256", "2048-65535", "65536-70000", "-7", "-255", "8-", "2048-", "65535-", "1-1"]
WHOLE_ITEMS = ["*", "1", "0-3,7", "5-", "-2", "31,255,2047"]


def w_level(k: int, n: int, seed: int) -> Part:
    """One level filter against every level value 0..2047 and 65535."""
    part = Part()
    singles = items(seed)
    levels = singles + [f"{a},{b}" for a in PAIR_ITEMS for b in PAIR_ITEMS]
    values = list(range(2049)) + [65535, 4000, 65534]
    for i, lev in enumerate(levels):
        if i % n != k:
            continue
        try:
            lf = AddressFilter.LevelFilter(lev)
        except Exception as exc:  # noqa: BLE001
            part.viol(exc_sig("level-filter-construction", exc), f"LevelFilter({lev!r}): {exc!r}", {"level": lev}, rank=(len(lev), lev))
            continue
        for v in values:
            part.evaluations += 1
            got = lf.match(v)
            want = R.level_matches(lev, v)
            if want:
                part.nontrivial += 1
            if bool(got) != want:
                part.viol(f"level-match-differs:{'pair' if ',' in lev else 'single'}", f"LevelFilter({lev!r}).match({v}) = {got}, reference {want}", {"level": lev, "value": v}, rank=(len(lev), v))
    if k == 0:
        part.sample({"level": "31-8", "value": 16})
    return part


def w_whole(levels: int, idx: int, thorough: bool = False) -> Part:
    """All patterns with `levels` levels over WHOLE_ITEMS (one first item per unit) x ALL 65 536 group addresses."""
    part = Part()
    fmt = FMT[levels]
    first = WHOLE_ITEMS[idx]
    pats = ["/".join((first, *rest)) for rest in itertools.product(WHOLE_ITEMS, repeat=levels - 1)]
    saved = GroupAddress.address_format
    try:
        GroupAddress.address_format = fmt
        addrs = [GroupAddress(r) for r in range(65536)]
        first_pass: dict[str, bytes] = {}
        for pat in pats:
            flt = AddressFilter(pat)
            bits = bytearray(65536)
            for raw, ga in enumerate(addrs):
                got = flt.match(ga)
                bits[raw] = 1 if got else 0
                want = R.pattern_matches(pat, raw)
                part.evaluations += 1
                if want:
                    part.nontrivial += 1
                if bool(got) != want:
                    part.viol(f"pattern-match-differs:{levels}-level", f"AddressFilter({pat!r}).match({ga}) [{fmt.name}] = {got}, reference {want}", {"pattern": pat, "raw": raw, "levels": levels}, rank=(len(pat), raw))
            first_pass[pat] = bytes(bits)
            # the telegram-queue callback agrees with match()
            cb = TelegramQueue.Callback(lambda t: None, address_filters=[flt])
            for raw in (0, 1, 0x0901, 0x0FFF, 0xFFFF, 2048 + 7):
                tg = Telegram(GroupAddress(raw), direction=TelegramDirection.INCOMING)
                if cb.is_within_filter(tg) != bool(bits[raw]):
                    part.viol("callback-filter-disagrees", f"Callback.is_within_filter for {pat!r} / {raw}", {"pattern": pat, "raw": raw, "levels": levels})
            # string / int forms of the address give the same answer (0 is the broadcast address: not a device address)
            for raw in (1, 0x0901, 0xFFFF):
                for form in (str(GroupAddress(raw)), raw):
                    if bool(flt.match(form)) != bool(bits[raw]):
                        part.viol("address-form-changes-result", f"{pat!r}.match({form!r}) != match(GroupAddress)", {"pattern": pat, "raw": raw, "levels": levels})
        # state independence: toggle the notation, restore it, build the filters again and repeat the whole sweep
        for other in GroupAddressType:
            GroupAddress.address_format = other
        GroupAddress.address_format = fmt
        # ... and one filter INSTANCE used under another notation first must still answer by the current notation afterwards
        probe = [addrs[r] for r in (1, 5, 7, 255, 256, 261, 2047, 2048, 2053, 2309, 4464, 65535)] + addrs[::257]
        for pat in pats:
            flt = AddressFilter(pat)
            for other in GroupAddressType:
                if other is fmt:
                    continue
                GroupAddress.address_format = other
                for ga in probe:
                    try:
                        flt.match(ga)
                    except Exception:  # noqa: BLE001  a 3-level pattern is not applicable to 2-level notation
                        break
            GroupAddress.address_format = fmt
            for ga in probe:
                part.evaluations += 1
                if bool(flt.match(ga)) != R.pattern_matches(pat, ga.raw):
                    part.viol("match-depends-on-earlier-notation", f"{pat!r}.match({ga.raw}) [{fmt.name}] is wrong after the same filter object was used under another notation", {"pattern": pat, "raw": ga.raw, "levels": levels})
        for pat in pats:
            flt = AddressFilter(pat)
            step = 1 if thorough else 5
            again = bytes(1 if flt.match(ga) else 0 for ga in addrs[::step])
            part.evaluations += len(again)
            if again != first_pass[pat][::step]:
                raw = next(i * step for i in range(len(again)) if again[i] != first_pass[pat][i * step])
                part.viol("match-depends-on-history", f"{pat!r}.match({raw}) changed between two sweeps", {"pattern": pat, "raw": raw, "levels": levels})
    finally:
        GroupAddress.address_format = saved
    part.sample({"pattern": pats[0], "addresses": "all 65536"})
    return part


CB_PATTERNS = ["1/*/*", "0-1/2/3-4", "*/*/5", "1/2/3", "2-/*/7-", "i-a*"]
CB_ADDRS = ["1/2/3", "1/2/5", "0/2/4", "2/0/7", "3/1/5", "i-ab", "i-b"]


def w_callback_history(k: int, n: int, depth: int) -> Part:
    """The queue's Callback decides by pattern, address (and direction flag) only: ALL telegram histories up to `depth`
    over 7 addresses x {incoming, outgoing} against ONE callback object, every decision compared with the stateless reference."""
    part = Part()
    saved = GroupAddress.address_format
    GroupAddress.address_format = GroupAddressType.LONG
    try:
        addrs = [InternalGroupAddress(a) if a.startswith("i-") else GroupAddress(a) for a in CB_ADDRS]
        tele = [(a, d) for a in range(len(addrs)) for d in (TelegramDirection.INCOMING, TelegramDirection.OUTGOING)]
        configs = [(pats, gas, out) for pats in ([], [0], [1], [2, 4], [3], [5], [0, 5]) for gas in (None, [], [1], [5, 3]) for out in (False, True)]
        for ci, (pats, gas, out) in enumerate(configs):
            if ci % n != k:
                continue
            if not pats and gas is None:
                af = None
            else:
                af = [AddressFilter(CB_PATTERNS[i]) for i in pats]

            def want(a: int, d: TelegramDirection) -> bool:
                if d is TelegramDirection.OUTGOING and not out:
                    return False
                if af is None and gas is None:
                    return True
                ad = addrs[a]
                by_pat = any((R.glob_matches(CB_PATTERNS[i][2:], ad.raw[2:]) if isinstance(ad, InternalGroupAddress) else R.pattern_matches(CB_PATTERNS[i], ad.raw))
                             for i in pats if CB_PATTERNS[i].startswith("i-") == isinstance(ad, InternalGroupAddress))
                return by_pat or (gas is not None and a in gas)

            for hist in itertools.product(range(len(tele)), repeat=depth):
                cb = TelegramQueue.Callback(lambda t: None, address_filters=af, group_addresses=None if gas is None else [addrs[g] for g in gas], match_for_outgoing_telegrams=out)
                for step, ti in enumerate(hist):
                    a, d = tele[ti]
                    part.evaluations += 1
                    part.nontrivial += 1
                    try:
                        got = cb.is_within_filter(Telegram(addrs[a], direction=d))
                    except Exception as exc:  # noqa: BLE001
                        part.viol(exc_sig("callback-filter-raises", exc), f"patterns={[CB_PATTERNS[i] for i in pats]} {CB_ADDRS[a]}: {exc!r}", {"cb": [pats, gas, out, list(hist)]}, rank=(step,))
                        break
                    if bool(got) != want(a, d):
                        kind = "first-telegram" if step == 0 else "after-history"
                        part.viol(f"callback-filter-differs:{kind}", f"Callback(patterns={[CB_PATTERNS[i] for i in pats]}, group_addresses={None if gas is None else [CB_ADDRS[g] for g in gas]}, outgoing={out}) after "
                                  f"{[(CB_ADDRS[tele[t][0]], tele[t][1].name) for t in hist[:step]]}: is_within_filter({CB_ADDRS[a]}, {d.name}) = {got}, reference {want(a, d)}",
                                  {"cb": [pats, gas, out, list(hist[: step + 1])]}, rank=(step, ci))
                        break
    finally:
        GroupAddress.address_format = saved
    return part


def w_internal() -> Part:
    part = Part()
    sig_p = "ab*?"
    sig_n = "abA"
    pats = ["".join(p) for n in range(1, 5) for p in itertools.product(sig_p, repeat=n)]
    names = ["".join(p) for n in range(1, 4) for p in itertools.product(sig_n, repeat=n)]
    for pat in pats:
        for prefix in ("i-", "i_", "i"):
            if prefix == "i" and pat[0] in "-_":
                continue
            try:
                flt = AddressFilter(prefix + pat)
            except Exception as exc:  # noqa: BLE001
                part.viol(exc_sig("internal-pattern-construction", exc), f"AddressFilter({prefix + pat!r}): {exc!r}", {"internal": prefix + pat}, rank=(len(pat),))
                continue
            for name in names:
                part.evaluations += 1
                got = flt.match(InternalGroupAddress("i-" + name))
                want = R.glob_matches(pat, name)
                if want:
                    part.nontrivial += 1
                if bool(got) != want:
                    part.viol("internal-glob-differs", f"AddressFilter({prefix + pat!r}).match('i-{name}') = {got}, reference {want}", {"internal": prefix + pat, "name": name}, rank=(len(pat), len(name)))
            # a group address never matches an internal pattern and vice versa
            if flt.match(GroupAddress(1)):
                part.viol("internal-pattern-matches-group-address", f"{prefix + pat!r} matches 0/0/1", {"internal": prefix + pat, "name": None})
    if AddressFilter("*").match(InternalGroupAddress("i-a")):
        part.viol("group-pattern-matches-internal-address", "'*' matches i-a", {"internal": "*", "name": "a"})
    part.sample({"internal": "i-a*?", "name": "ab"})
    return part


def run(ctx: Ctx) -> None:
    ctx.rule = (
        f"(a) every level filter of one item over {len(items(ctx.seed))} items built from {NUMS}+seed (n, a-b, -b, a-, *) and every two-item list over {len(PAIR_ITEMS)} items, against every level "
        f"value 0..2048 and 65535; (b) ALL 1/2/3-level patterns over {WHOLE_ITEMS} x ALL 65 536 group addresses in the matching notation, each sweep repeated after toggling the notation "
        "(state independence), TelegramQueue.Callback and str/int address forms agree; (c) internal globs: all patterns <=4 chars over {a,b,*,?} x all names <=3 chars over {a,b,A}. "
        "(d) TelegramQueue.Callback over 56 configurations (pattern lists, explicit group addresses, outgoing flag): ALL histories of 3 (thorough 4) telegrams over 7 addresses x in/out against one callback object, every decision = the stateless reference. "
        "Reference: vf/ref/addr.py. non-trivial = pairs the reference says match"
    )
    n = 32
    ctx.pmap(w_level, [(k, n, ctx.seed) for k in range(n)])
    ctx.pmap(w_whole, [(lv, i, ctx.thorough) for lv in (3, 2, 1) for i in range(len(WHOLE_ITEMS))])
    ctx.pmap(w_internal, [()])
    ctx.pmap(w_callback_history, [(k, 16, 4 if ctx.thorough else 3) for k in range(16)])


def replay(case: Any) -> list[tuple[str, str]]:
    if "level" in case:
        lf = AddressFilter.LevelFilter(case["level"])
        v = case.get("value", 0)
        got, want = lf.match(v), R.level_matches(case["level"], v)
        return [] if bool(got) == want else [("level-match-differs:" + ("pair" if "," in case["level"] else "single"), f"{case['level']!r}.match({v}) = {got}, reference {want}")]
    if "pattern" in case:
        saved = GroupAddress.address_format
        try:
            GroupAddress.address_format = FMT[case["levels"]]
            got = AddressFilter(case["pattern"]).match(GroupAddress(case["raw"]))
            want = R.pattern_matches(case["pattern"], case["raw"])
            return [] if bool(got) == want else [(f"pattern-match-differs:{case['levels']}-level", f"{case['pattern']!r}.match({case['raw']}) = {got}, reference {want}")]
        finally:
            GroupAddress.address_format = saved
    if "cb" in case:
        p = Part()
        for k in range(16):
            q = w_callback_history(k, 16, max(1, len(case["cb"][3])))
            for sg, v in q.viols.items():
                p.viols.setdefault(sg, v)
        return [(sg, v[1]) for sg, v in p.viols.items()]
    p = w_internal()
    return [(s, v[1]) for s, v in p.viols.items()]
