"""C31 Keyrings load exactly what they contain and reject tampering."""

from __future__ import annotations

import base64
import functools
import itertools
import os
import shutil
from typing import Any
from xml.dom.minidom import parse as dom_parse

from xknx.exceptions import InvalidSecureConfiguration
import xknx.secure.keyring as KR
from xknx.telegram import GroupAddress, IndividualAddress

from ..ref import keyring_writer as W
from ..runner import REPO, Ctx, Part, exc_sig

TITLE = "keyrings"
K = [bytes(range(i, i + 16)) for i in (0, 16, 32, 48, 64)] + [b"\xff" * 16, bytes(16)]
PASSWORDS = ["a", "pässword", "twenty characters!!!"]
CREATED = ["2019-06-11T06:45:22", "2024-02-29T23:59:59.1234567Z"]
SHIPPED = [("keyring.knxkeys", "pwd"), ("testcase.knxkeys", "password"), ("special_chars_secure_tunnel.knxkeys", "test"), ("DataSecure_only_one_interface.knxkeys", "test"),
           ("DataSecure_usb.knxkeys", "test"), ("SecureTest.knxkeys", "test")]

INTERFACES: list[dict[str, Any]] = [
    {"ia": "1.0.1", "type": "Tunneling", "host": "1.0.0", "user_id": 2, "password": "tunnelpw", "authentication": "authcode", "groups": []},
    {"ia": "1.0.2", "type": "Tunneling", "host": "1.0.0", "groups": [(1, ["1.0.5"]), (2305, ["1.0.5", "1.0.6"])]},
    {"ia": "1.0.3", "type": "USB", "groups": [(1, [])]},
    {"ia": "1.0.4", "type": "Tunneling", "host": "1.0.9", "user_id": 127, "password": "pässwörd €", "authentication": "", "groups": [(2, ["1.0.1"])]},
    # every other subset of the optional credentials: a code without a password (as ETS writes for an interface of a secure device without tunnel credentials), a password without a code
    {"ia": "1.0.6", "type": "Tunneling", "host": "1.0.0", "authentication": "only-a-code", "groups": [(2305, [])]},
    {"ia": "1.0.7", "type": "Tunneling", "host": "1.0.0", "user_id": 3, "password": "only-a-password", "groups": []},
]
DEVICES: list[dict[str, Any]] = [
    {"ia": "1.0.0", "tool_key": K[3], "management_password": "mgmt", "authentication": "devauth", "sequence_number": 108},
    {"ia": "1.0.5", "tool_key": K[4], "management_password": "", "authentication": "x" * 20},
]


def models() -> list[dict[str, Any]]:
    out = []
    iface_sets = [[]] + [[i] for i in INTERFACES] + [[a, b] for a, b in itertools.permutations(INTERFACES, 2)]
    dev_sets = [[], [DEVICES[0]], [DEVICES[1]], [DEVICES[0], DEVICES[1]], [DEVICES[1], DEVICES[0]]]
    group_sets: list[list[tuple[int, bytes]]] = [[], [(1, K[1])], [(1, K[1]), (2305, K[2])], [(65535, K[5]), (2, K[6])]]
    for bi, bb in enumerate((None, {"multicast": "224.0.23.12", "latency": 1000, "key": K[0]}, {"multicast": "239.1.2.3", "latency": 2000, "key": K[5]})):
        for ii, itfs in enumerate(iface_sets):
            for di, devs in enumerate(dev_sets):
                for gi, groups in enumerate(group_sets):
                    n = bi + ii + di + gi
                    out.append({"project": f"P{n}", "created": CREATED[n % 2], "backbone": bb, "interfaces": itfs, "devices": devs, "groups": groups, "password": PASSWORDS[n % 3]})
    return out


_orig_hash = KR.hash_keyring_password


def memo_kdf(on: bool) -> None:
    KR.hash_keyring_password = functools.lru_cache(maxsize=64)(_orig_hash) if on else _orig_hash  # type: ignore[assignment]


def check_loaded(kr: Any, m: dict[str, Any]) -> list[tuple[str, str]]:
    viols: list[tuple[str, str]] = []

    def bad(what: str, got: Any, want: Any) -> None:
        viols.append((f"loaded-content-differs:{what}", f"{what}: loaded {got!r}, written {want!r}; project {m['project']}"))

    bb = m["backbone"]
    if (kr.backbone is None) != (bb is None):
        bad("backbone-presence", kr.backbone, bb)
    elif bb is not None:
        if kr.backbone.decrypted_key != bb["key"]:
            bad("backbone-key", kr.backbone.decrypted_key, bb["key"])
        if kr.backbone.latency != bb["latency"] or kr.backbone.multicast_address != bb["multicast"]:
            bad("backbone-latency-or-multicast", (kr.backbone.latency, kr.backbone.multicast_address), (bb["latency"], bb["multicast"]))
    if len(kr.interfaces) != len(m["interfaces"]):
        bad("interface-count", len(kr.interfaces), len(m["interfaces"]))
    for got, want in zip(kr.interfaces, m["interfaces"]):
        tup = (str(got.individual_address), got.type.value, str(got.host) if got.host else None, got.user_id, got.decrypted_password, got.decrypted_authentication)
        exp = (want["ia"], want["type"], want.get("host"), want.get("user_id"), want.get("password"), want.get("authentication"))
        if tup != exp:
            bad("interface", tup, exp)
        gas = {GroupAddress(ga): [IndividualAddress(s) for s in senders] for ga, senders in want.get("groups", [])}
        if got.group_addresses != gas:
            bad("interface-sender-list", got.group_addresses, gas)
    keys = {GroupAddress(ga): key for ga, key in m["groups"]}
    if kr.get_data_secure_group_keys() != keys:
        bad("group-keys", kr.get_data_secure_group_keys(), keys)
    for want in m["interfaces"]:
        mine = {GroupAddress(ga): keys[GroupAddress(ga)] for ga, _s in want.get("groups", []) if GroupAddress(ga) in keys}
        got_keys = kr.get_data_secure_group_keys(receiver=IndividualAddress(want["ia"]))
        if got_keys != mine:
            bad("group-keys-of-receiver", got_keys, mine)
    if len(kr.devices) != len(m["devices"]):
        bad("device-count", len(kr.devices), len(m["devices"]))
    for got, want in zip(kr.devices, m["devices"]):
        tup = (str(got.individual_address), got.decrypted_tool_key, got.decrypted_management_password, got.decrypted_authentication, got.sequence_number)
        exp = (want["ia"], want["tool_key"], want["management_password"], want["authentication"], want.get("sequence_number") or 0)
        if tup != exp:
            bad("device", tup, exp)
    senders = {IndividualAddress(s): 0 for itf in m["interfaces"] for _ga, ss in itf.get("groups", []) for s in ss}
    for d in m["devices"]:
        senders[IndividualAddress(d["ia"])] = d.get("sequence_number") or 0
    if kr.get_data_secure_senders() != senders:
        bad("data-secure-senders", kr.get_data_secure_senders(), senders)
    # lookups
    for want in m["interfaces"]:
        ia = IndividualAddress(want["ia"])
        itf = kr.get_interface_by_individual_address(ia)
        if itf is None or str(itf.individual_address) != want["ia"]:
            bad("lookup-by-address", itf, want["ia"])
        if want["type"] == "Tunneling":
            host = kr.get_tunnel_host_by_interface(ia)
            if (str(host) if host else None) != want.get("host"):
                bad("tunnel-host-lookup", host, want.get("host"))
            if want.get("user_id") is not None:
                first = next(w for w in m["interfaces"] if w["type"] == "Tunneling" and w.get("host") == want["host"] and w.get("user_id") == want["user_id"])
                hit = kr.get_tunnel_interface_by_host_and_user_id(IndividualAddress(want["host"]), want["user_id"])
                if hit is None or str(hit.individual_address) != first["ia"]:
                    bad("tunnel-lookup-by-host-and-user", hit, first["ia"])
    return viols


def mutations(root: W.El) -> list[tuple[str, W.El]]:
    """Every single mutation of the stated kinds; each returns a fresh tree (the Signature attribute is left as it was)."""
    out: list[tuple[str, W.El]] = []
    nodes = root.walk()
    for path, el in nodes:
        for ai, (k, v) in enumerate(el.attrs):
            if k in ("xmlns", "Signature"):
                continue
            variants = {"append-char": v + "x", "delete-last-char": v[:-1], "empty": "", "too-long": v + "A" * 300}
            for pos_name, pos in (("first", 0), ("middle", len(v) // 2), ("last", len(v) - 1)):
                if v:
                    c = v[pos]
                    variants[f"change-{pos_name}-char"] = v[:pos] + ("B" if c != "B" else "C") + v[pos + 1 :]
            for name, nv in variants.items():
                if nv == v:
                    continue
                t = root.clone()
                t.at(path).attrs[ai] = (k, nv)
                out.append((f"attribute-value:{name}:{el.name}.{k}", t))
            t = root.clone()
            t.at(path).attrs[ai] = (k + "x", v)
            out.append((f"attribute-renamed:{el.name}.{k}", t))
            t = root.clone()
            del t.at(path).attrs[ai]
            out.append((f"attribute-deleted:{el.name}.{k}", t))
            for aj in range(ai + 1, len(el.attrs)):
                k2, v2 = el.attrs[aj]
                if k2 in ("xmlns", "Signature") or v2 == v:
                    continue
                t = root.clone()
                t.at(path).attrs[ai], t.at(path).attrs[aj] = (k, v2), (k2, v)
                out.append((f"attribute-values-swapped:{el.name}.{k}<->{k2}", t))
        t = root.clone()
        t.at(path).attrs.append(("Extra", "1"))
        out.append((f"attribute-added:{el.name}", t))
        t = root.clone()
        t.at(path).name = el.name + "X"
        out.append((f"element-renamed:{el.name}", t))
        t = root.clone()
        t.at(path).children.append(W.El("Injected", [("a", "b")]))
        out.append((f"element-added-under:{el.name}", t))
        if not path:
            continue
        parent, idx = path[:-1], path[-1]
        t = root.clone()
        del t.at(parent).children[idx]
        out.append((f"element-deleted:{el.name}", t))
        t = root.clone()
        t.at(parent).children.insert(idx, t.at(path).clone())
        out.append((f"element-duplicated:{el.name}", t))
        sibs = root.at(parent).children
        if idx + 1 < len(sibs):
            t = root.clone()
            ch = t.at(parent).children
            ch[idx], ch[idx + 1] = ch[idx + 1], ch[idx]
            out.append((f"elements-swapped:{el.name}<->{sibs[idx + 1].name}", t))
        if idx > 0:
            t = root.clone()
            moved = t.at(parent).children.pop(idx)
            t.at(parent).children[idx - 1].children.append(moved)
            out.append((f"element-moved-into-previous-sibling:{el.name}", t))
        if len(path) >= 2:
            t = root.clone()
            moved = t.at(parent).children.pop(idx)
            gp = t.at(parent[:-1])
            gp.children.insert(parent[-1] + 1, moved)
            out.append((f"element-moved-up:{el.name}", t))
    return out


def sig_attr(root: W.El) -> str:
    return dict(root.attrs)["Signature"]


def with_sig(root: W.El, sig: str) -> W.El:
    t = root.clone()
    t.attrs = [(k, (sig if k == "Signature" else v)) for k, v in t.attrs]
    return t


class Files:
    def __init__(self) -> None:
        self.dir = f"/dev/shm/xknx-verif-c31-{os.getpid()}"
        os.makedirs(self.dir, exist_ok=True)
        self.path = os.path.join(self.dir, "keyring.knxkeys")

    def write(self, root: W.El) -> str:
        with open(self.path, "w", encoding="utf-8") as fh:
            fh.write(W.document(root))
        return self.path

    def close(self) -> None:
        shutil.rmtree(self.dir, ignore_errors=True)


def must_fail(files: Files, tree: W.El, password: str, label: str, part: Part, case: Any) -> None:
    path = files.write(tree)
    part.evaluations += 1
    try:
        ok = KR.verify_keyring_signature(path, password)
    except Exception as exc:  # noqa: BLE001
        ok = False
        part.outcomes["verify-raises:" + type(exc).__name__] += 1
    if ok:
        part.viol(f"tampering-accepted:{label.split(':')[0]}" + (":" + label.split(":")[1] if label.startswith("attribute-value") else ""), f"{label}: verify_keyring_signature accepts the changed file", case, rank=(len(label), label))
    try:
        KR.sync_load_keyring(path, password)
        part.viol(f"tampered-keyring-loads:{label.split(':')[0]}", f"{label}: sync_load_keyring loads the changed file", case, rank=(len(label), label))
    except InvalidSecureConfiguration:
        part.outcomes["load-refused"] += 1
    except Exception as exc:  # noqa: BLE001
        # still a refusal, but not the declared one
        part.outcomes["load-refused-with-" + type(exc).__name__] += 1
        part.viol(f"tampered-keyring-refused-with-{type(exc).__name__}", f"{label}: sync_load_keyring raises {exc!r} instead of InvalidSecureConfiguration", case, rank=(len(label), label))


def tamper_suite(files: Files, root: W.El, password: str, part: Part, tag: Any) -> None:
    """All single mutations of one signed tree (reference stream decides whether signed content changed)."""
    base_stream = W.canon(root)
    # sanity: the untouched tree, re-serialised, verifies (whitespace and attribute order are not signed)
    path = files.write(root)
    if not KR.verify_keyring_signature(path, password):
        part.viol("genuine-keyring-rejected", f"{tag}: re-serialised genuine keyring does not verify", ["tamper", tag, "genuine"])
        return
    part.nontrivial += 1
    for label, tree in mutations(root):
        if W.canon(tree) == base_stream:
            continue
        try:
            W.document(tree)
        except Exception:  # noqa: BLE001
            continue
        must_fail(files, tree, password, label, part, ["tamper", tag, label])
        # the genuine file written to the same path afterwards must verify again (no stale verdict)
    path = files.write(root)
    if not KR.verify_keyring_signature(path, password):
        part.viol("genuine-keyring-rejected-after-tampered-ones", f"{tag}", ["tamper", tag, "genuine-again"])
    # the Signature attribute itself, the unsigned xmlns, and the password
    sig = base64.b64decode(sig_attr(root))
    for label, s in (("signature-emptied", ""), ("signature-truncated", base64.b64encode(sig[:8]).decode()), ("signature-extended", base64.b64encode(sig + b"\0").decode()),
                     ("signature-bit-flipped", base64.b64encode(bytes([sig[0] ^ 1]) + sig[1:]).decode())):
        must_fail(files, with_sig(root, s), password, label, part, ["tamper", tag, label])
    # an emptied / truncated signature together with a content change
    changed = root.clone()
    changed.attrs = [(k, (v + "2" if k == "Project" else v)) for k, v in changed.attrs]
    for label, s in (("content-change+signature-emptied", ""), ("content-change+signature-truncated", base64.b64encode(sig[:4]).decode())):
        must_fail(files, with_sig(changed, s), password, label, part, ["tamper", tag, label])
    for label, pw in (("wrong-password-suffix", password + "x"), ("wrong-password-case", password.swapcase() if password.swapcase() != password else password + "A"), ("empty-password", "")):
        must_fail(files, root, pw, label, part, ["tamper", tag, label])
    t = root.clone()
    t.attrs = [(k, ("http://example.org/other" if k == "xmlns" else v)) for k, v in t.attrs]
    path = files.write(t)
    part.evaluations += 1
    if not KR.verify_keyring_signature(path, password):
        part.viol("unsigned-attribute-change-rejected", f"{tag}: changing xmlns (not part of the signed content) breaks verification", ["tamper", tag, "xmlns"])


EDGE_PASSWORDS = [" test ", "test ", "\ttest", "pass word\n", " ", "pwd"]
LONG_NAMES = ["a" * 253, "b" * 254, "c" * 255, "\u20ac" * 85, "\u00e4" * 127 + "a", "\u00e4" * 127]


def boundary_suite(files: Files, part: Part) -> None:
    """Values at the one-octet length prefix of the signed stream (253, 254, 255 octets, also in multi-byte characters), and
    passwords with leading / trailing whitespace - through the synchronous AND the asynchronous loader (the one the interface uses)."""
    import asyncio

    base = models()[7]

    def loaders(path: str, pw: str) -> list[tuple[str, Any]]:
        return [("sync_load_keyring", lambda: KR.sync_load_keyring(path, pw)), ("load_keyring", lambda: asyncio.run(KR.load_keyring(path, pw)))]

    for name in LONG_NAMES:
        m = dict(base, project=name)
        pw = m["password"]
        root = W.build(m, pw)
        path = files.write(root)
        for lname, load in loaders(path, pw):
            part.evaluations += 1
            part.nontrivial += 1
            case = ["boundary", "name", len(name.encode()), lname]
            try:
                kr = load()
            except Exception as exc:  # noqa: BLE001
                part.viol(exc_sig("genuine-keyring-rejected:long-value", exc), f"{lname}: project name of {len(name.encode())} octets ({len(name)} characters): {exc!r}", case)
                continue
            for sg, d in check_loaded(kr, m):
                part.viol(sg, d, case)
    for pw in EDGE_PASSWORDS:
        m = dict(base, password=pw)
        root = W.build(m, pw)
        path = files.write(root)
        for lname, _ in loaders(path, pw):
            for given in [pw] + [v for v in (pw.strip(), pw + "\n", " " + pw, pw + " ", "\r\n" + pw + "\t") if v != pw]:
                load = dict(loaders(path, given))[lname]
                part.evaluations += 1
                part.nontrivial += 1
                case = ["boundary", "password", pw, given, lname]
                try:
                    kr = load()
                    ok = True
                except InvalidSecureConfiguration:
                    ok = False
                except Exception as exc:  # noqa: BLE001
                    part.viol(exc_sig("load-raises-undeclared", exc), f"{lname}({given!r}) on a keyring protected by {pw!r}: {exc!r}", case)
                    continue
                if given == pw and not ok:
                    part.viol(f"genuine-keyring-rejected:password-with-whitespace:{lname}", f"{lname}: keyring protected by {pw!r} refused for exactly that password", case)
                elif given != pw and ok:
                    part.viol(f"wrong-password-accepted:{lname}", f"{lname}: keyring protected by {pw!r} loads with {given!r}", case)
                elif ok:
                    for sg, d in check_loaded(kr, m):
                        part.viol(sg, d, case)


def worker(k: int, n: int, thorough: bool, seed: int) -> Part:
    import logging

    logging.disable(logging.CRITICAL)
    part = Part()
    files = Files()
    memo_kdf(True)
    try:
        ms = models()
        for i in range(k, len(ms), n):
            m = ms[i]
            pw = m["password"]
            root = W.build(m, pw)
            path = files.write(root)
            part.evaluations += 1
            try:
                kr = KR.sync_load_keyring(path, pw)
            except Exception as exc:  # noqa: BLE001
                part.viol(exc_sig("genuine-keyring-rejected", exc), f"{exc!r}; model {m['project']}: {W.document(root)[:400]}", ["model", i], rank=(i,))
                continue
            part.nontrivial += 1
            for s, d in check_loaded(kr, m):
                part.viol(s, d, ["model", i], rank=(i,))
            must_fail(files, root, pw + "x", "wrong-password", part, ["model", i, "wrong-password"])
            if i % (4 if thorough else 24) == seed % 4:
                tamper_suite(files, root, pw, part, f"model-{i}")
        for si, (fname, pw) in enumerate(SHIPPED):
            if si % n != k:
                continue
            src = os.path.join(REPO, "test", "secure_tests", "resources", fname)
            if not os.path.exists(src):
                part.outcomes["shipped-file-missing"] += 1
                continue
            root = W.from_minidom(dom_parse(src).documentElement)
            # the independent signature computation agrees with the ETS export
            if W.signature(root, pw) != sig_attr(root):
                part.viol("reference-signature-differs-from-ets-export", f"{fname}", ["shipped", fname])
                continue
            if not KR.verify_keyring_signature(src, pw):
                part.viol("genuine-keyring-rejected", f"shipped {fname}", ["shipped", fname])
            tamper_suite(files, root, pw, part, f"shipped-{fname}")
        if k == 1 % n:
            boundary_suite(files, part)
        # one genuine load and one tampered file with the real (un-memoised) key derivation
        if k == 0:
            memo_kdf(False)
            m = models()[7]
            root = W.build(m, m["password"])
            path = files.write(root)
            kr = KR.sync_load_keyring(path, m["password"])
            for s, d in check_loaded(kr, m):
                part.viol(s, d, ["model", 7, "unmemoised"])
            must_fail(files, root, "other", "wrong-password-unmemoised", part, ["model", 7, "unmemoised"])
        part.sample(["model", k])
    finally:
        memo_kdf(False)
        files.close()
    return part


def run(ctx: Ctx) -> None:
    ms = models()
    ctx.rule = (
        f"{len(ms)} keyrings written by an independent writer (own AES-CBC on a pure-Python AES, PBKDF2/SHA-256 from hashlib, own signature stream): backbone absent/2 variants x ALL interface lists of 0..2 from 4 "
        "variants (tunnelling with credentials, data-secure only with sender lists, USB, unicode password/empty authentication) x 5 device lists (with/without sequence number) x 4 group-key tables, passwords "
        f"{PASSWORDS}; each loaded by the real sync_load_keyring and compared field by field (keys, passwords, user ids, authentication codes, sender table with sequence numbers, lookups); a wrong password must "
        f"be refused. For every {4 if ctx.thorough else 24}th of them and the 6 ETS exports shipped with the tests (whose signatures the reference reproduces): EVERY single mutation - per attribute: change first/middle/"
        "last character, append, delete, empty, over-long value, rename, delete, swap values; per element: add attribute, rename, add child, delete, duplicate, swap with sibling, move into previous sibling, move up - "
        "plus emptied/truncated/extended/bit-flipped signatures (alone and with a content change) and wrong passwords must fail verification and loading; a change to the unsigned xmlns must not. All files share "
        "one path, so a verdict cached per path would show. Boundaries: project names of 253/254/255 octets (ASCII and multi-byte), and 6 passwords with leading/trailing whitespace each tried exactly and in 4-5 "
        "padded/stripped variants - through sync_load_keyring and the asynchronous load_keyring."
    )
    ctx.bounds = {"models": len(ms), "shipped_exports": len(SHIPPED)}
    ctx.assumptions = ["hash_keyring_password (PBKDF2, 65 536 iterations) is memoised during the sweep; one genuine and one tampered load run with the real function"]
    ctx.pmap(worker, [(k, 64, ctx.thorough, ctx.seed) for k in range(64)])


def replay(case: Any) -> list[tuple[str, str]]:
    p = Part()
    files = Files()
    memo_kdf(True)
    try:
        if case[0] == "boundary":
            boundary_suite(files, p)
        elif case[0] == "model":
            m = models()[case[1]]
            root = W.build(m, m["password"])
            path = files.write(root)
            try:
                kr = KR.sync_load_keyring(path, m["password"])
                for s, d in check_loaded(kr, m):
                    p.viol(s, d, case)
            except Exception as exc:  # noqa: BLE001
                p.viol(exc_sig("genuine-keyring-rejected", exc), repr(exc), case)
            must_fail(files, root, m["password"] + "x", "wrong-password", p, case)
        elif case[0] == "tamper":
            tag = case[1]
            if tag.startswith("model-"):
                m = models()[int(tag[6:])]
                root, pw = W.build(m, m["password"]), m["password"]
            else:
                fname = tag[len("shipped-"):]
                pw = dict(SHIPPED)[fname]
                root = W.from_minidom(dom_parse(os.path.join(REPO, "test", "secure_tests", "resources", fname)).documentElement)
            tamper_suite(files, root, pw, p, tag)
    finally:
        memo_kdf(False)
        files.close()
    return [(s, v[1]) for s, v in p.viols.items()]
