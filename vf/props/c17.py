"""C17 Data Secure enforces sequence-number freshness in both directions."""

from __future__ import annotations

import collections
from typing import Any

from xknx.cemi import CEMILData
from xknx.dpt import DPTArray
from xknx.exceptions import DataSecureError
from xknx.management.management import Management
from xknx.secure.data_secure import DataSecure
from xknx.telegram import GroupAddress, IndividualAddress, Telegram
from xknx.telegram.apci import GroupValueWrite, SecureAPDU

from ..dsecure import SCF_ENC, Receiver, encode_ldata, secure_frame
from ..runner import Ctx, Part, exc_sig

TITLE = "Data Secure sequence freshness"
KEY = bytes(range(16))
GA = 0x0901
S1, S2, UNKNOWN = 0x1101, 0x1102, 0x1109
GOOD_APDU = bytes.fromhex("008007")          # GroupValueWrite 7
BAD_APDU = bytes.fromhex("03d70535")         # truncated A_PropertyValue_Write: authentic but malformed


# forged-*: frames an attacker without the key can build - a flipped MAC, a frame with NO secured APDU at all (counter + 4 octets, the
# shortest the parser accepts), an authentication-only frame with a wrong MAC, a genuine frame cut short by one octet
KINDS = ("genuine", "forged-mac", "authentic-malformed", "forged-no-apdu", "forged-authentication-only", "forged-cut-short")


def event_list(maxc: int) -> list[tuple[int, int, str]]:
    return [(s, c, k) for s in (S1, S2, UNKNOWN) for c in range(0, maxc + 1) for k in KINDS]


def frame_for(ev: tuple[int, int, str]) -> bytes:
    sender, counter, kind = ev
    if kind == "forged-no-apdu":
        sec_apdu = bytes((0x03, 0xF1, SCF_ENC)) + counter.to_bytes(6, "big") + b"\xde\xad\xbe\xef"
        return encode_ldata(0x29, priority=3, repeat_on_error=False, system_broadcast=False, ack=False, confirm_error=False, hop_count=6, dst_is_group=True, src=sender, dst=GA, tpci_octet=0, apdu=sec_apdu)
    if kind == "forged-cut-short":
        full = secure_frame(KEY, sender, GA, counter, GOOD_APDU + b"\x01")
        return full[:6] + bytes((full[6] - 1,)) + full[7:-5] + full[-4:]      # one ciphertext octet removed, length octet adjusted
    raw = secure_frame(KEY, sender, GA, counter, BAD_APDU if kind == "authentic-malformed" else GOOD_APDU, encrypt=kind != "forged-authentication-only")
    if kind in ("forged-mac", "forged-authentication-only"):
        raw = raw[:-1] + bytes((raw[-1] ^ 0x01,))
    return raw


def replay_history(hist: list[tuple[int, int, str]]) -> tuple[Receiver, list[Any]]:
    rx = Receiver({GA: KEY}, {S1: 0, S2: 0})
    obs = []
    for ev in hist:
        got, issues, exc = rx.feed(frame_for(ev))
        obs.append((len(got), issues, type(exc).__name__ if exc else None))
    return rx, obs


def bfs(maxc: int, part: Part) -> None:
    """Explicit-state search: state = the receiver's last-valid-counter table, reached by real histories."""
    events = event_list(maxc)
    start: list[tuple[int, int, str]] = []
    seen: dict[tuple[int, int], list[Any]] = {(0, 0): start}
    frontier = collections.deque([start])
    while frontier:
        hist = frontier.popleft()
        rx0, _ = replay_history(hist)
        t0 = rx0.table()
        state = (t0[S1], t0[S2])
        for ev in events:
            sender, counter, kind = ev
            rx, _ = replay_history(hist)
            got, issues, exc = rx.feed(frame_for(ev))
            t1 = rx.table()
            part.transitions += 1
            part.evaluations += 1
            case = {"history": [list(h) for h in hist], "event": list(ev)}
            last = {S1: state[0], S2: state[1]}.get(sender)
            fresh = last is not None and counter > last
            want_deliver = kind == "genuine" and fresh
            part.outcomes[f"{kind}:{'delivered' if got else 'dropped'}"] += 1
            if fresh:
                part.nontrivial += 1
            if exc is not None:
                if kind == "authentic-malformed":
                    part.extra["malformed_inner_apdu_raises"] = part.extra.get("malformed_inner_apdu_raises", 0) + 1   # C18's business
                else:
                    part.viol(exc_sig(f"receive-raises:{kind}", exc), f"state {state}, event {ev}: {exc!r}", case, rank=(len(hist),))
            if bool(got) != want_deliver:
                k = "delivered-not-fresh" if got and not fresh else "delivered-unknown-sender" if got and last is None else "delivered-unauthentic" if got else "fresh-genuine-frame-dropped"
                part.viol(f"freshness:{k}", f"state (S1,S2)={state}, event sender={sender:#06x} counter={counter} {kind}: delivered={len(got)}, reference {int(want_deliver)}", case, rank=(len(hist),))
            if got and (got[0].payload != GroupValueWrite(DPTArray((7,))) or not got[0].data_secure):
                part.viol("delivered-content-wrong", f"state {state}, event {ev}: {got[0]}", case, rank=(len(hist),))
            # the table: only an authentic fresh frame may advance it, and exactly to its own counter
            want_tables = []
            if kind == "genuine" and fresh:
                want_tables = [{**t0, sender: counter}]
            elif kind == "authentic-malformed" and fresh:
                want_tables = [{**t0, sender: counter}, dict(t0)]   # authentic: advancing is legitimate; not advancing is tolerated
            else:
                want_tables = [dict(t0)]
            if t1 not in want_tables:
                part.viol(f"counter-table-changed-wrongly:{kind}", f"state {t0}, event sender={sender:#06x} counter={counter} {kind}: table now {t1}", case, rank=(len(hist),))
            if set(t1) != {S1, S2}:
                part.viol("unknown-sender-entered-table", f"{t1}", case)
            key = (t1[S1], t1[S2])
            if key not in seen and set(t1) == {S1, S2}:
                seen[key] = hist + [ev]
                frontier.append(hist + [ev])
    part.states = len(seen)
    part.traces = len(seen)
    part.sample({"states": sorted(seen)[:6], "events_per_state": len(events)})


def sending(part: Part) -> None:
    """Outgoing sequence numbers: strictly increasing, <= 48 bits, exhaustion raises and persists."""
    for start in (1, 5, 2**48 - 3):
        ds = DataSecure(group_key_table={GroupAddress(GA): KEY}, individual_address_table={}, last_sequence_number_sending=start)
        data = CEMILData.init_from_telegram(Telegram(GroupAddress(GA), payload=GroupValueWrite(DPTArray((1,)))), src_addr=IndividualAddress(0x1105))
        seen_seq: list[int] = []
        refused = 0
        for _ in range(8):
            part.evaluations += 1
            try:
                out = ds.outgoing_cemi(data)
            except DataSecureError:
                refused += 1
                continue
            except Exception as exc:  # noqa: BLE001
                part.viol(exc_sig("outgoing-raises", exc), f"start={start}: {exc!r}", {"send_start": start})
                break
            if refused:
                part.viol("send-after-exhaustion", f"start={start}: a frame was secured after the sequence numbers were exhausted", {"send_start": start})
            assert isinstance(out.payload, SecureAPDU)
            seen_seq.append(int.from_bytes(out.payload.secured_data.sequence_number_bytes, "big"))
        if any(b <= a for a, b in zip(seen_seq, seen_seq[1:])):
            part.viol("outgoing-sequence-not-increasing", f"start={start}: {seen_seq}", {"send_start": start})
        if any(s >= 2**48 or s < 1 for s in seen_seq):
            part.viol("outgoing-sequence-out-of-48-bits", f"start={start}: {seen_seq}", {"send_start": start})
        if start > 2**48 - 10 and not refused:
            part.viol("exhaustion-not-refused", f"start={start}: 8 frames secured: {seen_seq}", {"send_start": start})
        part.outcomes[f"send-from-{start}:{len(seen_seq)}-ok-{refused}-refused"] += 1
    # out-of-range initial values are refused at construction
    for bad in (0, -1, 2**48):
        try:
            DataSecure(group_key_table={GroupAddress(GA): KEY}, individual_address_table={}, last_sequence_number_sending=bad or None)
        except DataSecureError:
            pass
        except Exception as exc:  # noqa: BLE001
            part.viol(exc_sig("constructor-raises", exc), f"last_sequence_number_sending={bad}: {exc!r}", {"send_start": bad})


SEND_OUTCOMES = ["ok", "CommunicationError-after-transmission", "ConversionError", "no-confirmation", "restart(+4ms)", "restart(+600ms)", "restart(+1500ms)"]


def send_histories(part: Part, depth: int) -> None:
    """The sending direction through the real send path: CEMIHandler.send_telegram over an interface that records what reaches
    the wire and then succeeds, raises CommunicationError (as a UDP tunnel does AFTER it has transmitted the frame and got no
    acknowledgement), raises ConversionError, or never confirms; and re-initialisation of Data Secure from the keyring a little
    later on an explorer-owned clock (what XKNX.stop() + start() does).  ALL histories up to `depth`: the secured frames that
    reached the wire carry strictly increasing sequence numbers, across failures and restarts."""
    import itertools
    import types

    from xknx import XKNX
    from xknx.exceptions import CommunicationError, ConversionError
    from xknx.secure import data_secure as ds_mod
    from xknx.secure.keyring import InterfaceType, Keyring, XMLGroupAddress, XMLInterface

    from ..vloop import World

    kr = Keyring()
    g = XMLGroupAddress()
    g.address = GroupAddress(GA)
    g.decrypted_key = KEY
    kr.group_addresses.append(g)
    itf = XMLInterface()
    itf.type = InterfaceType.TUNNELING
    itf.individual_address = IndividualAddress(0x1105)
    itf.group_addresses = {GroupAddress(GA): [IndividualAddress(S1)]}
    kr.interfaces.append(itf)
    saved_time = ds_mod.time
    try:
        for hist in itertools.product(range(len(SEND_OUTCOMES)), repeat=depth):
            part.evaluations += 1
            part.nontrivial += 1
            clock = {"t": 1_700_000_000.25}
            ds_mod.time = types.SimpleNamespace(time=lambda: clock["t"])  # type: ignore[assignment]
            wire: list[int] = []
            with World() as w:
                xknx = XKNX()
                xknx.current_address = IndividualAddress(0x1105)
                mode = {"m": "ok"}

                class Iface:
                    async def send_cemi(self, cemi: Any) -> None:
                        if mode["m"] == "ConversionError":
                            raise ConversionError("cannot serialise")
                        if isinstance(cemi.data.payload, SecureAPDU):
                            wire.append(int.from_bytes(cemi.data.payload.secured_data.sequence_number_bytes, "big"))
                        else:
                            wire.append(-1)
                        if mode["m"] == "CommunicationError-after-transmission":
                            raise CommunicationError("no TunnellingAck received")
                        if mode["m"] == "ok":
                            w.loop.call_soon(xknx.cemi_handler._l_data_confirmation_event.set)  # noqa: SLF001

                xknx.knxip_interface = Iface()  # type: ignore[assignment]
                xknx.cemi_handler.data_secure_init(kr)
                desc = []
                for step, oi in enumerate(hist):
                    out = SEND_OUTCOMES[oi]
                    desc.append(out)
                    if out.startswith("restart"):
                        clock["t"] += {"restart(+4ms)": 0.004, "restart(+600ms)": 0.6, "restart(+1500ms)": 1.5}[out]
                        xknx.cemi_handler.data_secure_init(kr)
                        continue
                    mode["m"] = out

                    async def snd(i: int = step) -> None:
                        try:
                            await xknx.cemi_handler.send_telegram(Telegram(GroupAddress(GA), payload=GroupValueWrite(DPTArray((i,)))))
                        except Exception:  # noqa: BLE001  (the failure is the environment's choice)
                            pass

                    t = w.spawn(snd(), name="harness-send")
                    w.loop.run_until(w.loop.time() + 5)
                    clock["t"] += 0.001
                    if not t.done():
                        part.viol("send-never-returns", f"history {desc}", {"send_history": list(hist)})
                        break
                xknx.started.clear()
            case = {"send_history": list(hist)}
            if any(n == -1 for n in wire):
                part.viol("plain-frame-sent-to-secured-group", f"history {desc}: {wire}", case, rank=(len(hist), hist))
            elif any(b <= a for a, b in zip(wire, wire[1:])):
                kind = "after-restart" if any(d.startswith("restart") for d in desc) else "after-failed-send" if any(d != "ok" for d in desc) else "plain"
                part.viol(f"outgoing-sequence-not-increasing:{kind}", f"history {desc}: sequence numbers on the wire {wire}", case, rank=(len(hist), hist))
            part.outcomes[f"send-history:{len(wire)}-frames"] += 1
    finally:
        ds_mod.time = saved_time


def worker(maxc: int) -> Part:
    part = Part()
    orig = Management.process
    Management.process = lambda self, telegram: None  # type: ignore[method-assign]
    try:
        bfs(maxc, part)
        sending(part)
        send_histories(part, 4 if maxc >= 5 else 3)
    finally:
        Management.process = orig  # type: ignore[method-assign]
    return part


def run(ctx: Ctx) -> None:
    maxc = 5 if ctx.thorough else 4
    ctx.rule = (
        f"explicit-state search to a fixpoint of the real receive path (CEMIHandler.handle_raw_cemi + DataSecure): state = last valid counter of two known senders (0..{maxc})^2, reached by real "
        f"frame histories; from EVERY state every event sender {{S1,S2,unknown}} x counter 1..{maxc} x {{genuine, forged MAC, authentic but malformed inner APDU}} is fed (frames built by the independent "
        "reference) and delivery / next table compared with a last-valid-counter reference; plus outgoing numbering from {1, 5, 2^48-3} until refusal; plus ALL histories of 3 (thorough 4) sends through the real CEMIHandler.send_telegram over an interface that succeeds / raises "
        "CommunicationError after the frame went out / raises ConversionError / never confirms, interleaved with re-initialisation from the keyring 4 ms, 600 ms or 1.5 s later on an owned clock: "
        "sequence numbers on the wire strictly increase"
    )
    ctx.assumptions = ["canonical state = the Security Individual Address Table (the only mutable receive state of DataSecure); every explored state is reached by replaying its history on a fresh receiver"]
    ctx.bounds = {"max_counter": maxc, "states_expected": (maxc + 1) ** 2}
    ctx.pmap(worker, [(maxc,)])


def replay(case: Any) -> list[tuple[str, str]]:
    p = worker(5 if len(case.get("send_history", [])) > 3 else 4)
    return [(s, v[1]) for s, v in p.viols.items()]
