"""C22 Transports deliver stream frames once, in order, without crashing."""

from __future__ import annotations

import itertools
from typing import Any, Iterator

from xknx.exceptions import CouldNotParseKNXIP

from xknx.io.transport import TCPTransport, UDPTransport
from xknx.knxip import ConnectionStateResponse, KNXIPFrame, TunnellingAck, TunnellingRequest

from ..knxipspace import CEMI_11, valid_frames
from ..runner import Ctx, Part, exc_sig
from . import c20

TITLE = "transports"


def fr(body: Any) -> bytes:
    return KNXIPFrame.init_from_body(body).to_knx()


# kind -> (bytes, well-formed?, skippable by its announced length?)
KINDS: dict[str, tuple[bytes, bool, bool]] = {
    "ack": (fr(TunnellingAck(7, 3)), True, True),
    "csr": (fr(ConnectionStateResponse(7)), True, True),
    "treq": (fr(TunnellingRequest(7, 4, CEMI_11)), True, True),
    "unknown-service": (bytes.fromhex("06100a010008aabb"), False, True),
    "bad-body": (bytes.fromhex("06100421000a04070377"), False, True),       # TunnellingAck with unassigned status code
    "bad-version": (bytes.fromhex("061104210008ccdd"), False, True),
    "length-below-header": (bytes.fromhex("061004210003"), False, False),
}
ORDER = list(KINDS)


def reference(stream_kinds: tuple[str, ...]) -> list[bytes]:
    out = []
    for k in stream_kinds:
        raw, ok, skippable = KINDS[k]
        if ok:
            out.append(raw)
        if not skippable:
            break  # resynchronisation after an unskippable header is not specified: only 'no exception' is required
    return out


def feed(chunks: list[bytes], reject: int | None = None) -> tuple[list[bytes], BaseException | None]:
    """`reject`: the callback refuses its reject-th frame with CouldNotParseKNXIP (what SecureSession.handle_knxipframe does for a
    wrapper it cannot use) - a declared way for a consumer to discard a frame, which must not disturb the frames after it."""
    got: list[bytes] = []
    tr = TCPTransport(("192.168.1.1", 3671))

    def cb(frame: Any, source: Any, t: Any) -> None:
        got.append(frame.to_knx())
        if reject is not None and len(got) - 1 == reject:
            raise CouldNotParseKNXIP("consumer cannot use this frame")

    tr.register_callback(cb)
    try:
        for c in chunks:
            tr.data_received_callback(c)
    except BaseException as exc:  # noqa: BLE001
        return got, exc
    return got, None


def cuts_all(n: int) -> Iterator[tuple[int, ...]]:
    for mask in range(1 << (n - 1)):
        yield tuple(i + 1 for i in range(n - 1) if mask >> i & 1)


def cuts_le2(n: int) -> Iterator[tuple[int, ...]]:
    yield ()
    for a in range(1, n):
        yield (a,)
    for a, b in itertools.combinations(range(1, n), 2):
        yield (a, b)
    yield tuple(range(1, n))  # octet by octet


def split(stream: bytes, cuts: tuple[int, ...]) -> list[bytes]:
    pts = [0, *cuts, len(stream)]
    return [stream[a:b] for a, b in zip(pts, pts[1:])]


def check_stream(kinds: tuple[str, ...], cuts: tuple[int, ...], reject: int | None = None) -> list[tuple[str, str]]:
    stream = b"".join(KINDS[k][0] for k in kinds)
    got, exc = feed(split(stream, cuts), reject)
    want = reference(kinds)
    tail_free = all(KINDS[k][2] for k in kinds)
    viols = []
    malformed = [k for k in kinds if not KINDS[k][1]]
    tag = "malformed:" + "+".join(sorted(set(malformed))) if malformed else "wellformed"
    if reject is not None:
        tag += ":consumer-rejects-a-frame"
    if exc is not None:
        viols.append((exc_sig("tcp-escape", exc), f"stream {kinds} cut at {cuts}: {exc!r}"))
    elif tail_free and got != want:
        kind = "lost" if len(got) < len(want) else ("duplicated" if len(got) > len(want) else "reordered-or-garbled")
        viols.append((f"tcp-delivery-{kind}:{tag}", f"stream {kinds} cut at {cuts}: delivered {len(got)} frames {[g.hex() for g in got]}, reference {len(want)}"))
    elif not tail_free and got[: len(want)] != want:
        viols.append((f"tcp-delivery-before-unskippable:{tag}", f"stream {kinds} cut at {cuts}: delivered {[g.hex() for g in got]}, reference prefix {[w.hex() for w in want]}"))
    return viols


def w_streams(idx: int, n_units: int, thorough: bool) -> Part:
    part = Part()
    streams = [s for n in (1, 2, 3) for s in itertools.product(ORDER, repeat=n)]
    for j, kinds in enumerate(streams):
        if j % n_units != idx:
            continue
        n = sum(len(KINDS[k][0]) for k in kinds)
        full = n <= (22 if thorough else 18)
        for cuts in (cuts_all(n) if full else cuts_le2(n)):
            part.evaluations += 1
            viols = check_stream(kinds, cuts)
            if cuts:
                part.nontrivial += 1
            part.outcomes["bad" if viols else "ok"] += 1
            for sig, detail in viols:
                part.viol(sig, detail, {"kinds": list(kinds), "cuts": list(cuts)}, rank=(len(kinds), len(cuts), n))
        # a consumer that refuses one of the frames (every position), under every chunking with <= 2 cut points + octet-wise
        n_ok = len(reference(kinds))
        for reject in range(n_ok):
            for cuts in cuts_le2(n):
                part.evaluations += 1
                part.nontrivial += 1
                viols = check_stream(kinds, cuts, reject)
                part.outcomes["bad" if viols else "ok"] += 1
                for sig, detail in viols:
                    part.viol(sig, detail + f" (the consumer refuses delivered frame #{reject})", {"kinds": list(kinds), "cuts": list(cuts), "reject": reject}, rank=(len(kinds), len(cuts), n))
        if j % 97 == 0:
            part.sample({"kinds": list(kinds), "chunkings": "all" if full else "<=2 cut points + octet-wise"})
    return part


def w_burst(n: int) -> Part:
    part = Part()
    raw = KINDS["ack"][0]
    got, exc = feed([raw * n])
    part.evaluations += 1
    part.nontrivial += 1
    if exc is not None:
        part.viol(exc_sig("tcp-escape:burst", exc), f"{n} TunnellingAck frames in one chunk: {type(exc).__name__} after {len(got)} delivered", {"burst": n}, rank=(n,))
    elif got != [raw] * n:
        part.viol("tcp-delivery:burst", f"{n} frames in one chunk: {len(got)} delivered", {"burst": n}, rank=(n,))
    return part


def w_udp(idx: int, seed: int, thorough: bool) -> Part:
    """Every datagram of the C20 structured space through UDPTransport.data_received_callback."""
    part = Part()
    frame = valid_frames()[idx]
    tr = UDPTransport(("192.168.1.2", 0), ("192.168.1.1", 3671))
    seen_frames: list[Any] = []
    tr.register_callback(lambda f, s, t: seen_frames.append(1))
    done: set[bytes] = set()
    for m in c20.mutations(frame, seed, False):
        if m in done:
            continue
        done.add(m)
        part.evaluations += 1
        try:
            tr.data_received_callback(m, ("192.168.1.1", 3671))
        except BaseException as exc:  # noqa: BLE001
            part.viol(exc_sig("udp-escape", exc), f"datagram {m.hex()}: {exc!r}", {"udp": m}, rank=(len(m),))
    part.nontrivial += len(seen_frames)
    return part


def run(ctx: Ctx) -> None:
    ctx.rule = (
        f"TCP: every stream of <=3 frames over {ORDER} (399 streams) through a fresh real TCPTransport.data_received_callback; EVERY chunking for streams of "
        f"<= {22 if ctx.thorough else 18} octets, every set of <=2 cut points plus octet-by-octet for longer ones; bursts of 1..4096 frames in one chunk. Oracle: no exception; "
        "delivered frames == the well-formed frames of the stream, once, in order (frames after a header whose announced length is below 6 are don't-care). "
        "The same streams with a consumer that refuses one delivered frame (every position) with CouldNotParseKNXIP, under every chunking with <=2 cut points and octet-wise: the other frames are unaffected. "
        "UDP: every datagram of the C20 structured space through UDPTransport.data_received_callback. non-trivial = chunked deliveries / datagrams that reached a callback"
    )
    units = 64
    ctx.pmap(w_streams, [(i, units, ctx.thorough) for i in range(units)])
    ctx.pmap(w_burst, [(n,) for n in (1, 10, 100, 1000, 4096)])
    ctx.pmap(w_udp, [(i, ctx.seed, ctx.thorough) for i in range(len(valid_frames()))])
    ctx.bounds = {"streams": 399, "frame_kinds": ORDER, "bursts": [1, 10, 100, 1000, 4096]}


def replay(case: Any) -> list[tuple[str, str]]:
    if "kinds" in case:
        return check_stream(tuple(case["kinds"]), tuple(case["cuts"]), case.get("reject"))
    if "burst" in case:
        p = w_burst(case["burst"])
        return [(s, v[1]) for s, v in p.viols.items()]
    tr = UDPTransport(("192.168.1.2", 0), ("192.168.1.1", 3671))
    try:
        tr.data_received_callback(bytes(case["udp"]), ("192.168.1.1", 3671))
    except BaseException as exc:  # noqa: BLE001
        return [(exc_sig("udp-escape", exc), repr(exc))]
    return []
