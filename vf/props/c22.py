"""C22 Transports deliver stream frames once, in order, without crashing."""

from __future__ import annotations

import itertools
from typing import Any, Iterator

from xknx.exceptions import CouldNotParseKNXIP

from xknx.io.transport import TCPTransport, UDPTransport
from xknx.knxip import ConnectionStateResponse, KNXIPFrame, TunnellingAck, TunnellingRequest

from ..knxipspace import CEMI_11, valid_frames
from ..runner import Ctx, Part, exc_sig
from . import c20

TITLE = "transports"


def fr(body: Any) -> bytes:
    return KNXIPFrame.init_from_body(body).to_knx()


# kind -> (bytes, well-formed?, skippable by its announced length?)
KINDS: dict[str, tuple[bytes, bool, bool]] = {
    "ack": (fr(TunnellingAck(7, 3)), True, True),
    "csr": (fr(ConnectionStateResponse(7)), True, True),
    "treq": (fr(TunnellingRequest(7, 4, CEMI_11)), True, True),
    "unknown-service": (bytes.fromhex("06100a010008aabb"), False, True),
    "bad-body": (bytes.fromhex("06100421000a04070377"), False, True),       # TunnellingAck with unassigned status code
    "bad-version": (bytes.fromhex("061104210008ccdd"), False, True),
    "length-below-header": (bytes.fromhex("061004210003"), False, False),
}
ORDER = list(KINDS)


def reference(stream_kinds: tuple[str, ...]) -> list[bytes]:
    out = []
    for k in stream_kinds:
        raw, ok, skippable = KINDS[k]
        if ok:
            out.append(raw)
        if not skippable:
            break  # resynchronisation after an unskippable header is not specified: only 'no exception' is required
    return out


def feed(chunks: list[bytes], reject: int | None = None) -> tuple[list[bytes], BaseException | None]:
    """`reject`: the callback refuses its reject-th frame with CouldNotParseKNXIP (what SecureSession.handle_knxipframe does for a
    wrapper it cannot use) - a declared way for a consumer to discard a frame, which must not disturb the frames after it."""
    got: list[bytes] = []
    tr = TCPTransport(("192.168.1.1", 3671))

    def cb(frame: Any, source: Any, t: Any) -> None:
        got.append(frame.to_knx())
        if reject is not None and len(got) - 1 == reject:
            raise CouldNotParseKNXIP("consumer cannot use this frame")

    tr.register_callback(cb)
    try:
        for c in chunks:
            tr.data_received_callback(c)
    except BaseException as exc:  # noqa: BLE001
        return got, exc
    return got, None


def cuts_all(n: int) -> Iterator[tuple[int, ...]]:
    for mask in range(1 << (n - 1)):
        yield tuple(i + 1 for i in range(n - 1) if mask >> i & 1)


def cuts_le2(n: int) -> Iterator[tuple[int, ...]]:
    yield ()
    for a in range(1, n):
        yield (a,)
    for a, b in itertools.combinations(range(1, n), 2):
        yield (a, b)
    yield tuple(range(1, n))  # octet by octet


def split(stream: bytes, cuts: tuple[int, ...]) -> list[bytes]:
    pts = [0, *cuts, len(stream)]
    return [stream[a:b] for a, b in zip(pts, pts[1:])]


def check_stream(kinds: tuple[str, ...], cuts: tuple[int, ...], reject: int | None = None) -> list[tuple[str, str]]:
    stream = b"".join(KINDS[k][0] for k in kinds)
    got, exc = feed(split(stream, cuts), reject)
    want = reference(kinds)
    tail_free = all(KINDS[k][2] for k in kinds)
    viols = []
    malformed = [k for k in kinds if not KINDS[k][1]]
    tag = "malformed:" + "+".join(sorted(set(malformed))) if malformed else "wellformed"
    if reject is not None:
        tag += ":consumer-rejects-a-frame"
    if exc is not None:
        viols.append((exc_sig("tcp-escape", exc), f"stream {kinds} cut at {cuts}: {exc!r}"))
    elif tail_free and got != want:
        kind = "lost" if len(got) < len(want) else ("duplicated" if len(got) > len(want) else "reordered-or-garbled")
        viols.append((f"tcp-delivery-{kind}:{tag}", f"stream {kinds} cut at {cuts}: delivered {len(got)} frames {[g.hex() for g in got]}, reference {len(want)}"))
    elif not tail_free and got[: len(want)] != want:
        viols.append((f"tcp-delivery-before-unskippable:{tag}", f"stream {kinds} cut at {cuts}: delivered {[g.hex() for g in got]}, reference prefix {[w.hex() for w in want]}"))
    return viols


def w_streams(idx: int, n_units: int, thorough: bool) -> Part:
    part = Part()
    streams = [s for n in (1, 2, 3) for s in itertools.product(ORDER, repeat=n)]
    for j, kinds in enumerate(streams):
        if j % n_units != idx:
            continue
        n = sum(len(KINDS[k][0]) for k in kinds)
        full = n <= (22 if thorough else 18)
        for cuts in (cuts_all(n) if full else cuts_le2(n)):
            part.evaluations += 1
            viols = check_stream(kinds, cuts)
            if cuts:
                part.nontrivial += 1
            part.outcomes["bad" if viols else "ok"] += 1
            for sig, detail in viols:
                part.viol(sig, detail, {"kinds": list(kinds), "cuts": list(cuts)}, rank=(len(kinds), len(cuts), n))
        # a consumer that refuses one of the frames (every position), under every chunking with <= 2 cut points + octet-wise
        n_ok = len(reference(kinds))
        for reject in range(n_ok):
            for cuts in cuts_le2(n):
                part.evaluations += 1
                part.nontrivial += 1
                viols = check_stream(kinds, cuts, reject)
                part.outcomes["bad" if viols else "ok"] += 1
                for sig, detail in viols:
                    part.viol(sig, detail + f" (the consumer refuses delivered frame #{reject})", {"kinds": list(kinds), "cuts": list(cuts), "reject": reject}, rank=(len(kinds), len(cuts), n))
        if j % 97 == 0:
            part.sample({"kinds": list(kinds), "chunkings": "all" if full else "<=2 cut points + octet-wise"})
    return part


def w_burst(n: int) -> Part:
    part = Part()
    raw = KINDS["ack"][0]
    got, exc = feed([raw * n])
    part.evaluations += 1
    part.nontrivial += 1
    if exc is not None:
        part.viol(exc_sig("tcp-escape:burst", exc), f"{n} TunnellingAck frames in one chunk: {type(exc).__name__} after {len(got)} delivered", {"burst": n}, rank=(n,))
    elif got != [raw] * n:
        part.viol("tcp-delivery:burst", f"{n} frames in one chunk: {len(got)} delivered", {"burst": n}, rank=(n,))
    return part


def w_udp(idx: int, seed: int, thorough: bool) -> Part:
    """Every datagram of the C20 structured space through UDPTransport.data_received_callback."""
    part = Part()
    frame = valid_frames()[idx]
    tr = UDPTransport(("192.168.1.2", 0), ("192.168.1.1", 3671))
    seen_frames: list[Any] = []
    tr.register_callback(lambda f, s, t: seen_frames.append(1))
    done: set[bytes] = set()
    for m in c20.mutations(frame, seed, False):
        if m in done:
            continue
        done.add(m)
        part.evaluations += 1
        try:
            tr.data_received_callback(m, ("192.168.1.1", 3671))
        except BaseException as exc:  # noqa: BLE001
            part.viol(exc_sig("udp-escape", exc), f"datagram {m.hex()}: {exc!r}", {"udp": m}, rank=(len(m),))
    part.nontrivial += len(seen_frames)
    return part


# ---- the two secure transports: the same obligations with an authentic SecureWrapper around every kind of inner frame ----

INNER: dict[str, tuple[bytes, bool]] = {k: (v[0], v[1]) for k, v in KINDS.items()}
INNER.update({
    "listed-but-unimplemented-service": (bytes.fromhex("0610053300081122"), False),     # ROUTING_SYSTEM_BROADCAST: in the enumeration, no body class
    "secure-service-inside": (bytes.fromhex("06100955000f") + bytes(9), False),          # a TimerNotify-sized secure service inside a wrapper
    "empty": (b"", False),
    "three-octets": (b"\x06\x10\x04", False),
    "announced-longer-than-wrapped": (bytes.fromhex("06100421000c0407"), False),
})
INNER_ORDER = list(INNER)
SEC_KEY = bytes(range(16, 32))
PEER_SERIAL = bytes.fromhex("00fa12345678")


def wrapper(form: str, sid: int, seq: int, inner: bytes) -> bytes:
    from ..ref import ipsec

    raw = ipsec.wrap(SEC_KEY, sid ^ (1 if form == "other-session-id" else 0), seq.to_bytes(6, "big"), PEER_SERIAL, b"\x12\x34", inner)
    if form == "mac-altered":
        raw = raw[:-1] + bytes((raw[-1] ^ 1,))
    return raw


FORMS = ("authentic", "mac-altered", "other-session-id")


def secure_group_case(names: tuple[str, ...], forms: tuple[str, ...]) -> list[tuple[str, str]]:
    """Datagrams through SecureGroup.data_received_callback (timer authenticated, wrappers carry the current timer value)."""
    from xknx.io.ip_secure import SecureGroup

    from ..vloop import World

    viols: list[tuple[str, str]] = []
    with World() as w:
        w.loop._vtime = 5000.0  # noqa: SLF001
        g = SecureGroup(("192.168.1.2", 0), ("224.0.23.12", 3671), SEC_KEY)
        try:
            g.secure_timer.timer_authenticated = True
            got: list[bytes] = []
            g.register_callback(lambda f, src, t: got.append(f.to_knx()))
            want = []
            for i, (name, form) in enumerate(zip(names, forms)):
                inner, ok = INNER[name]
                raw = wrapper(form, 0, g.secure_timer.current_timer_value() + 1 + i, inner)
                if ok and form == "authentic":
                    want.append(inner)
                try:
                    g.data_received_callback(raw, ("192.168.1.77", 3671))
                except BaseException as exc:  # noqa: BLE001
                    viols.append((exc_sig(f"udp-secure-escape:{form}:{name}", exc), f"SecureGroup, datagram #{i} = {form} wrapper around {name} ({inner.hex()}): {exc!r}"))
            if not viols and got != want:
                viols.append((f"udp-secure-delivery-differs:{'+'.join(sorted(set(forms)))}", f"SecureGroup datagrams {list(zip(forms, names))}: delivered {[x.hex() for x in got]}, reference {[x.hex() for x in want]}"))
        finally:
            g.secure_timer.stop() if hasattr(g.secure_timer, "stop") else None
    return viols


def secure_session_case(names: tuple[str, ...], forms: tuple[str, ...], cuts: tuple[int, ...], initialized: bool = True) -> list[tuple[str, str]]:
    """A TCP stream of wrappers through SecureSession.data_received_callback under one chunking."""
    from xknx.io.ip_secure import SecureSession

    from ..vloop import World

    viols: list[tuple[str, str]] = []
    with World():
        s = SecureSession(remote_addr=("192.168.1.1", 3671), user_id=2, user_password="secret")
        s._key = SEC_KEY  # noqa: SLF001
        s.session_id = 5
        s.initialized = initialized
        got: list[bytes] = []
        s.register_callback(lambda f, src, t: got.append(f.to_knx()))
        want = []
        stream = b""
        for i, (name, form) in enumerate(zip(names, forms)):
            inner, ok = INNER[name]
            stream += wrapper(form, 5, i, inner)
            if ok and form == "authentic" and initialized:
                want.append(inner)
        tag = "+".join(sorted(set(forms))) + ("" if initialized else ":not-initialized")
        try:
            for c in split(stream, cuts):
                s.data_received_callback(c)
        except BaseException as exc:  # noqa: BLE001
            viols.append((exc_sig(f"tcp-secure-escape:{tag}", exc), f"SecureSession, stream {list(zip(forms, names))} cut at {cuts}: {exc!r}"))
        if not viols and got != want:
            kind = "lost" if len(got) < len(want) else ("duplicated" if len(got) > len(want) else "reordered-or-garbled")
            viols.append((f"tcp-secure-delivery-{kind}:{tag}", f"SecureSession, stream {list(zip(forms, names))} cut at {cuts}: delivered {[x.hex() for x in got]}, reference {[x.hex() for x in want]}"))
    return viols


def w_secure(idx: int, n_units: int) -> Part:
    part = Part()
    j = 0
    for n in (1, 2):
        for names in itertools.product(INNER_ORDER, repeat=n):
            for forms in itertools.product(FORMS, repeat=n):
                j += 1
                if j % n_units != idx:
                    continue
                part.evaluations += 1
                part.nontrivial += 1
                for sig, detail in secure_group_case(names, forms):
                    part.viol(sig, detail, {"secure": "group", "names": list(names), "forms": list(forms)}, rank=(n,))
                total = sum(38 + len(INNER[x][0]) for x in names)
                # chunkings: whole, every single cut, octet-wise
                for cuts in [(), *[(a,) for a in range(1, total)], tuple(range(1, total))]:
                    if n == 2 and len(cuts) == 1 and cuts[0] % 3 and cuts[0] not in (38 + len(INNER[names[0]][0]),):
                        continue   # two-wrapper streams: every third cut position plus the frame border
                    for init in (True, False):
                        if not init and cuts not in ((), tuple(range(1, total))):
                            continue
                        part.evaluations += 1
                        viols = secure_session_case(names, forms, cuts, init)
                        part.outcomes["bad" if viols else "ok"] += 1
                        for sig, detail in viols:
                            part.viol(sig, detail, {"secure": "session", "names": list(names), "forms": list(forms), "cuts": list(cuts), "init": init}, rank=(n, len(cuts)))
    return part


def run(ctx: Ctx) -> None:
    ctx.rule = (
        f"TCP: every stream of <=3 frames over {ORDER} (399 streams) through a fresh real TCPTransport.data_received_callback; EVERY chunking for streams of "
        f"<= {22 if ctx.thorough else 18} octets, every set of <=2 cut points plus octet-by-octet for longer ones; bursts of 1..4096 frames in one chunk. Oracle: no exception; "
        "delivered frames == the well-formed frames of the stream, once, in order (frames after a header whose announced length is below 6 are don't-care). "
        "The same streams with a consumer that refuses one delivered frame (every position) with CouldNotParseKNXIP, under every chunking with <=2 cut points and octet-wise: the other frames are unaffected. "
        "UDP: every datagram of the C20 structured space through UDPTransport.data_received_callback. "
        f"Secure transports: every sequence of <=2 SecureWrappers (forms {FORMS}, built by the reference implementation) around each of {len(INNER)} inner frames "
        "(the TCP kinds plus a listed-but-unimplemented service, a secure service inside, empty/truncated/over-announced inner frames) as datagrams through the real SecureGroup (timer authenticated) "
        "and as a TCP stream through the real SecureSession (initialised and not) under whole / single-cut / octet-wise chunkings: no exception; exactly the authentic well-formed inner frames are delivered, in order. non-trivial = chunked deliveries / datagrams that reached a callback"
    )
    units = 64
    ctx.pmap(w_streams, [(i, units, ctx.thorough) for i in range(units)])
    ctx.pmap(w_burst, [(n,) for n in (1, 10, 100, 1000, 4096)])
    ctx.pmap(w_udp, [(i, ctx.seed, ctx.thorough) for i in range(len(valid_frames()))])
    ctx.pmap(w_secure, [(i, 32) for i in range(32)])
    ctx.bounds = {"streams": 399, "frame_kinds": ORDER, "bursts": [1, 10, 100, 1000, 4096]}


def replay(case: Any) -> list[tuple[str, str]]:
    if case.get("secure") == "group":
        return secure_group_case(tuple(case["names"]), tuple(case["forms"]))
    if case.get("secure") == "session":
        return secure_session_case(tuple(case["names"]), tuple(case["forms"]), tuple(case["cuts"]), case["init"])
    if "kinds" in case:
        return check_stream(tuple(case["kinds"]), tuple(case["cuts"]), case.get("reject"))
    if "burst" in case:
        p = w_burst(case["burst"])
        return [(s, v[1]) for s, v in p.viols.items()]
    tr = UDPTransport(("192.168.1.2", 0), ("192.168.1.1", 3671))
    try:
        tr.data_received_callback(bytes(case["udp"]), ("192.168.1.1", 3671))
    except BaseException as exc:  # noqa: BLE001
        return [(exc_sig("udp-escape", exc), repr(exc))]
    return []
