"""C37 The device registry dispatches each telegram to exactly the right devices."""

from __future__ import annotations

import collections
import itertools
from typing import Any

from xknx.dpt import DPTBinary
from xknx.telegram import GroupAddress, IndividualAddress, Telegram, TelegramDirection
from xknx.telegram.address import InternalGroupAddress
from xknx.telegram.apci import GroupValueRead, GroupValueWrite

from .. import devspace as S
from ..runner import Ctx, Part, exc_sig
from ..sim.core import CoreWorld

TITLE = "device registry"
POOL = ["1/1/1", "1/1/2", "1/1/3", "i-a"]
PROBES = POOL + ["1/1/9", "i-b"]
MAX_STATES = 400


def mk_addr(a: str) -> Any:
    return InternalGroupAddress(a) if a.startswith("i-") else GroupAddress(a)


class Sys:
    """A fresh XKNX with the pool's devices built (not registered) and their process() replaced by a recorder."""

    def __init__(self, specs: tuple[tuple[Any, ...], ...], started: bool) -> None:
        self.w = CoreWorld(rate_limit=0)
        self.xknx = self.w.xknx
        if started:
            self.w.start()
        self.devs: list[Any] = []
        self.used: list[set[str]] = []
        self.log: list[int] = []
        built: dict[int, tuple[Any, set[str]]] = {}
        for i, (cn, off, stride, as_list) in enumerate(specs):
            if cn != "@mode":
                built[i] = S.build(self.xknx, cn, f"D{i}", POOL, off, stride, as_list, with_mode=True)
        for i, (cn, off, stride, as_list) in enumerate(specs):
            if cn == "@mode":
                # the ClimateMode object of device D<off>, registered as a device of its own (as Home Assistant does);
                # its assigned addresses are recomputed with the parameters devspace.build used for it
                owner = specs[off]
                _, used = S.build(self.xknx, "ClimateMode", f"D{off}-mode-ref", POOL, owner[1] + 1, owner[2])
                built[i] = (built[off][0].mode, used)
        for i in range(len(specs)):
            d, used = built[i]

            def rec(t: Telegram, _i: int = i) -> None:
                self.log.append(_i)

            d.process = rec  # dispatch is observed here; what a device does with a telegram is not C37's subject
            self.devs.append(d)
            self.used.append(used)
        self.ref: list[int] = []  # the naive model: the registered devices in registration order

    def close(self) -> None:
        self.w.close()

    def apply(self, ev: tuple[str, int]) -> list[tuple[str, str]]:
        kind, i = ev
        viols: list[tuple[str, str]] = []
        before = self.key()
        try:
            if kind == "add":
                self.xknx.devices.async_add(self.devs[i])
            else:
                self.xknx.devices.async_remove(self.devs[i])
            raised: BaseException | None = None
        except ValueError as exc:
            raised = exc
        except Exception as exc:  # noqa: BLE001
            viols.append((exc_sig(f"{kind}-escape", exc), f"{kind}(D{i}) raised {exc!r}"))
            raised = exc
        legal = (i not in self.ref) if kind == "add" else (i in self.ref)
        if legal:
            if raised is not None and not viols:
                viols.append((f"legal-{kind}-refused", f"{kind}(D{i}) raised {raised!r} with registered {self.ref}"))
            if kind == "add":
                self.ref.append(i)
            else:
                self.ref.remove(i)
        else:
            if raised is None:
                viols.append((f"illegal-{kind}-accepted", f"{kind}(D{i}) did not raise with registered {self.ref}"))
            elif self.key() != before:
                viols.append((f"illegal-{kind}-changed-state", f"{kind}(D{i}) raised but the registry changed: {before} -> {self.key()}"))
        return viols

    def key(self) -> Any:
        devices = self.xknx.devices
        order = tuple(self.devs.index(d) if d in self.devs else -1 for d in devices)
        by_addr = tuple(tuple(self.devs.index(d) if d in self.devs else -1 for d in devices.devices_by_group_address(mk_addr(a))) for a in PROBES)
        cbs = tuple(len(d.device_updated_cbs) for d in self.devs)
        try:
            workers = len(self.xknx.state_updater._workers)  # noqa: SLF001
        except AttributeError:
            workers = -1
        return (order, by_addr, cbs, workers)

    def warm(self) -> None:
        for a in PROBES:
            try:
                self.xknx.devices.process(Telegram(mk_addr(a), payload=GroupValueWrite(DPTBinary(1)), direction=TelegramDirection.INCOMING, source_address=IndividualAddress("1.2.3")))
            except Exception:  # noqa: BLE001  (judged by probe() in the state where it happens)
                pass
        self.log.clear()

    def probe(self) -> list[tuple[str, str]]:
        viols: list[tuple[str, str]] = []
        devices = self.xknx.devices
        order = [self.devs.index(d) if d in self.devs else -1 for d in devices]
        if order != self.ref:
            viols.append(("registered-list-differs", f"iteration gives {order}, reference {self.ref}"))
        if len(devices) != len(self.ref):
            viols.append(("len-differs", f"len {len(devices)} vs {len(self.ref)}"))
        for i, d in enumerate(self.devs):
            if (d in devices) != (i in self.ref):
                viols.append(("contains-differs", f"D{i} in devices = {d in devices}, reference {i in self.ref}"))
        for a in PROBES:
            want = [i for i in self.ref if a in self.used[i]]
            for payload in (GroupValueWrite(DPTBinary(1)), GroupValueRead()):
                for direction in (TelegramDirection.INCOMING, TelegramDirection.OUTGOING):
                    self.log.clear()
                    t = Telegram(mk_addr(a), payload=payload, direction=direction, source_address=IndividualAddress("1.2.3"))
                    try:
                        devices.process(t)
                    except Exception as exc:  # noqa: BLE001
                        viols.append((exc_sig("process-escape", exc), f"process(telegram to {a}) raised {exc!r}"))
                        continue
                    got = list(self.log)
                    if got != want:
                        if sorted(got) == sorted(want):
                            sig = "dispatch-order-wrong"
                        elif len(got) != len(set(got)):
                            sig = "dispatched-twice"
                        elif set(got) - set(want):
                            sig = "dispatched-to-device-without-address" if (set(got) - set(want)) <= set(self.ref) else "dispatched-to-unregistered-device"
                        else:
                            sig = "registered-device-missed"
                        viols.append((sig, f"telegram to {a}: processed by {got}, reference (registration order) {want}; registered {self.ref}"))
            lookup = [self.devs.index(d) if d in self.devs else -1 for d in devices.devices_by_group_address(mk_addr(a))]
            if lookup != want:
                viols.append(("devices_by_group_address-differs", f"{a}: {lookup} vs {want}"))
        return viols


def build(specs: Any, started: bool, hist: tuple[tuple[str, int], ...], traffic: bool = False) -> tuple[Sys, list[tuple[str, str]]]:
    """traffic: telegrams to every probe address are dispatched after every event of the history (anything the registry
    remembers from a dispatch - a cache, a snapshot - is warm when the next event changes the registration)."""
    s = Sys(specs, started)
    viols: list[tuple[str, str]] = []
    for ev in hist:
        viols += s.apply(ev)
        if traffic:
            s.warm()
    return s, viols


def bfs(specs: tuple[tuple[Any, ...], ...], started: bool, part: Part, full_depth: int) -> None:
    n = len(specs)
    events = [(k, i) for i in range(n) for k in ("add", "remove")]
    s0, _ = build(specs, started, ())
    seen = {s0.key()}
    v0 = s0.probe()
    s0.close()
    for sig, detail in v0:
        part.viol(sig, f"{detail}; history=() specs={specs}", [list(map(list, specs)), started, []], rank=(0,))
    frontier: collections.deque[tuple[tuple[str, int], ...]] = collections.deque([()])
    while frontier:
        hist = frontier.popleft()
        for ev in events:
            h2 = hist + (ev,)
            s, vprefix = build(specs, started, hist)
            viols = s.apply(ev) + s.probe()
            k = s.key()
            s.close()
            if hist:
                # the same history with bus traffic between the events
                s2, _ = build(specs, started, hist, traffic=True)
                for sig, detail in s2.apply(ev) + s2.probe():
                    viols.append((sig + ":with-traffic-between-events", detail))
                s2.close()
            part.transitions += 1
            part.evaluations += 1
            part.traces += 1
            for sig, detail in viols:
                part.viol(sig, f"{detail}; history={h2} specs={specs} started={started}", [list(map(list, specs)), started, [list(e) for e in h2]], rank=(len(h2), repr(specs)))
            part.outcomes[f"{ev[0]}:{'violation' if viols else 'ok'}"] += 1
            # histories shorter than full_depth are all expanded (no merging); beyond that, by canonical state
            if k not in seen or len(h2) < full_depth:
                new = k not in seen
                seen.add(k)
                if len(seen) > MAX_STATES:
                    part.extra["cap_hit"] = part.extra.get("cap_hit", 0) + 1
                    return
                if new or len(h2) < full_depth:
                    frontier.append(h2)
    part.states += len(seen)
    part.nontrivial += len(seen)


def mid_dispatch(k: int, n: int) -> Part:
    """Additions and removals DURING a dispatch (a device's own processing - e.g. its device-updated callback - removes itself,
    another device, or adds one).  Devices registered throughout and using the address are processed exactly once, in
    registration order; a device removed or added meanwhile may or may not see this telegram (the statement leaves that open)."""
    import xknx.devices as D

    part = Part()
    combos = [(actor, action, target) for actor in range(3) for action in ("remove", "add") for target in range(4)]
    classes = ["Switch", "Light", "Sensor", "BinarySensor"]
    ci = 0
    for cls_name in classes:
        for (actor, action, target) in combos:
            ci += 1
            if ci % n != k:
                continue
            if action == "add" and target != 3:
                continue
            if action == "remove" and target == 3:
                continue
            with CoreWorld(rate_limit=0) as w:
                x = w.xknx
                kw = {"Switch": {"group_address": "1/2/3"}, "Light": {"group_address_switch": "1/2/3"}, "Sensor": {"group_address_state": "1/2/3", "value_type": "percent"},
                      "BinarySensor": {"group_address_state": "1/2/3"}}[cls_name]
                devs = [getattr(D, cls_name)(x, f"D{i}", **kw) for i in range(4)]
                for d in devs[:3]:
                    x.devices.async_add(d)
                log: list[int] = []
                fired = [False]

                def mk(i: int) -> None:
                    orig = devs[i].process

                    def proc(t: Telegram) -> None:
                        log.append(i)
                        if i == actor and not fired[0]:
                            fired[0] = True
                            if action == "remove":
                                x.devices.async_remove(devs[target])
                            else:
                                x.devices.async_add(devs[3])
                        orig(t)

                    devs[i].process = proc  # type: ignore[method-assign]

                for i in range(4):
                    mk(i)
                part.evaluations += 1
                part.nontrivial += 1
                part.transitions += 1
                case = ["mid-dispatch", cls_name, actor, action, target]
                try:
                    x.devices.process(Telegram(GroupAddress("1/2/3"), payload=GroupValueWrite(DPTBinary(1)), direction=TelegramDirection.INCOMING, source_address=IndividualAddress("1.2.3")))
                except Exception as exc:  # noqa: BLE001
                    part.viol(exc_sig("process-escape:mid-dispatch", exc), f"{case}: {exc!r}", case)
                    continue
                throughout = [i for i in range(3) if not (action == "remove" and i == target)]
                got = [i for i in log if i in throughout]
                ctxs = f"{cls_name} devices D0,D1,D2 on 1/2/3; while D{actor} processes the telegram it does {action}(D{target}): processed {['D%d' % i for i in log]}"
                if got != throughout:
                    missed = [i for i in throughout if i not in got]
                    sig = "registered-device-missed:mid-dispatch" if missed else "dispatched-twice:mid-dispatch" if len(got) != len(set(got)) else "dispatch-order-wrong:mid-dispatch"
                    part.viol(sig, f"{ctxs}; devices registered throughout: {['D%d' % i for i in throughout]}", case)
                # (whether a device removed before its turn still sees the telegram in flight is left open by the statement: the
                #  weaker reading is checked - see DESIGN, readings)
                if action == "remove" and target <= actor and log.count(target) != 1:
                    part.viol("registered-device-missed:mid-dispatch", f"{ctxs}; D{target} was still registered at its turn", case)
    return part


def pools(thorough: bool, seed: int) -> list[tuple[tuple[tuple[Any, ...], ...], bool]]:
    classes = S.device_classes()
    out = []
    for j, trip in enumerate(itertools.combinations(range(len(classes)), 3)):
        specs = tuple((classes[c], (j + p) % 4, 1 if (j + p) % 3 else 3, (j + p) % 5 == 0) for p, c in enumerate(trip))
        out.append((specs, j % 2 == 0))
    # the same class several times on the same addresses, and on shifted addresses
    for c in classes:
        out.append((((c, 0, 1, False), (c, 0, 1, False), (c, 1, 1, False)), False))
    # devices whose address parameters are listen-only lists ([None, passive address]), next to plain ones
    for j, c in enumerate(classes):
        out.append((((c, j % 4, 1, "passive"), (c, (j + 1) % 4, 1, False), (classes[(j + 5) % len(classes)], j % 4, 1, "passive")), j % 2 == 0))
    # a Climate and its own ClimateMode both registered, next to every other class; strides 5/7/9 leave the mode with
    # addresses the Climate's own parameters do not use
    for j, c in enumerate(classes):
        out.append(((("Climate", j % 4, 7 if j % 3 else 5, False), ("@mode", 0, 0, False), (c, (j + 1) % 4, 1, False)), j % 2 == 0))
        out.append((((c, (j + 1) % 4, 1, False), ("@mode", 2, 0, False), ("Climate", j % 4, 9 if j % 2 else 7, False)), j % 2 == 1))
    if thorough:
        for j, quad in enumerate(itertools.combinations(range(len(classes)), 4)):
            if j % 7 == seed % 7:
                specs = tuple((classes[c], (j + p) % 4, 1 if (j + p) % 2 else 3, (j + p) % 3 == 0) for p, c in enumerate(quad))
                out.append((specs, j % 2 == 1))
    return out


def worker(k: int, n: int, thorough: bool, seed: int) -> Part:
    import logging

    logging.disable(logging.CRITICAL)
    part = Part()
    ps = pools(thorough, seed)
    for i in range(k, len(ps), n):
        specs, started = ps[i]
        bfs(specs, started, part, full_depth=4 if thorough else 3)
        if i < 2:
            part.sample([list(map(list, specs)), started])
    return part


def run(ctx: Ctx) -> None:
    ps = pools(ctx.thorough, ctx.seed)
    ctx.rule = (
        f"explicit-state search of the real Devices registry: for EVERY unordered triple of the {len(S.device_classes())} device classes (+ same-class triples; thorough: + every 7th quadruple), devices built over the "
        f"colliding address pool {POOL} (single and list-valued address parameters, Climate with its mode), events add(Di)/remove(Di) from every reachable state to a fixpoint - all histories up to depth "
        f"{4 if ctx.thorough else 3} expanded without merging, then by canonical state (registration order, per-address lookup, callback counts, state-updater registrations); after EVERY transition "
        f"telegrams (write/read x in/out) to each of {PROBES} are dispatched by the real Devices.process and compared with a linear scan of the reference list (exactly those devices, once, in registration order); "
        "illegal add/remove must raise ValueError and leave the canonical state unchanged. Plus additions and removals DURING a dispatch: for 4 device classes, three devices on one address, each device in turn "
        "removes itself / each other device / adds a fourth while it processes the telegram: devices registered throughout are processed exactly once in order (devices removed or added meanwhile are unconstrained)."
    )
    ctx.bounds = {"pools": len(ps), "max_states_per_pool": MAX_STATES}
    ctx.pmap(worker, [(k, 64, ctx.thorough, ctx.seed) for k in range(64)])
    ctx.pmap(mid_dispatch, [(k, 8) for k in range(8)])
    if ctx.total.extra.get("cap_hit"):
        ctx.caps.append(f"state cap {MAX_STATES} hit in {ctx.total.extra['cap_hit']} pools")


def replay(case: Any) -> list[tuple[str, str]]:
    if case and case[0] == "mid-dispatch":
        out: list[tuple[str, str]] = []
        for k in range(8):
            p = mid_dispatch(k, 8)
            out += [(sg, v[1]) for sg, v in p.viols.items() if v[2] == case] if False else [(sg, v[1]) for sg, v in p.viols.items()]
        seen2: set[str] = set()
        return [(a, b) for a, b in out if not (a in seen2 or seen2.add(a))]
    specs, started, hist = case
    specs = tuple(tuple(x) for x in specs)
    s, viols = build(specs, started, tuple((k, i) for k, i in hist))
    viols += s.probe()
    s.close()
    seen: set[str] = set()
    return [(a, b) for a, b in viols if not (a in seen or seen.add(a))]
