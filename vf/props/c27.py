"""C27 Routing honours busy flow control and the indication spacing."""

from __future__ import annotations

from ..vloop import texc

import types
from typing import Any

from xknx import XKNX
from xknx.io import routing as routing_mod
from xknx.io.routing import Routing
from xknx.io.transport import UDPTransport
from xknx.knxip import KNXIPFrame, RoutingBusy, RoutingIndication

from ..explore import Chooser, explore, finalize_states, replay_schedule
from ..runner import Ctx
from ..vloop import World
from .c24 import make_cemi

TITLE = "routing flow control"
MENU = ["+10ms", "+50ms", "next-timer", "busy(20)", "busy(50)", "busy(100)", "send"]
MCAST = ("224.0.23.12", 3671)
EPS = 1e-6


class FakeSock:
    sockname = MCAST


def reference_pauses(busy: list[tuple[float, int, int]]) -> list[tuple[float, float, int]]:
    """Pause intervals [start, end) for random extension 0 (Routing 03.08.05 §2.3.5 discard rule).

    busy = (time, wait ms, number of frames this node had put on the wire before the busy frame arrived);
    the third component of a pause is that number for the frame that started it (orders events of one instant).
    """
    pauses: list[list[Any]] = []
    for t, w, idx in busy:
        if pauses and t < pauses[-1][1] - EPS:
            remaining = pauses[-1][1] - t
            if remaining >= w / 1000 - EPS:
                continue          # shorter than what is left of the running pause: ignored
            pauses[-1][1] = t + w / 1000   # restarted by this frame
        else:
            pauses.append([t, t + w / 1000, idx])
    return [(a, b, i) for a, b, i in pauses]


def inside(t: float, wire_idx: int, pause: tuple[float, float, int]) -> bool:
    a, b, idx = pause
    if abs(t - a) <= EPS:
        return wire_idx >= idx      # same instant: only frames sent after the busy frame was received count
    return a < t < b - EPS


def make(depth: int, rnd: float, rate_limit: int = 0):
    """`rate_limit`: the XKNX-wide telegram rate limit (telegrams per second); the routing flow control's own pauses (busy
    wait, 20 ms between indications) come from the specification and do not depend on it."""

    def scenario(ch: Chooser) -> list[tuple[str, str]]:
        viols: list[tuple[str, str]] = []
        saved_random = routing_mod.random
        saved_sock = UDPTransport.__dict__["create_multicast_sock"]
        UDPTransport.create_multicast_sock = staticmethod(lambda own_ip, remote_addr: FakeSock())  # type: ignore[method-assign]
        routing_mod.random = types.SimpleNamespace(random=lambda: rnd)  # the explorer owns the random source
        try:
            with World() as w:
                loop = w.loop
                loop._vtime = 1000.0  # noqa: SLF001  a monotonic clock is far from 0 (the flow control starts with 'last sent at 0.0')
                xknx = XKNX(rate_limit=rate_limit)
                confirmations: list[Any] = []
                r = Routing(xknx, None, confirmations.append, local_ip="192.168.1.2")
                t0 = w.spawn(r.connect(), name="harness-connect")
                loop.settle()
                if not (t0.done() and texc(t0) is None):
                    return [("harness:connect-failed", repr(t0))]
                tr = next(e for e in loop.datagram_endpoints if e.kind == "udp")
                busy: list[tuple[float, int, int]] = []
                sends: list[dict[str, Any]] = []
                events: list[Any] = []

                async def do_send(rec: dict[str, Any]) -> None:
                    try:
                        await r.send_cemi(make_cemi(rec["i"]))
                        rec["ret"] = loop.time()
                    except BaseException as exc:  # noqa: BLE001
                        rec["exc"] = repr(exc)

                for _step in range(depth):
                    loop.settle()
                    c = ch.choose("env", len(MENU), [0] * len(MENU))
                    ev = MENU[c]
                    events.append((round(loop.time(), 4), ev))
                    if ev == "+10ms":
                        loop.run_until(loop.time() + 0.010)
                    elif ev == "+50ms":
                        loop.run_until(loop.time() + 0.050)
                    elif ev == "next-timer":
                        loop.advance_next()
                    elif ev.startswith("busy"):
                        wait = int(ev[5:-1])
                        busy.append((loop.time(), wait, len(tr.sent)))
                        r.transport.data_received_callback(KNXIPFrame.init_from_body(RoutingBusy(wait_time=wait)).to_knx(), ("192.168.1.77", 3671))
                    else:
                        rec = {"i": len(sends), "start": loop.time()}
                        sends.append(rec)
                        w.spawn(do_send(rec), name="harness-send")
                loop.run_until(loop.time() + 5.0)
                # what went out on the wire
                inds = []
                ind_idx = []
                for k, (t, data, _addr) in enumerate(tr.sent):
                    body = KNXIPFrame.from_knx(data)[0].body
                    if isinstance(body, RoutingIndication):
                        inds.append(t)
                        ind_idx.append(k)
                ctxs = f"events={events} busy={busy} indications={[round(x, 4) for x in inds]}"
                if len(inds) != len(sends):
                    viols.append(("indication-count", f"{len(sends)} sends, {len(inds)} RoutingIndications on the wire; {ctxs}"))
                if len(confirmations) != len(sends):
                    viols.append(("local-confirmation-count", f"{len(sends)} sends, {len(confirmations)} local L_Data.con; {ctxs}"))
                if any("ret" not in s for s in sends):
                    viols.append(("send-never-returns", f"{sends}; {ctxs}"))
                for a, b in zip(inds, inds[1:]):
                    if b - a < 0.02 - EPS:
                        viols.append(("indications-closer-than-20ms", f"{a:.4f} and {b:.4f}; {ctxs}"))
                        break
                pauses = reference_pauses(busy)
                if rnd == 0.0:
                    for t, k in zip(inds, ind_idx):
                        for p in pauses:
                            if inside(t, k, p):
                                viols.append(("indication-inside-pause", f"RoutingIndication at t={t:.4f} inside the pause [{p[0]:.4f}, {p[1]:.4f}) set by a RoutingBusy; {ctxs}"))
                                break
                    # resumption: every indication leaves as soon as spacing and pause allow
                    prev = None
                    for s, t in zip(sends, inds):
                        ready = max(s["start"], (prev + 0.02) if prev is not None else 0.0)
                        for a, b, _i in pauses:
                            if a - EPS <= ready < b - EPS:
                                ready = b
                        if t > ready + 1e-4:
                            viols.append(("sending-not-resumed-in-time", f"send #{s['i']} (queued at {s['start']:.4f}) left at {t:.4f}, reference {ready:.4f}; {ctxs}"))
                            break
                        prev = t
                else:
                    # with a random extension only the announced wait time itself is a hard lower bound
                    for t, k in zip(inds, ind_idx):
                        for p in pauses:
                            if inside(t, k, p):
                                viols.append(("indication-inside-announced-wait", f"RoutingIndication at t={t:.4f} inside [{p[0]:.4f}, {p[1]:.4f}); {ctxs}"))
                                break
                for name, exc in loop.task_failures():
                    viols.append((f"task-exception:{type(exc).__name__}", f"{name}: {exc!r}; {ctxs}"))
                for c_ in loop.exceptions:
                    viols.append(("loop-exception", repr(c_)[:200]))
                ch.notes.append(f"sends={len(sends)},busy={len(busy)},pauses={len(pauses)}")
                ch.state((len(sends), tuple(busy), tuple(round(x, 3) for x in inds)))
        finally:
            routing_mod.random = saved_random
            UDPTransport.create_multicast_sock = saved_sock  # type: ignore[method-assign]
        seen: set[str] = set()
        return [(s, d) for s, d in viols if not (s in seen or seen.add(s))]

    return scenario


SCENARIOS = {"routing": make}


def run(ctx: Ctx) -> None:
    depth = (7 if ctx.thorough else 6) + int(__import__("os").environ.get("VF_DEEPER", 0))
    ctx.rule = (
        f"real Routing + _RoutingFlowControl on the virtual loop (multicast socket replaced by an in-memory endpoint, random.random owned by the harness: 0.0 and 0.999): the COMPLETE tree of "
        f"environment sequences of length {depth} over {MENU} (not deviation bounded), then 5 s of drain. Oracle from the wire log: one RoutingIndication and one local L_Data.con per send, "
        "indications >= 20 ms apart, none inside a pause computed by an independent model of the busy rule (shorter wait than remaining => ignored, otherwise restarted), sending resumes at the "
        "earliest moment spacing and pause allow (random=0: exact; random=0.999: announced wait as hard lower bound)"
    )
    ctx.bounds = {"depth": depth, "menu": MENU, "random_values": [0.0, 0.999]}
    explore(ctx, __name__, "routing", (depth, 0.0), bound=0)
    explore(ctx, __name__, "routing", (depth - 1, 0.999), bound=0)
    explore(ctx, __name__, "routing", (depth - 1, 0.0, 100), bound=0)   # XKNX(rate_limit=100): more than 50 telegrams per second allowed by the queue
    finalize_states(ctx)


def replay(case: Any) -> list[tuple[str, str]]:
    return replay_schedule(__name__, case)
