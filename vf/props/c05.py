"""C05 Decoded application PDUs re-encode to the same octets (reserved bits aside)."""

from __future__ import annotations

from typing import Any, Iterator

from xknx.telegram.apci import APCI

from ..apcispace import short_space, struct_space
from ..ref.apci_masks import reserved_mask
from ..runner import Ctx, Part, exc_sig

TITLE = "APCI decode->encode identity"


def check_one(raw: bytes) -> tuple[str, list[tuple[str, str]]]:
    try:
        obj = APCI.from_knx(raw)
    except Exception:  # noqa: BLE001  (C04's business)
        return "rejected", []
    name = type(obj).__name__
    try:
        enc = bytes(obj.to_knx())
    except Exception:  # noqa: BLE001
        return "not-encodable", []
    viols = []
    if len(enc) != len(raw):
        viols.append((f"length-changed:{name}", f"{raw.hex()} -> {obj} -> {enc.hex()} ({len(raw)} -> {len(enc)} octets)"))
    else:
        mask = reserved_mask(name, raw)
        diff = bytes((a ^ b) & ~m & 0xFF for a, b, m in zip(raw, enc, mask))
        if any(diff):
            pos = next(i for i, d in enumerate(diff) if d)
            viols.append((f"bits-changed:{name}:octet{pos if pos < 4 else '4+'}", f"{raw.hex()} -> {obj} -> {enc.hex()}; non-reserved bits differ: {diff.hex()}"))
    try:
        if obj.calculated_length() != len(raw) - 1:
            viols.append((f"calculated-length-wrong:{name}", f"{raw.hex()}: calculated_length()={obj.calculated_length()}, APDU has {len(raw) - 1} octets after the TPCI octet"))
    except Exception as exc:  # noqa: BLE001
        viols.append((exc_sig(f"calculated-length-raises:{name}", exc), f"{raw.hex()}: {exc!r}"))
    try:
        back = APCI.from_knx(enc)
        if back != obj:
            viols.append((f"redecode-differs:{name}", f"{raw.hex()} -> {obj} -> {enc.hex()} -> {back}"))
    except Exception as exc:  # noqa: BLE001
        viols.append((exc_sig(f"own-encoding-rejected:{name}", exc), f"{raw.hex()} -> {obj} -> {enc.hex()} -> {exc!r}"))
    return "ok" if not viols else "bad", viols


def run_space(gen: Iterator[bytes], part: Part) -> None:
    for raw in gen:
        part.evaluations += 1
        outcome, viols = check_one(raw)
        part.outcomes[outcome] += 1
        if outcome in ("ok", "bad"):
            part.nontrivial += 1
        for sig, detail in viols:
            part.viol(sig, detail, raw, rank=(len(raw), raw))


def w_struct(code_lo: int, code_hi: int, seed: int, thorough: bool) -> Part:
    part = Part()
    for code in range(code_lo, code_hi):
        run_space(struct_space(code, seed, thorough), part)
    part.sample(bytes((code_lo >> 8, code_lo & 0xFF, 1, 2, 3)))
    return part


def w_short(first: int, thorough: bool) -> Part:
    part = Part()
    run_space(short_space(first, thorough), part)
    return part


def run(ctx: Ctx) -> None:
    ctx.rule = (
        "every APDU of the C04 space that the decoder accepts and the encoder can encode again: same length, equal outside the reserved-bit mask of vf/ref/apci_masks.py "
        "(TPCI bits of octet 0 + per-service reserved bits from Application Layer 03.03.07), calculated_length() == len-1, and from_knx(to_knx(x)) == x. non-trivial = compared APDUs"
    )
    ctx.assumptions = ["the reserved-bit masks are listed per service in vf/ref/apci_masks.py with the specification clause they come from"]
    step = 8
    ctx.pmap(w_struct, [(c, c + step, ctx.seed, ctx.thorough) for c in range(0, 1024, step)])
    ctx.pmap(w_short, [(f, ctx.thorough) for f in range(256)])


def replay(case: Any) -> list[tuple[str, str]]:
    return check_one(bytes(case))[1]
