"""C16 Tampered Data Secure frames are never delivered."""

from __future__ import annotations

from typing import Any

from xknx.dpt import DPTArray, DPTBinary
from xknx.management.management import Management
from xknx.telegram import IndividualAddress
from xknx.telegram.apci import APCI, GroupValueWrite

from ..dsecure import Receiver, secure_frame
from ..runner import Ctx, Part, exc_sig, seed_bytes

TITLE = "Data Secure tamper evidence"
SA, GA, SEQ = 0x1101, 0x0901, 0x0000000012AB
LENGTHS = [1, 2, 14, 15, 16, 40]


def apdu_of(n: int) -> bytes:
    p = GroupValueWrite(DPTBinary(1)) if n == 1 else GroupValueWrite(DPTArray(tuple((i * 9 + 5) & 0xFF for i in range(n - 1))))
    return bytes(p.to_knx())


def classify(pos: int, bit: int, frame_len: int) -> str:
    """Protected-field map of Application Layer 03.03.07 §5.1.3.2 for an L_Data frame without additional info.

    0 code | 1 AddIL | 2 Ctrl1 | 3 Ctrl2 | 4-5 SA | 6-7 DA | 8 L | 9 TPCI/APCI | 10 APCI | 11 SCF | 12-17 SeqNr | .. secured APDU | last 4 MAC
    """
    if pos == 2:
        return "unprotected" if bit in (7, 5, 3, 2) else "unspecified"   # FT, repeat, priority | reserved, system-broadcast, ack, confirm
    if pos == 3:
        if bit == 7:
            return "protected"      # address type
        return "unprotected" if bit >= 4 else "protected"  # hop count | extended frame format
    if 4 <= pos <= 7:
        return "protected"
    if pos == 9:
        return "protected" if bit >= 2 else "unspecified"  # TPCI | APCI high bits
    if pos >= 11:
        return "protected"          # SCF, sequence number, secured APDU, MAC
    return "unspecified"            # message code, additional info length, NPDU length, APCI low octet


def run_base(key: bytes, n: int, encrypt: bool, part: Part) -> None:
    apdu = apdu_of(n)
    payload = APCI.from_knx(apdu)
    base = secure_frame(key, SA, GA, SEQ, apdu, encrypt=encrypt)
    rx = Receiver({GA: key}, {SA: SEQ - 1})
    calls: list[Any] = []
    alg = "enc" if encrypt else "auth"

    def feed(raw: bytes) -> tuple[list[Any], BaseException | None]:
        rx.ds._individual_address_table[IndividualAddress(SA)] = SEQ - 1  # noqa: SLF001  same freshness state for every variant
        calls.clear()
        got, _issues, exc = rx.feed(raw)
        return got + list(calls), exc

    def case(kind: str, **kw: Any) -> dict[str, Any]:
        return {"key": key, "n": n, "enc": encrypt, "kind": kind, **kw}

    # the untouched frame is delivered
    got, exc = feed(base)
    part.evaluations += 1
    if exc is not None or len(got) != 1 or got[0].payload != payload or not got[0].data_secure:
        part.viol(f"genuine-frame-not-delivered:{alg}", f"apdu_len={n}: {base.hex()} -> {got} {exc!r}", case("base"))
        return
    part.nontrivial += 1
    for pos in range(len(base)):
        for bit in range(8):
            raw = base[:pos] + bytes((base[pos] ^ (1 << bit),)) + base[pos + 1:]
            cls = classify(pos, bit, len(base))
            got, exc = feed(raw)
            part.evaluations += 1
            part.outcomes[f"{cls}:{'delivered' if got else 'dropped'}"] += 1
            where = f"octet {pos} bit {bit} ({cls}) of {alg} frame apdu_len={n}"
            field = {2: "ctrl1", 3: "ctrl2", 9: "tpci", 11: "scf"}.get(pos, "address" if 4 <= pos <= 7 else "seq" if 12 <= pos <= 17 else "mac" if pos >= len(base) - 4 else "apdu" if pos >= 18 else "head")
            if exc is not None:
                part.viol(exc_sig(f"tampered-frame-raises:{field}", exc), f"{where}: {exc!r}; frame {raw.hex()}", case("flip", pos=pos, bit=bit), rank=(n, pos, bit))
                continue
            if cls == "protected":
                part.nontrivial += 1
                if got:
                    part.viol(f"tampered-frame-delivered:{alg}:{field}", f"{where}: delivered {got[0].payload}; frame {raw.hex()}", case("flip", pos=pos, bit=bit), rank=(n, pos, bit))
            elif cls == "unprotected":
                part.nontrivial += 1
                if len(got) != 1 or got[0].payload != payload or not got[0].data_secure:
                    part.viol(f"unprotected-bit-affects-acceptance:{field}", f"{where}: delivered {got}; frame {raw.hex()}", case("flip", pos=pos, bit=bit), rank=(n, pos, bit))
            elif got and (len(got) != 1 or got[0].payload != payload):
                part.viol(f"tampered-frame-delivers-other-content:{field}", f"{where}: {got}", case("flip", pos=pos, bit=bit), rank=(n, pos, bit))
    # wrong keys
    for other in (bytes(16), bytes(key[:-1]) + bytes((key[-1] ^ 1,)), bytes((key[0] ^ 0x80,)) + bytes(key[1:])):
        if other == key:
            continue
        part.evaluations += 1
        part.nontrivial += 1
        rx2 = Receiver({GA: other}, {SA: SEQ - 1})
        got2, _i, exc2 = rx2.feed(base)
        if exc2 is not None:
            part.viol(exc_sig("wrong-key-raises", exc2), f"{alg} apdu_len={n}: {exc2!r}", case("wrong-key"))
        elif got2:
            part.viol(f"wrong-key-delivered:{alg}", f"apdu_len={n}: key {other.hex()} accepted a frame secured with {key.hex()}", case("wrong-key"))
    # truncations (the NPDU length octet kept and corrected)
    for k in range(len(base)):
        for fix_len in (False, True):
            raw = base[:k]
            if fix_len and k > 9:
                raw = raw[:8] + bytes((k - 10,)) + raw[9:]
            got, exc = feed(raw)
            part.evaluations += 1
            part.nontrivial += 1
            if exc is not None:
                part.viol(exc_sig("truncated-frame-raises", exc), f"{alg} apdu_len={n} cut at {k}: {exc!r}", case("trunc", k=k, fix=fix_len), rank=(n, k))
            elif got:
                part.viol(f"truncated-frame-delivered:{alg}", f"apdu_len={n} cut at {k} (length fixed={fix_len}): {got}", case("trunc", k=k, fix=fix_len), rank=(n, k))


def worker(ki: int, n: int, encrypt: bool, seed: int) -> Part:
    part = Part()
    key = [bytes(range(16)), seed_bytes(seed, 16, 61)][ki]
    orig = Management.process
    Management.process = lambda self, telegram: None  # type: ignore[method-assign]
    try:
        run_base(key, n, encrypt, part)
    finally:
        Management.process = orig  # type: ignore[method-assign]
    part.sample({"key": key, "apdu_len": n, "algorithm": "A+C" if encrypt else "auth-only", "variants": "every single-bit flip, 3 wrong keys, every truncation"})
    return part


def run(ctx: Ctx) -> None:
    lens = LENGTHS + ([3, 13, 17, 64, 120] if ctx.thorough else [])
    ctx.rule = (
        f"secured frames built by the independent reference (vf/ref/ccm.py) for keys {{00 01..0F, seed}} x both algorithms x APDU lengths {lens}: EVERY single-bit flip of EVERY octet, "
        "3 wrong keys, every truncation (with and without corrected length octet) through the real handle_raw_cemi with the freshness table reset before each variant. Reference field map: "
        "Ctrl1 FT/repeat/priority and hop count unprotected (must be delivered unchanged); AT, EFF, addresses, TPCI, SCF, sequence number, secured APDU, MAC protected (must not be delivered); "
        "other bits: never a different telegram; nothing raises"
    )
    ctx.pmap(worker, [(k, n, enc, ctx.seed) for k in (0, 1) for n in lens for enc in (True, False)])


def replay(case: Any) -> list[tuple[str, str]]:
    part = Part()
    orig = Management.process
    Management.process = lambda self, telegram: None  # type: ignore[method-assign]
    try:
        run_base(bytes(case["key"]), case["n"], case["enc"], part)
    finally:
        Management.process = orig  # type: ignore[method-assign]
    return [(s, v[1]) for s, v in part.viols.items()]
