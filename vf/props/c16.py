"""C16 Tampered Data Secure frames are never delivered."""

from __future__ import annotations

from typing import Any

from xknx.dpt import DPTArray, DPTBinary
from xknx.management.management import Management
from xknx.telegram import IndividualAddress
from xknx.telegram.apci import APCI, GroupValueWrite

from xknx.secure.data_secure import DataSecure

from ..dsecure import Receiver, secure_frame
from ..runner import Ctx, Part, exc_sig, seed_bytes

TITLE = "Data Secure tamper evidence"
SA, GA, SEQ = 0x1101, 0x0901, 0x0000000012AB
LENGTHS = [1, 2, 14, 15, 16, 40]


def apdu_of(n: int) -> bytes:
    p = GroupValueWrite(DPTBinary(1)) if n == 1 else GroupValueWrite(DPTArray(tuple((i * 9 + 5) & 0xFF for i in range(n - 1))))
    return bytes(p.to_knx())


def classify(pos: int, bit: int, frame_len: int) -> str:
    """Protected-field map of Application Layer 03.03.07 §5.1.3.2 for an L_Data frame without additional info.

    0 code | 1 AddIL | 2 Ctrl1 | 3 Ctrl2 | 4-5 SA | 6-7 DA | 8 L | 9 TPCI/APCI | 10 APCI | 11 SCF | 12-17 SeqNr | .. secured APDU | last 4 MAC
    """
    if pos == 2:
        return "unprotected" if bit in (7, 5, 3, 2) else "unspecified"   # FT, repeat, priority | reserved, system-broadcast, ack, confirm
    if pos == 3:
        if bit == 7:
            return "protected"      # address type
        return "unprotected" if bit >= 4 else "protected"  # hop count | extended frame format
    if 4 <= pos <= 7:
        return "protected"
    if pos == 9:
        return "protected" if bit >= 2 else "unspecified"  # TPCI | APCI high bits
    if pos >= 11:
        return "protected"          # SCF, sequence number, secured APDU, MAC
    return "unspecified"            # message code, additional info length, NPDU length, APCI low octet


def run_base(key: bytes, n: int, encrypt: bool, part: Part, pairs: str = "none", zero_tail: bool = False) -> None:
    apdu = apdu_of(n)
    if zero_tail and n > 1:
        apdu = apdu[:-1] + b"\x00"   # an APDU whose last octet is zero: dropping it is a length-only change
    payload = APCI.from_knx(apdu)
    base = secure_frame(key, SA, GA, SEQ, apdu, encrypt=encrypt)
    rx = Receiver({GA: key}, {SA: SEQ - 1})
    calls: list[Any] = []
    alg = "enc" if encrypt else "auth"

    authenticated: list[Any] = []   # secured frames the Data Secure layer accepted (verified and handed on), whatever later layers do with them

    def feed(raw: bytes) -> tuple[list[Any], BaseException | None]:
        rx.ds._individual_address_table[IndividualAddress(SA)] = SEQ - 1  # noqa: SLF001  same freshness state for every variant
        calls.clear()
        authenticated.clear()
        orig = DataSecure._received_secure_cemi  # noqa: SLF001

        def spy(self: Any, cemi_data: Any, s_apdu: Any) -> Any:
            out = orig(self, cemi_data, s_apdu)
            authenticated.append(out)
            return out

        DataSecure._received_secure_cemi = spy  # type: ignore[method-assign]  # noqa: SLF001
        try:
            got, _issues, exc = rx.feed(raw)
        finally:
            DataSecure._received_secure_cemi = orig  # type: ignore[method-assign]  # noqa: SLF001
        return got + list(calls), exc

    def case(kind: str, **kw: Any) -> dict[str, Any]:
        return {"key": key, "n": n, "enc": encrypt, "kind": kind, **kw}

    # the untouched frame is delivered
    got, exc = feed(base)
    part.evaluations += 1
    if exc is not None or len(got) != 1 or got[0].payload != payload or not got[0].data_secure:
        part.viol(f"genuine-frame-not-delivered:{alg}", f"apdu_len={n}: {base.hex()} -> {got} {exc!r}", case("base"))
        return
    part.nontrivial += 1
    for pos in range(len(base)):
        for bit in range(8):
            raw = base[:pos] + bytes((base[pos] ^ (1 << bit),)) + base[pos + 1:]
            cls = classify(pos, bit, len(base))
            got, exc = feed(raw)
            part.evaluations += 1
            part.outcomes[f"{cls}:{'delivered' if got else 'dropped'}"] += 1
            where = f"octet {pos} bit {bit} ({cls}) of {alg} frame apdu_len={n}"
            field = {2: "ctrl1", 3: "ctrl2", 9: "tpci", 11: "scf"}.get(pos, "address" if 4 <= pos <= 7 else "seq" if 12 <= pos <= 17 else "mac" if pos >= len(base) - 4 else "apdu" if pos >= 18 else "head")
            if exc is not None:
                part.viol(exc_sig(f"tampered-frame-raises:{field}", exc), f"{where}: {exc!r}; frame {raw.hex()}", case("flip", pos=pos, bit=bit), rank=(n, pos, bit))
                continue
            if cls == "protected":
                part.nontrivial += 1
                if authenticated and not got:
                    # verified by the Data Secure layer although a protected bit differs (a later layer happened to drop the frame)
                    part.viol(f"tampered-frame-authenticated:{alg}:{field}", f"{where}: the Data Secure layer verified and handed on the frame ({authenticated[0]!r}); frame {raw.hex()}", case("flip", pos=pos, bit=bit), rank=(n, pos, bit))
                if got:
                    part.viol(f"tampered-frame-delivered:{alg}:{field}", f"{where}: delivered {got[0].payload}; frame {raw.hex()}", case("flip", pos=pos, bit=bit), rank=(n, pos, bit))
            elif cls == "unprotected":
                part.nontrivial += 1
                if len(got) != 1 or got[0].payload != payload or not got[0].data_secure:
                    part.viol(f"unprotected-bit-affects-acceptance:{field}", f"{where}: delivered {got}; frame {raw.hex()}", case("flip", pos=pos, bit=bit), rank=(n, pos, bit))
            elif got and (len(got) != 1 or got[0].payload != payload):
                part.viol(f"tampered-frame-delivers-other-content:{field}", f"{where}: {got}", case("flip", pos=pos, bit=bit), rank=(n, pos, bit))
    # length-only tampering of the secured APDU: octets inserted in front of the MAC (zeros, ones) or the last APDU octet removed,
    # the NPDU length octet corrected - the length is covered by the MAC in both algorithms
    body, mac = base[:-4], base[-4:]
    variants = [(f"insert-{k}x{fill:02x}", body + bytes((fill,)) * k + mac, k) for k in (1, 2, 3, 4, 15, 16) for fill in (0x00, 0xFF)]
    variants += [(f"remove-last-{k}", body[:-k] + mac, -k) for k in (1, 2) if len(body) - k > 18]
    for name, raw, delta in variants:
        if not 0 <= raw[8] + delta <= 254:
            continue
        raw = raw[:8] + bytes((raw[8] + delta,)) + raw[9:]
        if len(raw) - 10 > 15:
            raw = raw[:2] + bytes((raw[2] & 0x7F,)) + raw[3:]   # more than 15 octets: extended frame type bit (unprotected)
        got, exc = feed(raw)
        part.evaluations += 1
        part.nontrivial += 1
        if exc is not None:
            part.viol(exc_sig("tampered-frame-raises:length", exc), f"{alg} apdu_len={n} {name}: {exc!r}; frame {raw.hex()}", case("length", name=name), rank=(n, abs(delta)))
        elif got:
            part.viol(f"tampered-frame-delivered:{alg}:length", f"{alg} apdu_len={n} {name}: delivered {got[0].payload}; frame {raw.hex()}", case("length", name=name), rank=(n, abs(delta)))
    # every PAIR of bit flips (thorough: all pairs; quick: pairs within the control / TPCI / SCF / first and last secured octets and the MAC)
    if pairs != "none":
        nbits = len(base) * 8
        if pairs == "all":
            cand = list(range(nbits))
        else:
            octets = sorted({2, 3, 9, 11, 12, 17, 18, len(base) - 5, len(base) - 4, len(base) - 1} & set(range(len(base))))
            cand = [o * 8 + b for o in octets for b in range(8)]
        for ia, a in enumerate(cand):
            for b in cand[ia + 1:]:
                raw_l = bytearray(base)
                raw_l[a // 8] ^= 1 << (a % 8)
                raw_l[b // 8] ^= 1 << (b % 8)
                ca, cb = classify(a // 8, a % 8, len(base)), classify(b // 8, b % 8, len(base))
                got, exc = feed(bytes(raw_l))
                part.evaluations += 1
                where = f"bits {a // 8}.{a % 8} ({ca}) + {b // 8}.{b % 8} ({cb}) of {alg} frame apdu_len={n}"
                if exc is not None:
                    part.viol(exc_sig("tampered-frame-raises:two-bits", exc), f"{where}: {exc!r}", case("pair", a=a, b=b), rank=(n, a, b))
                elif "unspecified" in (ca, cb):
                    continue   # e.g. the APCI low octet: the frame may stop being an A_SecureData frame at all (then it is a plain frame, C18's subject)
                elif "protected" in (ca, cb):
                    part.nontrivial += 1
                    if got:
                        part.viol(f"tampered-frame-delivered:{alg}:two-bits", f"{where}: delivered {got[0].payload}; frame {bytes(raw_l).hex()}", case("pair", a=a, b=b), rank=(n, a, b))
                elif ca == cb == "unprotected":
                    if len(got) != 1 or got[0].payload != payload or not got[0].data_secure:
                        part.viol("unprotected-bit-affects-acceptance:two-bits", f"{where}: delivered {got}", case("pair", a=a, b=b), rank=(n, a, b))
    # wrong keys
    for other in (bytes(16), bytes(key[:-1]) + bytes((key[-1] ^ 1,)), bytes((key[0] ^ 0x80,)) + bytes(key[1:])):
        if other == key:
            continue
        part.evaluations += 1
        part.nontrivial += 1
        rx2 = Receiver({GA: other}, {SA: SEQ - 1})
        got2, _i, exc2 = rx2.feed(base)
        if exc2 is not None:
            part.viol(exc_sig("wrong-key-raises", exc2), f"{alg} apdu_len={n}: {exc2!r}", case("wrong-key"))
        elif got2:
            part.viol(f"wrong-key-delivered:{alg}", f"apdu_len={n}: key {other.hex()} accepted a frame secured with {key.hex()}", case("wrong-key"))
    # truncations (the NPDU length octet kept and corrected)
    for k in range(len(base)):
        for fix_len in (False, True):
            raw = base[:k]
            if fix_len and k > 9:
                raw = raw[:8] + bytes((k - 10,)) + raw[9:]
            got, exc = feed(raw)
            part.evaluations += 1
            part.nontrivial += 1
            if exc is not None:
                part.viol(exc_sig("truncated-frame-raises", exc), f"{alg} apdu_len={n} cut at {k}: {exc!r}", case("trunc", k=k, fix=fix_len), rank=(n, k))
            elif got:
                part.viol(f"truncated-frame-delivered:{alg}", f"apdu_len={n} cut at {k} (length fixed={fix_len}): {got}", case("trunc", k=k, fix=fix_len), rank=(n, k))


def worker(ki: int, n: int, encrypt: bool, seed: int, pairs: str = "none", zero_tail: bool = False) -> Part:
    part = Part()
    key = [bytes(range(16)), seed_bytes(seed, 16, 61)][ki]
    orig = Management.process
    Management.process = lambda self, telegram: None  # type: ignore[method-assign]
    try:
        run_base(key, n, encrypt, part, pairs, zero_tail)
    finally:
        Management.process = orig  # type: ignore[method-assign]
    part.sample({"key": key, "apdu_len": n, "algorithm": "A+C" if encrypt else "auth-only", "variants": "every single-bit flip, 3 wrong keys, every truncation"})
    return part


def w_rekey(depth: int, seed: int) -> Part:
    """"Using a different key" after the key table was replaced: every sequence (length <= depth) of CEMIHandler.data_secure_init calls over
    {keyring with key A, keyring with key B, keyring with both groups under swapped keys, no keyring} on ONE XKNX object, then frames
    secured with A and with B (both algorithms, fresh sequence numbers): a frame is delivered iff the LAST keyring assigns exactly that
    key to its group address - what an earlier session knew must not authenticate anything."""
    import itertools

    from xknx import XKNX
    from xknx.secure.keyring import Keyring, XMLDevice, XMLGroupAddress
    from xknx.telegram import GroupAddress

    part = Part()
    ka, kb = bytes(range(16)), bytes(seed_bytes(seed, 16, 77)) if seed else bytes(range(16, 32))
    ga2 = GA + 1

    def keyring(table: dict[int, bytes]) -> Any:
        kr = Keyring()
        for ga, key in table.items():
            g = XMLGroupAddress()
            g.address = GroupAddress(ga)
            g.decrypted_key = key
            kr.group_addresses.append(g)
        d = XMLDevice()
        d.individual_address = IndividualAddress(SA)
        d.sequence_number = 3
        kr.devices.append(d)
        return kr

    tables: dict[str, dict[int, bytes] | None] = {"A": {GA: ka}, "B": {GA: kb}, "AB": {GA: ka, ga2: kb}, "BA": {GA: kb, ga2: ka}, "none": None}
    orig = Management.process
    Management.process = lambda self, telegram: None  # type: ignore[method-assign]
    try:
        for n in range(1, depth + 1):
            for hist in itertools.product(tables, repeat=n):
                if hist[-1] == "none":
                    continue   # without a keyring nothing is secured: not this property's subject
                xknx = XKNX()
                xknx.current_address = IndividualAddress(0x1105)
                case = {"kind": "rekey", "hist": list(hist), "seed": seed}
                try:
                    for h in hist:
                        t = tables[h]
                        xknx.cemi_handler.data_secure_init(None if t is None else keyring(t))
                        part.transitions += 1
                except Exception as exc:  # noqa: BLE001
                    part.viol(exc_sig("data-secure-init-raises", exc), f"{case}: {exc!r}", case)
                    continue
                last = tables[hist[-1]] or {}
                seq = 0x100
                for ga in (GA, ga2):
                    for kname, key in (("A", ka), ("B", kb)):
                        for enc in (True, False):
                            seq += 1
                            part.evaluations += 1
                            part.nontrivial += 1
                            part.state((hist, ga, kname, enc))
                            part.transitions += 1
                            raw = secure_frame(key, SA, ga, seq, apdu_of(2), encrypt=enc)
                            try:
                                xknx.cemi_handler.handle_raw_cemi(raw)
                            except BaseException as exc:  # noqa: BLE001
                                part.viol(exc_sig("rekey-frame-raises", exc), f"{case} ga={ga:#06x} key={kname}: {exc!r}", case)
                                continue
                            got = []
                            while not xknx.telegrams.empty():
                                got.append(xknx.telegrams.get_nowait())
                            expect = last.get(ga) == key
                            part.outcomes["delivered" if got else "discarded"] += 1
                            if got and not expect:
                                part.viol("frame-under-superseded-or-foreign-key-delivered:rekey", f"{case}: frame to {ga:#06x} secured with key {kname} ({'enc' if enc else 'auth'}) delivered although the current keyring gives that address {'no key' if ga not in last else 'another key'}: {got}", case, rank=(n,))
                            elif expect and len(got) != 1:
                                part.viol("frame-under-current-key-not-delivered:rekey", f"{case}: frame to {ga:#06x} secured with the current key {kname} ({'enc' if enc else 'auth'}) -> {got}", case, rank=(n,))
    finally:
        Management.process = orig  # type: ignore[method-assign]
    return part


def run(ctx: Ctx) -> None:
    lens = LENGTHS + ([3, 13, 17, 64, 120] if ctx.thorough else [])
    ctx.rule = (
        f"secured frames built by the independent reference (vf/ref/ccm.py) for keys {{00 01..0F, seed}} x both algorithms x APDU lengths {lens}: EVERY single-bit flip of EVERY octet, "
        "3 wrong keys, every truncation (with and without corrected length octet) through the real handle_raw_cemi with the freshness table reset before each variant. Reference field map: "
        "Ctrl1 FT/repeat/priority and hop count unprotected (must be delivered unchanged); AT, EFF, addresses, TPCI, SCF, sequence number, secured APDU, MAC protected (must not be delivered); "
        "other bits: never a different telegram; nothing raises. Plus length-only tampering (1-16 zero / 0xFF octets inserted before the MAC, the last 1-2 APDU octets removed - also of APDUs ending in 0x00 - with the length octet corrected) "
        "and PAIRS of bit flips (thorough: every pair of bits of every frame up to 17 APDU octets; otherwise all pairs within the control, TPCI, SCF, first/last secured octets and MAC)"
    )
    ctx.pmap(worker, [(k, n, enc, ctx.seed, ("all" if n <= 17 else "some") if ctx.thorough else ("some" if n in (1, 2, 5) else "none"), zt) for k in (0, 1) for n in lens for enc in (True, False) for zt in (False, True) if not (zt and n == 1)])
    ctx.rule += ("; plus key replacement: every sequence of up to %d data_secure_init calls over {key A, key B, both groups A/B, both groups B/A, no keyring} on one XKNX object, then frames under A and B "
                 "to both group addresses x both algorithms: delivered iff the LAST keyring gives that address exactly that key" % (4 if ctx.thorough else 3))
    ctx.pmap(w_rekey, [(4 if ctx.thorough else 3, ctx.seed)])


def replay(case: Any) -> list[tuple[str, str]]:
    if case.get("kind") == "rekey":
        part = w_rekey(max(4, len(case["hist"])), case.get("seed", 0))
        return [(s, v[1]) for s, v in part.viols.items()]
    part = Part()
    orig = Management.process
    Management.process = lambda self, telegram: None  # type: ignore[method-assign]
    try:
        run_base(bytes(case["key"]), case["n"], case["enc"], part, "all" if case.get("kind") == "pair" else "none", True)
        run_base(bytes(case["key"]), case["n"], case["enc"], part, "none", False)
    finally:
        Management.process = orig  # type: ignore[method-assign]
    return [(s, v[1]) for s, v in part.viols.items()]
