"""C36 Registered tasks follow connection state and never run twice."""

from __future__ import annotations

import asyncio
import itertools
from typing import Any

from xknx.core import XknxConnectionState
from xknx.core.task_registry import Task

from ..runner import Ctx, Part, exc_sig
from ..sim.core import CoreWorld

TITLE = "task registry"
EVENTS = ["start_task", "remove_task", "CONNECTED", "DISCONNECTED", "CONNECTING", "+1s", "+2s", "+3.5s", "stop", "start_other", "stop+start"]
STATE = {"CONNECTED": XknxConnectionState.CONNECTED, "DISCONNECTED": XknxConnectionState.DISCONNECTED, "CONNECTING": XknxConnectionState.CONNECTING}


def configs() -> list[tuple[bool, bool, Any, float, float]]:
    """(restart_after_reconnect, wait_for_connection, repeat_after, wait_before_start, target duration)"""
    return [(r, w, rep, wb, dur) for r in (False, True) for w in (False, True) for rep in (None, 5, 0) for wb in (0, 2) for dur in (0, 3)
            if not (rep == 0 and wb == 0 and dur == 0)]  # repeat_after=0 around an instantaneous target never yields time: a configuration error


class Probe:
    """An instrumented target: counts invocations and concurrent activity."""

    def __init__(self, loop: Any, duration: float) -> None:
        self.loop = loop
        self.duration = duration
        self.calls: list[float] = []
        self.active = 0
        self.max_active = 0

    async def __call__(self) -> None:
        self.calls.append(self.loop.time())
        self.active += 1
        self.max_active = max(self.max_active, self.active)
        try:
            if self.duration:
                await asyncio.sleep(self.duration)
        finally:
            self.active -= 1


STATES: set[Any] = set()


def run_case(ci: int, seq: tuple[int, ...]) -> list[tuple[str, str]]:
    restart, wfc, repeat, wbs, dur = configs()[ci]
    viols: list[tuple[str, str]] = []
    with CoreWorld(rate_limit=0) as w:
        reg = w.xknx.task_registry
        reg.start()
        probe = Probe(w.loop, dur)
        task = Task("T1", probe, restart_after_reconnect=restart, wait_for_connection=wfc, repeat_after=repeat, wait_before_start=wbs)
        oprobe = Probe(w.loop, 3)
        other = Task("T2", oprobe, restart_after_reconnect=True, repeat_after=5)
        trace: list[str] = []
        cfg = f"restart={restart} wait_for_connection={wfc} repeat_after={repeat} wait_before_start={wbs} target={dur}s"

        def instances(name: str) -> list[Any]:
            return [t for t in w.loop.tasks if t.get_name() == name]

        def live(name: str) -> int:
            return sum(1 for t in instances(name) if not t.done())

        # reference state
        registered = False
        other_registered = False
        connected = False
        lost = False  # a connection-loss event happened and no CONNECTED / start_task since
        other_lost = False
        stopped = False
        state = XknxConnectionState.DISCONNECTED
        for ei in seq:
            ev = EVENTS[ei]
            trace.append(ev)
            n1, n2 = len(instances("T1")), len(instances("T2"))
            want1 = want2 = 0  # instances expected to be created by this event
            try:
                if ev == "start_task":
                    reg.start_task(task)
                    registered, lost, want1, stopped = True, False, 1, False
                elif ev == "start_other":
                    reg.start_task(other)
                    other_registered, other_lost, want2, stopped = True, False, 1, False
                elif ev == "remove_task":
                    reg.remove_task(task)
                    registered = False
                elif ev in ("stop", "stop+start"):
                    reg.stop()
                    registered = other_registered = False
                    stopped = True
                    if ev == "stop+start":
                        reg.start()   # what XKNX.stop() followed by XKNX.start() does: the same registry (and Task objects) are used again
                elif ev in STATE:
                    new = STATE[ev]
                    w.xknx.connection_manager.connection_state_changed(new)
                    if new != state:
                        if new == XknxConnectionState.CONNECTED:
                            if registered and restart:
                                want1, lost = 1, False
                            if other_registered:
                                want2, other_lost = 1, False
                        else:
                            if registered and restart:
                                lost = True
                            if other_registered:
                                other_lost = True
                    state = new
                    connected = new == XknxConnectionState.CONNECTED
                else:
                    w.run(float(ev[1:-1]))
            except Exception as exc:  # noqa: BLE001
                viols.append((exc_sig(f"call-raises:{ev}", exc), f"{exc!r}; {cfg} trace={trace}"))
                break
            w.loop.settle()
            STATES.add((ci, registered, other_registered, stopped, state.name, lost, other_lost, live("T1"), live("T2"), probe.active, oprobe.active, w.loop.timer_profile()))
            ctxs = f"{cfg} trace={trace}"
            for name, nb, want, pr in (("T1", n1, want1, probe), ("T2", n2, want2, oprobe)):
                made = len(instances(name)) - nb
                if made != want:
                    what = "reconnection" if ev == "CONNECTED" else ev
                    viols.append((f"instances-started:{what}:{made}-instead-of-{want}", f"{name}: {made} new instance(s) at {ev}, expected {want}; {ctxs}"))
                if live(name) > 1:
                    viols.append(("two-live-instances", f"{name}: {live(name)} live instances after {ev}; {ctxs}"))
                if pr.max_active > 1:
                    viols.append(("target-running-twice", f"{name}: target active {pr.max_active} times concurrently; {ctxs}"))
            if not registered and live("T1"):
                viols.append((f"instance-alive-after-{'stop' if stopped else 'remove'}", f"T1 live={live('T1')} active={probe.active}; {ctxs}"))
            if not other_registered and live("T2"):
                viols.append((f"instance-alive-after-{'stop' if stopped else 'remove'}", f"T2 live={live('T2')}; {ctxs}"))
            if registered and restart and lost and not connected and (live("T1") or probe.active):
                viols.append(("restart-task-running-while-disconnected", f"T1 live={live('T1')} active={probe.active} state={state.name}; {ctxs}"))
            if other_registered and other_lost and not connected and (live("T2") or oprobe.active):
                viols.append(("restart-task-running-while-disconnected", f"T2 live={live('T2')} active={oprobe.active} state={state.name}; {ctxs}"))
            if (not registered and probe.active) or (not other_registered and oprobe.active):
                viols.append(("target-still-active-after-removal", f"active={probe.active}/{oprobe.active}; {ctxs}"))
        # horizon: a registered, connected, non-waiting task must actually have run; then tear down
        w.run(12.0)
        ctxs = f"{cfg} trace={trace}"
        for name, pr in (("T1", probe), ("T2", oprobe)):
            if live(name) > 1 or pr.max_active > 1:
                viols.append(("two-live-instances", f"{name} at horizon live={live(name)} max_active={pr.max_active}; {ctxs}"))
        if registered and restart and lost and not connected and (live("T1") or probe.active):
            viols.append(("restart-task-running-while-disconnected", f"T1 at horizon; {ctxs}"))
        if not registered and live("T1"):
            viols.append((f"instance-alive-after-{'stop' if stopped else 'remove'}", f"T1 at horizon; {ctxs}"))
        if registered and connected and not lost and not probe.calls:
            viols.append(("registered-task-never-ran-while-connected", f"T1 never invoked within 12 s of the last event; {ctxs}"))
        for name, exc in w.task_escapes():
            viols.append((exc_sig("task-exception", exc), f"{name}: {exc!r}; {ctxs}"))
    seen: set[str] = set()
    return [(s, d) for s, d in viols if not (s in seen or seen.add(s))]


def sequences(depth: int) -> list[tuple[int, ...]]:
    out = []
    for n in range(1, depth + 1):
        for seq in itertools.product(range(len(EVENTS)), repeat=n):
            # sequences start with a registry call or a connection event
            if EVENTS[seq[0]].startswith("+"):
                continue
            if EVENTS[seq[-1]].startswith("+") and n > 1 and EVENTS[seq[-2]].startswith("+"):
                continue
            names = [EVENTS[e] for e in seq]
            if "stop" in names and any(x in ("start_task", "start_other", "remove_task", "stop", "stop+start") for x in names[names.index("stop") + 1 :]):
                continue  # after a bare stop() the registry no longer listens to connection changes; reuse goes through 'stop+start'
            out.append(seq)
    return out


def worker(k: int, n: int, depth: int) -> Part:
    import logging

    logging.disable(logging.CRITICAL)
    part = Part()
    seqs = sequences(depth)
    cfgs = configs()
    i = 0
    for ci in range(len(cfgs)):
        for seq in seqs:
            i += 1
            if i % n != k:
                continue
            viols = run_case(ci, seq)
            part.evaluations += 1
            part.traces += 1
            part.transitions += len(seq)
            if len(seq) > 1:
                part.nontrivial += 1
            part.outcomes["violating" if viols else "ok"] += 1
            for s, d in viols:
                part.viol(s, d, [ci, list(seq)], rank=(len(seq), ci, seq))
            if part.evaluations <= 2:
                part.sample([ci, list(seq)])
    for k_ in STATES:
        part.state(k_)
    STATES.clear()
    return part


def run(ctx: Ctx) -> None:
    depth = (6 if ctx.thorough else 5) + int(__import__("os").environ.get("VF_DEEPER", 0))
    ctx.rule = (
        f"real TaskRegistry/Task on the virtual loop: {len(configs())} task configurations (restart_after_reconnect x wait_for_connection x repeat_after in {{None,5,0}} x wait_before_start in {{0,2}} x target "
        f"lasting {{0,3}} s) plus a second always-restarting task; ALL event sequences of length <= {depth} over {EVENTS} (connection changes through the real ConnectionManager), then 12 s of timers. "
        "asyncio task instances per registry Task are counted through the loop's task factory, the target is instrumented. Oracle after every event: exactly one new instance per start_task and per "
        "reconnection of a restart task, none otherwise; never two live instances or two concurrent target runs; no instance of a restart task alive between a connection loss and the next CONNECTED/start_task; "
        "none alive after remove_task or stop."
    )
    ctx.bounds = {"depth": depth, "configs": len(configs()), "sequences": len(sequences(depth))}
    ctx.pmap(worker, [(k, 128, depth) for k in range(128)])


def replay(case: Any) -> list[tuple[str, str]]:
    ci, seq = case
    return run_case(ci, tuple(seq))
