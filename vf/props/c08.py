"""C08 Every decoded datapoint value re-encodes to a payload with the same meaning."""

from __future__ import annotations

from typing import Any

from xknx.dpt.dpt_16 import DPTString

from ..dptspace import all_dpt_classes, payloads, pl, same_value, unpl
from ..runner import Ctx, Part, exc_sig

TITLE = "decode -> encode -> decode is the identity on values"


def check_one(cls: Any, payload: Any) -> tuple[str, list[tuple[str, str]]]:
    name = cls.__name__
    try:
        v = cls.from_knx(payload)
    except Exception:  # noqa: BLE001  (C07's business)
        return "rejected", []
    try:
        p2 = cls.to_knx(v)
    except Exception as exc:  # noqa: BLE001
        return "encoder-refused", [(f"reencode-refused:{name}:{type(exc).__name__}", f"{name}: decoded {payload!r} -> {v!r} but to_knx raised {exc!r}")]
    try:
        v2 = cls.from_knx(p2)
    except Exception as exc:  # noqa: BLE001
        return "redecode-failed", [(exc_sig(f"redecode-failed:{name}", exc), f"{name}: {payload!r} -> {v!r} -> {p2!r} -> {exc!r}")]
    expect = v
    if isinstance(v, str) and issubclass(cls, DPTString):
        expect = v.replace("�", "?")
    if not same_value(expect, v2):
        return "changed", [(f"value-changed:{name}", f"{name}: {payload!r} -> {v!r} -> {p2!r} -> {v2!r}")]
    return ("identical" if p2 == payload else "normalised"), []


def worker(ci: int, seed: int, thorough: bool) -> Part:
    part = Part()
    cls = all_dpt_classes()[ci]
    name = cls.__name__
    n = 0
    nt = 0
    for payload in payloads(cls, seed, thorough):
        n += 1
        outcome, viols = check_one(cls, payload)
        part.outcomes[outcome] += 1
        if outcome != "rejected":
            nt += 1
            if nt == 3:
                part.sample([name, pl(payload)])
        for sig, detail in viols:
            part.viol(sig, detail, [name, pl(payload)])
    part.evaluations = n
    part.nontrivial = nt
    return part


def run(ctx: Ctx) -> None:
    classes = all_dpt_classes()
    ctx.rule = (
        "same payload space as C07 (every DPT class x all 6-bit payloads x all arrays of length 0..2 x per-position sweeps of longer "
        "payloads); non-trivial = payload accepted by the decoder, for which decode->encode->decode is compared (NaN==NaN, text types "
        "modulo documented '?' replacement)"
    )
    ctx.bounds = {"classes": len(classes), "thorough_pairs": ctx.thorough}
    ctx.pmap(worker, [(i, ctx.seed, ctx.thorough) for i in range(len(classes))])


def replay(case: Any) -> list[tuple[str, str]]:
    cls = next(c for c in all_dpt_classes() if c.__name__ == case[0])
    return check_one(cls, unpl(case[1]))[1]
