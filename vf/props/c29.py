"""C29 A secure session only accepts fresh wrapped frames and never sends plain ones."""

from __future__ import annotations

from ..vloop import texc

import collections
from typing import Any

from xknx import XKNX
from xknx.io.ip_secure import SecureSession
from xknx.io.tunnel import SecureTunnel
from xknx.knxip import (
    ConnectionStateRequest,
    ConnectionStateResponse,
    ConnectRequest,
    DisconnectRequest,
    DisconnectResponse,
    KNXIPFrame,
    SessionRequest,
    TunnellingAck,
    TunnellingRequest,
)

from ..explore import Chooser, explore, finalize_states, replay_schedule
from ..ref import ipsec
from ..runner import Ctx, Part, exc_sig
from ..sim.gateway import GW_ADDR
from ..sim.secure_gateway import SERVER_SERIAL, PatchCrypto, SecureServer
from ..vloop import World
from xknx.exceptions import CouldNotParseKNXIP
from .c24 import make_cemi

TITLE = "secure session freshness; no plain sends"
CEMI = bytes.fromhex("2900bcd011010901010081")
KINDS = ["genuine", "forged-mac", "wrong-session-id", "session-id-field-altered", "wrong-key", "nested-wrapper", "wrapped-remote-diagnosis", "wrapped-unknown-service", "wrapped-garbage"]
PLAIN = ["plain-tunnelling-request", "plain-session-response", "plain-session-status-close"]


def treq(n: int) -> bytes:
    return KNXIPFrame.init_from_body(TunnellingRequest(1, n & 0xFF, CEMI)).to_knx()


class SessionWorld(World):
    """Real SecureSession connected through its real handshake to the simulated secure server."""

    def __init__(self, connect: bool = True) -> None:
        super().__init__()
        self.srv = SecureServer(self.loop)
        self.delivered: list[Any] = []
        self.session = SecureSession(remote_addr=GW_ADDR, user_id=2, user_password="secret", device_authentication_password="trustme")
        self.consumer_raises: type[BaseException] | None = None

        def consumer(frame: Any, src: Any, tr: Any) -> None:
            self.delivered.append(frame.body)
            if self.consumer_raises is not None:
                raise self.consumer_raises("consumer cannot use this frame")

        self.session.register_callback(consumer)
        self.task = self.spawn(self.session.connect(), name="harness-connect")
        if connect:
            self.loop.settle()
            assert self.task.done() and texc(self.task) is None, self.task

    def frame_for(self, kind: str, seq: int, n: int) -> bytes:
        srv = self.srv
        inner = treq(n)
        if kind == "genuine":
            return srv.wrap(inner, seq=seq)
        if kind == "forged-mac":
            raw = srv.wrap(inner, seq=seq)
            return raw[:-1] + bytes((raw[-1] ^ 1,))
        if kind == "wrong-session-id":
            return srv.wrap(inner, seq=seq, session_id=srv.session_id + 1)
        if kind == "session-id-field-altered":
            # wrapped correctly for this session (MAC computed over the real id), then the id field on the wire replaced
            raw = srv.wrap(inner, seq=seq)
            return raw[:6] + ((srv.session_id + 1) & 0xFFFF).to_bytes(2, "big") + raw[8:]
        if kind == "wrong-key":
            return srv.wrap(inner, seq=seq, key=bytes(16))
        if kind == "nested-wrapper":
            return srv.wrap(srv.wrap(inner, seq=seq), seq=seq)
        if kind == "wrapped-remote-diagnosis":
            return srv.wrap(bytes.fromhex("06100740000a01020304"), seq=seq)
        if kind == "wrapped-unknown-service":
            return srv.wrap(bytes.fromhex("06100a01000801ff"), seq=seq)
        if kind == "wrapped-garbage":
            return srv.wrap(bytes.fromhex("0610042000"), seq=seq)
        if kind == "plain-tunnelling-request":
            return inner
        if kind == "plain-session-response":
            return bytes.fromhex("061009520038") + (9).to_bytes(2, "big") + bytes(32) + bytes(16)
        if kind == "plain-session-status-close":
            return bytes.fromhex("0610095400080500")
        raise AssertionError(kind)

    def feed(self, raw: bytes) -> tuple[list[Any], BaseException | None]:
        n = len(self.delivered)
        exc: BaseException | None = None
        try:
            self.session.data_received_callback(raw)
        except BaseException as e:  # noqa: BLE001
            exc = e
        return self.delivered[n:], exc


def bfs(part: Part, max_seq: int) -> None:
    """Explicit-state search: state = last accepted sequence number of the established session."""
    events = [(k, s) for k in KINDS for s in range(0, max_seq + 1)] + [(p, 0) for p in PLAIN]
    seen: dict[int, list[Any]] = {}
    frontier: collections.deque[list[Any]] = collections.deque([[]])
    with PatchCrypto():
        while frontier:
            hist = frontier.popleft()

            def rebuild() -> SessionWorld:
                w = SessionWorld()
                for i, (k, s) in enumerate(hist):
                    w.feed(w.frame_for(k, s, i))
                return w

            w0 = rebuild()
            state = w0.session._sequence_number_received  # noqa: SLF001
            w0.close()
            if state in seen:
                continue
            seen[state] = hist
            for ev in events:
                kind, seq = ev
                w = rebuild()
                try:
                    got, exc = w.feed(w.frame_for(kind, seq, 100 + seq))
                    after = w.session._sequence_number_received  # noqa: SLF001
                    still_open = w.session.transport is not None
                finally:
                    w.close()
                part.transitions += 1
                part.evaluations += 1
                case = {"kind": "rx", "history": [list(h) for h in hist], "event": list(ev)}
                want = kind == "genuine" and seq > state
                part.outcomes[f"{kind}:{'delivered' if got else 'dropped'}"] += 1
                if want:
                    part.nontrivial += 1
                if exc is not None:
                    part.viol(exc_sig(f"receive-raises:{kind}", exc), f"last accepted {state}, event {ev}: {exc!r}", case, rank=(len(hist),))
                    continue
                if bool(got) != want or (got and (len(got) != 1 or not isinstance(got[0], TunnellingRequest) or got[0].sequence_counter != (100 + seq) & 0xFF)):
                    k = "replayed-or-stale-frame-delivered" if got and kind == "genuine" else f"unauthentic-frame-delivered:{kind}" if got else "fresh-genuine-frame-dropped"
                    part.viol(f"session-receive:{k}", f"last accepted {state}, event {kind} seq={seq}: delivered {got}, reference {'1 frame' if want else 'nothing'}", case, rank=(len(hist),))
                want_after = seq if want else state
                if after != want_after:
                    part.viol(f"receive-counter-wrong:{kind}", f"last accepted {state}, event {kind} seq={seq}: counter now {after}, reference {want_after}", case, rank=(len(hist),))
                if after not in seen and after <= max_seq and still_open:
                    frontier.append(hist + [ev])
                if kind == "genuine":
                    # the same transition with a consumer that raises while handling the frame: passed on once, the counter
                    # advances all the same (otherwise the very same wrapper would be accepted again)
                    for exc_type in (CouldNotParseKNXIP, RuntimeError):
                        w = rebuild()
                        try:
                            w.consumer_raises = exc_type
                            got, _exc = w.feed(w.frame_for(kind, seq, 100 + seq))
                            after2 = w.session._sequence_number_received  # noqa: SLF001
                            got2, _exc2 = w.feed(w.frame_for(kind, seq, 100 + seq))
                        finally:
                            w.close()
                        part.transitions += 2
                        part.evaluations += 1
                        case2 = {"kind": "rx", "history": [list(h) for h in hist], "event": list(ev), "consumer_raises": exc_type.__name__}
                        if bool(got) != want or after2 != want_after:
                            part.viol("receive-counter-wrong:raising-consumer", f"last accepted {state}, genuine seq={seq}, consumer raises {exc_type.__name__}: delivered {len(got)}, counter {after2}, reference {int(want)} / {want_after}", case2, rank=(len(hist),))
                        if got2:
                            part.viol("session-receive:replayed-or-stale-frame-delivered:raising-consumer", f"last accepted {state}: the same wrapper (seq={seq}) is passed on again after the consumer raised {exc_type.__name__} for it", case2, rank=(len(hist),))
    part.states += len(seen)
    part.traces += len(seen)
    part.sample({"states(last accepted sequence)": sorted(seen), "events_per_state": len(events)})


def before_init(part: Part) -> None:
    """Frames arriving before the session is initialised (after SessionRequest, before SessionResponse)."""
    with PatchCrypto():
        for kind in ["genuine", "forged-mac", "plain-tunnelling-request", "plain-session-status-close", "wrapped-garbage"]:
            w = SessionWorld(connect=False)
            try:
                w.srv.session_handler = lambda stage: "no-answer" if stage == "session-request" else "ok"
                w.loop.settle()   # SessionRequest is out, the server stays silent; it knows the key already
                got, exc = w.feed(w.frame_for(kind, 5, 1))
                part.evaluations += 1
                part.nontrivial += 1
                case = {"kind": "pre-init", "event": kind}
                if exc is not None:
                    part.viol(exc_sig(f"receive-raises-before-initialisation:{kind}", exc), f"{kind} before the SessionResponse: {exc!r}", case)
                elif got:
                    part.viol(f"frame-accepted-before-initialisation:{kind}", f"{got}", case)
            finally:
                w.close()


def after_failed_reconnect(part: Part) -> None:
    """The same SecureSession object connected a second time, and that handshake fails (SessionResponse with a wrong MAC, or
    none at all): afterwards it is not a session - wrappers of the earlier session (replays) and of the would-be new one are
    not passed on, nothing raises, and an application frame is refused instead of going out under an old key."""
    from xknx.exceptions import CommunicationError, IPSecureError
    from xknx.knxip import KNXIPFrame, TunnellingRequest

    with PatchCrypto():
        for mode in ("bad-mac", "no-answer"):
            for new_id in (False, True):
                w = SessionWorld()
                try:
                    old = [(f"old-session-seq-{q}", w.frame_for("genuine", q, 1)) for q in (0, 1, 5)]
                    w.session.stop()
                    w.loop.settle()
                    if new_id:
                        w.srv.session_id += 1
                    w.srv.session_handler = lambda stage, mode=mode: mode if stage == "session-request" else "ok"
                    t = w.spawn(w.session.connect(), name="harness-reconnect")
                    w.loop.run_until(w.loop.time() + 30)
                    part.evaluations += 1
                    part.nontrivial += 1
                    case = {"kind": "failed-reconnect", "mode": mode, "new_id": new_id}
                    if not t.done() or texc(t) is None:
                        part.viol(f"reconnect-succeeds-despite:{mode}", f"connect() {'returned' if t.done() else 'still pending'} although the SessionResponse was {mode}", case)
                        continue
                    writes = len(w.srv.client_writes)
                    frames = old + [("new-session-seq-0", w.frame_for("genuine", 0, 2)), ("new-session-seq-9", w.frame_for("genuine", 9, 2))]
                    for name, raw in frames:
                        got, exc = w.feed(raw)
                        if exc is not None:
                            part.viol(exc_sig(f"receive-raises-after-failed-reconnect:{mode}", exc), f"{name}: {exc!r}", case)
                        elif got:
                            part.viol(f"frame-accepted-after-failed-reconnect:{mode}:{name.rsplit('-', 2)[0]}", f"{name} passed on after connect() failed ({mode}): {got}", case)
                    try:
                        w.session.send(KNXIPFrame.init_from_body(TunnellingRequest(7, 0, CEMI)))
                        sent = "returned"
                    except (IPSecureError, CommunicationError) as exc:
                        sent = type(exc).__name__
                    except Exception as exc:  # noqa: BLE001
                        part.viol(exc_sig(f"send-raises-undeclared-after-failed-reconnect:{mode}", exc), f"{exc!r}", case)
                        sent = "raised"
                    w.loop.settle()
                    later = w.srv.client_writes[writes:]
                    if later:
                        part.viol(f"frame-sent-after-failed-reconnect:{mode}", f"send() {sent}; the server received {[(k, type(b).__name__) for _t, k, _s, b in later]} although no session was established", case)
                    part.outcomes[f"failed-reconnect:{mode}:send-{sent}"] += 1
                finally:
                    w.close()


def w_receive(max_seq: int) -> Part:
    part = Part()
    bfs(part, max_seq)
    before_init(part)
    after_failed_reconnect(part)
    return part


# ---------------------------------------------------------------- send side: full secure tunnel sessions
Q = ["next-timer", "user-send", "server-disconnect", "server-session-close", "user-disconnect", "+25s"]


def make_send(steps: int):
    def scenario(ch: Chooser) -> list[tuple[str, str]]:
        viols: list[tuple[str, str]] = []
        with PatchCrypto(), World() as w:
            loop = w.loop
            srv = SecureServer(loop)
            st = {"chan": 7}
            events: list[Any] = []

            def inner(body: Any) -> None:
                if isinstance(body, ConnectRequest):
                    from ..sim.gateway import Gateway

                    chan = st["chan"]
                    st["chan"] += 1
                    srv.send(Gateway.connect_response(srv, chan, tcp=True))  # type: ignore[arg-type]
                elif isinstance(body, ConnectionStateRequest):
                    srv.send(ConnectionStateResponse(body.communication_channel_id))
                elif isinstance(body, DisconnectRequest):
                    srv.send(DisconnectResponse(body.communication_channel_id))
                elif isinstance(body, TunnellingRequest):
                    srv.send(TunnellingAck(body.communication_channel_id, body.sequence_counter))

            srv.addr = GW_ADDR  # type: ignore[attr-defined]
            srv.inner_handler = inner
            xknx = XKNX()
            tunnel = SecureTunnel(xknx, lambda raw: None, gateway_ip=GW_ADDR[0], gateway_port=GW_ADDR[1], user_id=2, user_password="secret",
                                  device_authentication_password="trustme", auto_reconnect=True, auto_reconnect_wait=3)
            t0 = w.spawn(tunnel.connect(), name="harness-connect")
            loop.settle()
            if not (t0.done() and texc(t0) is None):
                return [("harness:connect-failed", repr(t0))]
            sends = 0
            done = False
            for _ in range(steps):
                loop.settle()
                opts = ["next-timer"] if done else Q
                c = ch.choose("q", len(opts)) if len(opts) > 1 else 0
                ev = opts[c]
                events.append((round(loop.time(), 2), ev))
                if ev == "next-timer":
                    if not loop.advance_next():
                        break
                elif ev == "+25s":
                    loop.run_until(loop.time() + 25)
                elif ev == "user-send":
                    async def snd(i: int = sends) -> None:
                        try:
                            await tunnel.send_cemi(make_cemi(i))
                        except Exception:  # noqa: BLE001
                            pass
                    w.spawn(snd(), name="harness-send")
                    sends += 1
                elif ev == "server-disconnect":
                    if tunnel.communication_channel is not None:
                        srv.send(DisconnectRequest(tunnel.communication_channel))
                elif ev == "server-session-close":
                    if srv.key is not None:   # (no session on this connection yet: nothing to close)
                        srv.send_wrapped_raw(bytes.fromhex("0610095400080500"))
                elif ev == "user-disconnect":
                    done = True
                    w.spawn(tunnel.disconnect(), name="harness-disconnect")
            loop.run_until(loop.time() + 200)
            # ---- oracle over everything the client wrote to the TCP connection(s)
            last_seq = None
            for t, kind, cseq, body in srv.client_writes:
                if kind == "plain":
                    if not isinstance(body, SessionRequest):
                        viols.append((f"plain-frame-sent:{type(body).__name__}", f"t={t}: {body}; events={events}"))
                    last_seq = None   # a new session starts
                elif kind == "bad-wrapper":
                    viols.append(("client-wrapper-not-authentic", f"t={t}: a wrapper the server cannot verify; events={events}"))
                else:
                    if last_seq is not None and cseq <= last_seq:
                        viols.append(("wrapper-sequence-not-increasing", f"t={t}: {type(body).__name__} carries sequence {cseq} after {last_seq}; events={events}"))
                    if last_seq is None and cseq != 0:
                        viols.append(("first-wrapper-sequence-not-zero", f"t={t}: {cseq}; events={events}"))
                    last_seq = cseq
            for name, exc in loop.task_failures():
                if not name.startswith("harness-"):
                    viols.append((f"task-exception:{type(exc).__name__}", f"{name}: {exc!r}; events={events}"))
            for cx in loop.exceptions:
                viols.append((f"loop-exception:{type(cx.get('exception')).__name__}", repr(cx)[:300] + f"; events={events}"))
            kinds = collections.Counter(type(b).__name__ for _, k, _, b in srv.client_writes if k == "wrapper")
            ch.notes.append(",".join(f"{k}={v}" for k, v in sorted(kinds.items())))
            ch.state((tuple(sorted(kinds.items())), tunnel.communication_channel is not None))
        seen: set[str] = set()
        return [(s, d) for s, d in viols if not (s in seen or seen.add(s))]

    return scenario


SCENARIOS = {"secure-tunnel": make_send}


def selftest() -> None:
    ipsec.selftest()


def run(ctx: Ctx) -> None:
    ipsec.selftest()
    bound = 5 if ctx.thorough else 2
    max_seq = 5 if ctx.thorough else 4
    ctx.rule = (
        f"(a) explicit-state search to a fixpoint of the real SecureSession receive path after a real handshake with the simulated secure server: state = last accepted sequence number 0..{max_seq}; "
        f"from every state every event {KINDS} x sequence 0..{max_seq} and {PLAIN} (frames wrapped by the independent reference) is fed: delivered <=> genuine and strictly larger sequence, the counter "
        "moves only then, nothing raises; frames before initialisation never raise or get accepted; the same session object connected a second time with a handshake that fails (SessionResponse MAC wrong / missing): replayed wrappers of the first session and wrappers of the would-be new one are not passed on, an application frame is refused, nothing reaches the server; (b) real SecureTunnel sessions (handshake, connect, heartbeats, keep-alives, sends, reconnects, close) "
        f"with every schedule of {Q[1:]} within <= {bound} deviations: the server unwraps every octet the client wrote - only SessionRequest is plain, wrappers verify and carry 0,1,2,... per session"
    )
    ctx.bounds = {"max_sequence": max_seq, "deviation_bound": bound}
    ctx.assumptions = ["X25519 and SHA-256/PBKDF2 primitives of `cryptography`/hashlib are trusted; PBKDF2 is memoised and the client's ECDH key pair is fixed for determinism"]
    ctx.pmap(w_receive, [(max_seq,)])
    explore(ctx, __name__, "secure-tunnel", (6,), bound=bound)
    finalize_states(ctx)
    ctx.total.states += 0


def replay(case: Any) -> list[tuple[str, str]]:
    if "scenario" in case:
        return replay_schedule(__name__, case)
    p = w_receive(4)
    return [(s, v[1]) for s, v in p.viols.items()]
