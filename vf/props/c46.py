"""C46 Automatic connection never downgrades a secured gateway."""

from __future__ import annotations

from ..vloop import texc

import itertools
from typing import Any

from xknx import XKNX
from xknx.exceptions import CommunicationError, InvalidSecureConfiguration
from xknx.io import ConnectionConfig, ConnectionType, GatewayScanFilter, SecureConfig
from xknx.io.gateway_scanner import GatewayDescriptor
import xknx.io.knxip_interface as KI
from xknx.io.knxip_interface import KNXIPInterface
from xknx.knxip import HPAI, KNXIPFrame, SearchRequest, SearchRequestExtended, SearchResponse, SearchResponseExtended
from xknx.knxip.dib import DIBDeviceInformation, DIBSecuredServiceFamilies, DIBServiceFamily, DIBSuppSVCFamilies, DIBTunnelingInfo, TunnelingSlotStatus
from xknx.secure.keyring import InterfaceType, Keyring, XMLBackbone, XMLInterface
from xknx.telegram import IndividualAddress

from ..runner import Ctx, Part, exc_sig
from ..vloop import World

TITLE = "no security downgrade"
T, R = "tunnelling", "routing"


def gateways() -> list[dict[str, Any]]:
    """Every gateway capability announcement of the stated space."""
    out = []
    for core in (1, 2):
        for tun in (None, 1, 2):
            for rout in (None, 1):
                for sec_family in (False, True):
                    for secured in ((None, [], [T], [R], [T, R]) if core == 2 else (None,)):
                        for order in (0, 1):
                            for mode in (("plain",), ("ext",), ("plain", "ext"), ("ext", "plain")) if core == 2 else (("plain",),):
                                out.append({"core": core, "tun": tun, "rout": rout, "sec_family": sec_family, "secured": secured, "order": order, "mode": mode})
    return out


def frames(gw: dict[str, Any], ip: str, ia: str) -> dict[str, bytes]:
    info = DIBDeviceInformation()
    info.name = "gw-" + ip.rsplit(".", 1)[1]
    info.individual_address = IndividualAddress(ia)
    info.serial_number = "00:01:02:03:04:05"
    info.mac_address = "00:01:02:03:04:05"
    fam = DIBSuppSVCFamilies()
    fam.families.append(DIBSuppSVCFamilies.Family(DIBServiceFamily.CORE, gw["core"]))
    fam.families.append(DIBSuppSVCFamilies.Family(DIBServiceFamily.DEVICE_MANAGEMENT, 1))
    if gw["tun"]:
        fam.families.append(DIBSuppSVCFamilies.Family(DIBServiceFamily.TUNNELING, gw["tun"]))
    if gw["rout"]:
        fam.families.append(DIBSuppSVCFamilies.Family(DIBServiceFamily.ROUTING, gw["rout"]))
    if gw["sec_family"]:
        fam.families.append(DIBSuppSVCFamilies.Family(DIBServiceFamily.SECURITY, 1))
    base = [info, fam] if gw["order"] == 0 else [fam, info]
    plain = SearchResponse(control_endpoint=HPAI(ip, 3671))
    plain.dibs = list(base)
    ext = SearchResponseExtended(control_endpoint=HPAI(ip, 3671))
    ext.dibs = list(base)
    if gw["secured"] is not None:
        sec = DIBSecuredServiceFamilies()
        for s in gw["secured"]:
            sec.families.append(DIBSecuredServiceFamilies.Family(DIBServiceFamily.TUNNELING if s == T else DIBServiceFamily.ROUTING, 1))
        if gw["order"] == 0:
            ext.dibs.append(sec)
        else:
            ext.dibs.insert(0, sec)
    if gw["tun"]:
        # two tunnelling slots: the first free, the second in use
        ext.dibs.append(DIBTunnelingInfo({IndividualAddress("1.0.240"): TunnelingSlotStatus(True, False, True), IndividualAddress("1.0.241"): TunnelingSlotStatus(True, False, False)}))
    return {"plain": KNXIPFrame.init_from_body(plain).to_knx(), "ext": KNXIPFrame.init_from_body(ext).to_knx()}


def filters() -> list[tuple[bool, ...]]:
    return list(itertools.product((False, True), repeat=5))


SECURE_CONFIGS = ["none", "credentials", "keyring-host-match", "keyring-host-mismatch", "keyring-host-match+credentials", "keyring-ia-of-this-host", "keyring-ia-of-other-host", "keyring-ia-unknown",
                  "keyring-free-slot-without-credentials", "keyring-ia-without-credentials"]
BACKBONE_KEY = bytes(range(16))


def keyring_for(host: str, first_has_credentials: bool = True) -> Keyring:
    """Two tunnel interfaces of `host` (1.0.240 with user 2, 1.0.241 with user 3) and a backbone key; ETS also exports
    interfaces without UserID/Password (tunnels not secured in the project) - `first_has_credentials=False`."""
    kr = Keyring()
    for i, (ia, uid) in enumerate((("1.0.240", 2), ("1.0.241", 3))):
        itf = XMLInterface()
        itf.type = InterfaceType.TUNNELING
        itf.individual_address = IndividualAddress(ia)
        itf.host = IndividualAddress(host)
        if i or first_has_credentials:
            itf.user_id = uid
            itf.decrypted_password = f"pw{uid}"
            itf.decrypted_authentication = "auth"
        itf.group_addresses = {}
        kr.interfaces.append(itf)
    bb = XMLBackbone()
    bb.decrypted_key = BACKBONE_KEY
    bb.latency = 1000
    bb.multicast_address = "224.0.23.12"
    kr.backbone = bb
    return kr


def secure_config(kind: str) -> SecureConfig | None:
    if kind == "none":
        return None
    if kind == "credentials":
        return SecureConfig(user_id=2, user_password="pw", device_authentication_password="auth", backbone_key=BACKBONE_KEY.hex())
    if kind in ("keyring-free-slot-without-credentials", "keyring-ia-without-credentials"):
        return SecureConfig(keyring=keyring_for("1.0.1", first_has_credentials=False))
    if kind == "keyring-host-match":
        return SecureConfig(keyring=keyring_for("1.0.1"))
    if kind == "keyring-host-mismatch":
        return SecureConfig(keyring=keyring_for("9.9.9"))
    if kind == "keyring-ia-of-this-host":
        return SecureConfig(keyring=keyring_for("1.0.1"))
    if kind in ("keyring-ia-of-other-host", "keyring-ia-unknown"):
        return SecureConfig(keyring=keyring_for("9.9.9"))
    return SecureConfig(keyring=keyring_for("1.0.1"), user_id=2, user_password="pw", device_authentication_password="auth")


class Recorder:
    """What the real connection starters tried to open: (kind, gateway ip, constructor arguments)."""

    def __init__(self) -> None:
        self.calls: list[tuple[str, str | None]] = []
        self.args: list[dict[str, Any]] = []
        self.fail: set[str] = set()

    def rec(self, kind: str, ip: str | None, kw: dict[str, Any]) -> None:
        self.calls.append((kind, ip))
        self.args.append(kw)
        if f"{kind}@{ip}" in self.fail or kind in self.fail:
            raise CommunicationError("unreachable")


REC = Recorder()


def fake_connection(kind: str) -> type:
    """Stands in for UDPTunnel / TCPTunnel / SecureTunnel / Routing / SecureRouting inside xknx.io.knxip_interface: the real
    _start_* methods (credential and keyring selection included) run, only the socket level is replaced by a record."""

    class Conn:
        def __init__(self, xknx: Any, **kw: Any) -> None:
            self.kw = kw

        async def connect(self) -> None:
            REC.rec(kind, self.kw.get("gateway_ip"), self.kw)

        async def disconnect(self) -> None:
            return None

    Conn.__name__ = "Fake_" + kind
    return Conn


FAKES = {"UDPTunnel": "tunnelling_udp", "TCPTunnel": "tunnelling_tcp", "SecureTunnel": "secure_tunnelling_tcp", "Routing": "routing", "SecureRouting": "secure_routing"}


class patched_connections:
    def __enter__(self) -> None:
        self.saved = {n: getattr(KI, n) for n in FAKES}
        for n, kind in FAKES.items():
            setattr(KI, n, fake_connection(kind))

    def __exit__(self, *a: Any) -> None:
        for n, v in self.saved.items():
            setattr(KI, n, v)


def run_case(gws: tuple[int, ...], flt: tuple[bool, ...], sc: str, fail_first: bool = False) -> tuple[list[tuple[str, str]], str]:
    """Real KNXIPInterface.start() in automatic mode against simulated gateways answering the real GatewayScanner."""
    viols: list[tuple[str, str]] = []
    allg = gateways()
    specs = [allg[g] for g in gws]
    global REC
    REC = Recorder()
    with World() as w, patched_connections():
        loop = w.loop
        xknx = XKNX()
        try:
            f = GatewayScanFilter(tunnelling=flt[0], tunnelling_tcp=flt[1], routing=flt[2], secure_tunnelling=flt[3], secure_routing=flt[4])
            ia = {"keyring-ia-of-this-host": "1.0.240", "keyring-ia-of-other-host": "1.0.240", "keyring-ia-unknown": "1.0.99", "keyring-ia-without-credentials": "1.0.240"}.get(sc)
            cfg = ConnectionConfig(connection_type=ConnectionType.AUTOMATIC, local_ip="192.168.1.5", scan_filter=f, secure_config=secure_config(sc), individual_address=ia)
            iface = KNXIPInterface(xknx, cfg)
            ips = [f"192.168.1.{10 + i}" for i in range(len(specs))]
            ias = ["1.0.1", "1.0.2"]
            wire = [frames(g, ip, ia) for g, ip, ia in zip(specs, ips, ias)]

            def on_endpoint(tr: Any) -> None:
                def on_send(data: bytes, addr: Any) -> None:
                    frame, _ = KNXIPFrame.from_knx(data)
                    kind = "ext" if isinstance(frame.body, SearchRequestExtended) else "plain" if isinstance(frame.body, SearchRequest) else None
                    if kind is None:
                        return
                    # every gateway answers the request kinds of its mode, in the mode's order (delivered once both requests are out)
                    pending.append(kind)
                    if len(pending) == 2:
                        for gi, g in enumerate(specs):
                            for m in g["mode"]:
                                tr.deliver(wire[gi][m], (ips[gi], 3671))

                pending: list[str] = []
                tr.on_send = on_send

            loop.on_endpoint = on_endpoint
            if fail_first:
                REC.fail = {"tunnelling_udp@" + ips[0], "tunnelling_tcp@" + ips[0], "secure_tunnelling_tcp@" + ips[0], "routing"}
            t = w.spawn(iface.start(), name="harness-start")
            loop.run_until(loop.time() + 10)
            outcome = "pending"
            if t.done():
                exc = texc(t)
                if exc is None:
                    outcome = "connected:" + (REC.calls[-1][0] if REC.calls else "nothing")
                elif isinstance(exc, CommunicationError):
                    outcome = "no-usable-gateway"
                else:
                    outcome = "raised:" + type(exc).__name__
                    if not isinstance(exc, InvalidSecureConfiguration):
                        viols.append((exc_sig("start-escape", exc), f"{exc!r}"))
            else:
                viols.append(("automatic-start-hangs", "start() not finished after 10 s of virtual time"))
            ctxs = f"gateways={specs} filter(tunnelling,tcp,routing,secure_tunnelling,secure_routing)={flt} secure_config={sc} calls={REC.calls}"
            by_ip = dict(zip(ips, specs))
            for kind, ip in REC.calls:
                if kind in ("tunnelling_udp", "tunnelling_tcp"):
                    g = by_ip[ip]  # type: ignore[index]
                    if g["secured"] and T in g["secured"]:
                        viols.append((f"plain-{kind}-to-gateway-announcing-secured-tunnelling", ctxs))
                    if not g["tun"] or (kind == "tunnelling_tcp" and g["tun"] < 2):
                        viols.append((f"{kind}-to-gateway-without-that-service", ctxs))
                elif kind == "routing":
                    if all(g["secured"] and R in g["secured"] for g in specs if g["rout"]) and any(g["rout"] for g in specs):
                        viols.append(("plain-routing-although-every-router-announces-secured-routing", ctxs))
                    if not any(g["rout"] for g in specs):
                        viols.append(("routing-without-any-router", ctxs))
                elif kind == "secure_tunnelling_tcp":
                    g = by_ip[ip]  # type: ignore[index]
                    if not (g["secured"] and T in g["secured"]):
                        viols.append(("secure-tunnel-to-gateway-not-announcing-it", ctxs))
            # the keyring host filter: nothing is opened to a gateway whose address the keyring does not list
            if sc in ("keyring-host-mismatch", "keyring-ia-of-other-host", "keyring-ia-unknown") and REC.calls:
                viols.append(("connection-to-gateway-outside-keyring", ctxs))
            if sc.startswith("keyring-host-match") or sc in ("keyring-ia-of-this-host", "keyring-free-slot-without-credentials", "keyring-ia-without-credentials"):
                for kind, ip in REC.calls:
                    if ip is not None and ip != ips[0]:
                        viols.append(("connection-to-gateway-outside-keyring", ctxs))
            # a secure tunnel opened from a keyring alone uses the credentials of one of that host's interfaces: the configured
            # address, else the first slot the gateway announces as free
            for (kind, ip), kw in zip(REC.calls, REC.args):
                if kind == "secure_tunnelling_tcp" and sc.startswith("keyring") and "+credentials" not in sc:
                    want = {"keyring-free-slot-without-credentials": None, "keyring-ia-without-credentials": None}.get(sc, (2, "pw2"))
                    if want is None or (kw.get("user_id"), kw.get("user_password")) != want:
                        viols.append(("secure-tunnel-with-credentials-the-keyring-does-not-give-for-that-slot", f"user_id={kw.get('user_id')} {ctxs}"))
            # the scan filter: a gateway that is connected to must have matched it (reference predicate)
            for kind, ip in REC.calls:
                if ip is None:
                    continue
                g = by_ip[ip]
                if not ref_match(flt, desc_of(g, ext=True)) and not ref_match(flt, desc_of(g, ext=False)):
                    viols.append(("connection-to-gateway-the-filter-excludes", ctxs))
        finally:
            xknx.started.clear()
    seen: set[str] = set()
    return [(s, d) for s, d in viols if not (s in seen or seen.add(s))], outcome


def desc_of(g: dict[str, Any], ext: bool) -> dict[str, Any]:
    """What a correct parse of the (extended / plain) response yields."""
    return {
        "tun": bool(g["tun"]), "tcp": bool(g["tun"] and g["tun"] >= 2), "rout": bool(g["rout"]),
        "tsec": (T in g["secured"]) if (ext and g["secured"] is not None) else None,
        "rsec": (R in g["secured"]) if (ext and g["secured"] is not None) else None,
    }


def ref_match(flt: tuple[bool, ...], d: dict[str, Any]) -> bool:
    """The statement: one of the enabled methods is supported and its security requirement agrees."""
    tunnelling, tcp, routing, stun, srout = flt
    return bool(
        (tunnelling and d["tun"] and not d["tsec"]) or (tcp and d["tcp"] and not d["tsec"]) or (routing and d["rout"] and not d["rsec"])
        or (stun and d["tcp"] and d["tsec"]) or (srout and d["rout"] and d["rsec"])
    )


def w_filter() -> Part:
    """GatewayScanFilter.match against the statement's predicate on the complete flag space, through the real DIB parsing."""
    part = Part()
    for gi, g in enumerate(gateways()):
        wire = frames(g, "192.168.1.10", "1.0.1")
        for ext in (False, True):
            frame, _ = KNXIPFrame.from_knx(wire["ext" if ext else "plain"])
            gd = GatewayDescriptor(ip_addr="192.168.1.10", port=3671)
            gd.parse_dibs(frame.body.dibs)  # type: ignore[union-attr]
            want_d = desc_of(g, ext)
            got_d = {"tun": gd.supports_tunnelling, "tcp": gd.supports_tunnelling_tcp, "rout": gd.supports_routing, "tsec": gd.tunnelling_requires_secure, "rsec": gd.routing_requires_secure}
            part.evaluations += 1
            if got_d != want_d or gd.core_version != g["core"] or gd.supports_secure != g["sec_family"] or str(gd.individual_address) != "1.0.1":
                part.viol("descriptor-differs-from-announcement", f"{g} ext={ext}: parsed {got_d} core={gd.core_version} secure={gd.supports_secure}, announced {want_d}", ["filter", gi, ext], rank=(gi,))
            for flt in filters():
                for name, name_ok in ((None, True), (gd.name, True), ("other", False)):
                    part.evaluations += 1
                    f = GatewayScanFilter(name=name, tunnelling=flt[0], tunnelling_tcp=flt[1], routing=flt[2], secure_tunnelling=flt[3], secure_routing=flt[4])
                    got = f.match(gd)
                    want = name_ok and ref_match(flt, want_d)
                    if want:
                        part.nontrivial += 1
                    if bool(got) != want:
                        part.viol("filter-match-differs", f"filter {flt} name={name!r} on {want_d}: match={got}, statement says {want}", ["filter", gi, ext, list(flt), name], rank=(gi, flt))
    part.sample(["filter", 0, True])
    return part


def cases(thorough: bool) -> list[tuple[tuple[int, ...], tuple[bool, ...], str, bool]]:
    out = []
    n = len(gateways())
    for g in range(n):
        for flt in filters():
            for sc in SECURE_CONFIGS:
                out.append(((g,), flt, sc, False))
    # two gateways (the first one unreachable or not): a reduced gateway set, full filter set for the default and three other filters
    allg = gateways()
    red = [i for i, g in enumerate(allg) if g["order"] == 0 and g["mode"] in (("ext", "plain"), ("plain",)) and g["sec_family"] == bool(g["secured"])]
    if not thorough:
        red = red[::3]
    flts = [(True,) * 5, (True, True, True, False, False), (False, False, False, True, True), (False, True, False, True, False)]
    for a in red:
        for b in red:
            for flt in flts:
                for sc in ("none", "credentials"):
                    for fail in (False, True):
                        out.append(((a, b), flt, sc, fail))
    return out


def worker(k: int, n: int, thorough: bool) -> Part:
    import logging

    logging.disable(logging.CRITICAL)
    part = Part()
    allc = cases(thorough)
    for i in range(k, len(allc), n):
        gws, flt, sc, fail = allc[i]
        try:
            viols, outcome = run_case(gws, flt, sc, fail)
        except Exception as exc:  # noqa: BLE001
            viols, outcome = [(exc_sig("harness-or-escape", exc), repr(exc))], "error"
            raise
        part.evaluations += 1
        part.traces += 1
        part.outcomes[outcome] += 1
        if outcome.startswith("connected"):
            part.nontrivial += 1
        for s, d in viols:
            part.viol(s, d, [list(gws), list(flt), sc, fail], rank=(len(gws), gws, flt))
        if i < 2:
            part.sample([list(gws), list(flt), sc, fail])
    return part


def run(ctx: Ctx) -> None:
    ng = len(gateways())
    ctx.rule = (
        f"(a) the real KNXIPInterface.start() in automatic mode (only the five connection classes are replaced by recorders of connect(): the connection starters with their credential / keyring-slot selection, GatewayScanner, UDP transport, frame parsing, parse_dibs, "
        f"scan filter and _start_automatic are the real code) on the virtual loop against simulated gateways: ALL {ng} capability announcements (core 1/2 x tunnelling absent/v1/v2 x routing x security family x secured-families DIB "
        "absent/empty/tunnelling/routing/both x both DIB orders x answer mode plain/extended/both in either order) x ALL 32 scan-filter flag sets x 10 secure configurations (none, credentials, keyring listing "
        "the gateway, keyring listing another host, keyring + credentials, keyring + a tunnel address of this / another / no host, keyring whose first free slot / whose configured tunnel address is exported without credentials); pairs of gateways with the first unreachable or not. Oracle: no plain tunnel (UDP/TCP) to a gateway whose secured-families DIB lists "
        "tunnelling, no plain routing when every router lists routing as secured, nothing outside the keyring's hosts, nothing the filter excludes. (b) GatewayScanFilter.match = the statement's predicate on the "
        "descriptors parsed from all those announcements x 32 filters x name filter."
    )
    ctx.bounds = {"gateway_announcements": ng, "filters": 32, "secure_configs": len(SECURE_CONFIGS), "cases": len(cases(ctx.thorough))}
    ctx.pmap(w_filter, [()])
    ctx.pmap(worker, [(k, 128, ctx.thorough) for k in range(128)])
    if not any(o.startswith("connected:tunnelling") for o in ctx.total.outcomes) or not any(o == "connected:secure_tunnelling_tcp" for o in ctx.total.outcomes):
        raise RuntimeError("vacuous: no plain / no secure connection was ever opened")


def replay(case: Any) -> list[tuple[str, str]]:
    if case and case[0] == "filter":
        p = w_filter()
        return [(s, v[1]) for s, v in p.viols.items()]
    gws, flt, sc, fail = case
    return run_case(tuple(gws), tuple(flt), sc, fail)[0]
