"""C43 Point-to-point management connections follow the transport-layer protocol."""

from __future__ import annotations

import asyncio
import types
from typing import Any

from xknx import XKNX
from xknx.exceptions import ManagementConnectionError
from xknx.management import management as mgmt_mod
from xknx.telegram import IndividualAddress, tpci as T
from xknx.telegram.apci import DeviceDescriptorRead, DeviceDescriptorResponse, MemoryRead, Restart

from ..explore import Chooser, explore, finalize_states, replay_schedule
from ..ref.cemi import encode_ldata
from ..runner import Ctx
from ..vloop import World, texc

TITLE = "point-to-point transport layer"
OWN, DEV, OTHER = 0x1105, 0x1109, 0x110A
ACKS = ["ack", "ack-other-seq", "nak", "no-ack", "ack-twice", "ack+t-disconnect"]
RESPS = ["response", "response-other-type", "response-seq-1", "response-seq+1", "no-response", "response-twice", "t-disconnect", "response-from-other-address", "response-1s-later", "response-before-ack"]
MAX_REQUEST_S = 3 + 3 + 6 + 0.2


def frame(src: int, tpci_octet: int, apdu: bytes | None) -> bytes:
    return encode_ldata(0x29, priority=0, repeat_on_error=False, system_broadcast=False, ack=False, confirm_error=False, hop_count=6,
                        dst_is_group=False, src=src, dst=OWN, tpci_octet=tpci_octet, apdu=apdu)


def make(n_requests: int, mixed: bool = False, unacked_first: bool = False):
    """`mixed`: requests alternate between A_DeviceDescriptor_Read and A_Memory_Read, and the device's 'other type' answer to one
    is the right type for the other - a response rejected for its type must not be handed to a later request."""

    def scenario(ch: Chooser) -> list[tuple[str, str]]:
        viols: list[tuple[str, str]] = []
        saved_time = mgmt_mod.time
        with World() as w:
            loop = w.loop
            mgmt_mod.time = types.SimpleNamespace(time=loop.time)  # the rate limiter reads time.time()
            try:
                xknx = XKNX()
                xknx.current_address = IndividualAddress(OWN)
                sent: list[tuple[float, Any]] = []      # telegrams the client put on the bus
                events: list[Any] = []
                dev = {"seq": 0, "requests_seen": 0, "last_req_key": None}
                conn_box: list[Any] = []
                probe = {"on": False}

                def deliver(raw: bytes, label: str) -> None:
                    """One frame from the bus -> real receive path; per-transition reference for ACK / acceptance."""
                    conn = conn_box[0] if conn_box else None
                    src = int.from_bytes(raw[4:6], "big")
                    octet = raw[9]
                    is_data = (octet & 0xC0) == 0x40
                    seq = octet >> 2 & 0xF
                    pre_e = conn._expected_sequence_number if conn is not None else None  # noqa: SLF001
                    pre_done = conn._response_waiter.done() if conn is not None else None  # noqa: SLF001
                    open_ = conn is not None and src == DEV and IndividualAddress(DEV) in xknx.management._connections  # noqa: SLF001
                    n_sent = len(sent)
                    events.append((round(loop.time(), 3), "rx", label))
                    try:
                        xknx.cemi_handler.handle_raw_cemi(raw)
                    except Exception as exc:  # noqa: BLE001
                        viols.append((f"receive-path-raises:{type(exc).__name__}:{label.split('(')[0]}", f"{label}: {exc!r}; events={events}"))
                        return
                    if is_data:
                        # the client's T_ACK goes out from a background task: look at the bus a moment later.  Data frames with the
                        # same number arriving at the same instant (a response and its duplicate) cannot be told apart by their
                        # acknowledgements on the bus: they are judged together, at the check of the first one.
                        want_ack = bool(open_ and seq in (pre_e, (pre_e - 1) % 16))
                        gkey = (src, seq, round(loop.time(), 6))
                        first = gkey not in groups
                        g = groups.setdefault(gkey, {"want": 0, "n_sent": n_sent, "labels": []})
                        g["want"] += int(want_ack)
                        g["labels"].append(label)
                        loop.call_later(0.0004, post_check, label, src, seq, pre_e, pre_done, open_, gkey if first else None, conn, want_ack)

                groups: dict[Any, dict[str, Any]] = {}

                def post_check(label: str, src: int, seq: int, pre_e: Any, pre_done: Any, open_: bool, gkey: Any, conn: Any, want_ack: bool) -> None:
                    if True:
                        if gkey is not None:
                            g = groups[gkey]
                            acks = [t for _, t in sent[g["n_sent"]:] if isinstance(t.tpci, T.TAck) and t.destination_address == IndividualAddress(src) and t.tpci.sequence_number == seq]
                            if len(acks) != g["want"]:
                                why = "no-open-connection" if not open_ else "number-neither-expected-nor-preceding" if not want_ack else "missing-or-wrong-number"
                                viols.append((f"t-ack-wrong:{why}", f"{' + '.join(g['labels'])}: connection open={open_} expected={pre_e}: client sent {[a.tpci for a in acks]}, reference {g['want']} x T_ACK({seq}); events={events}"))
                        if open_:
                            accepted = conn._expected_sequence_number != pre_e  # noqa: SLF001
                            want_acc = seq == pre_e and not pre_done
                            if accepted != want_acc:
                                viols.append(("acceptance-wrong", f"{label}: expected={pre_e} waiter_done={pre_done}: accepted={accepted}, reference {want_acc}; events={events}"))

                class FakeInterface:
                    async def send_cemi(self, cemi: Any) -> None:
                        tg = cemi.data.telegram()
                        sent.append((loop.time(), tg))
                        loop.call_soon(xknx.cemi_handler._l_data_confirmation_event.set)  # noqa: SLF001  L_Data.con
                        if isinstance(tg.tpci, T.TDataConnected) and tg.destination_address == IndividualAddress(DEV):
                            self.device_reacts(tg)

                    def device_reacts(self, tg: Any) -> None:
                        cseq = tg.tpci.sequence_number
                        if isinstance(tg.payload, Restart):
                            # acknowledged, never answered
                            events.append((round(loop.time(), 3), f"tx data({cseq}) A_Restart", "ack", "no-response"))
                            loop.call_later(0.01, deliver, frame(DEV, 0xC2 | cseq << 2, None), f"T_ACK({cseq})")
                            return
                        a = 0 if probe["on"] else ch.choose("dev-ack", len(ACKS))
                        r = 0 if probe["on"] else ch.choose("dev-resp", len(RESPS))
                        events.append((round(loop.time(), 3), f"tx data({cseq})", ACKS[a], RESPS[r]))
                        ack_t, resp_t = 0.01, 0.01
                        if RESPS[r] == "response-before-ack":
                            resp_t = 0.005
                        if RESPS[r] == "response-1s-later":
                            resp_t = 1.0
                        # acknowledgement
                        if ACKS[a] in ("ack", "ack-twice", "ack+t-disconnect"):
                            loop.call_later(ack_t, deliver, frame(DEV, 0xC2 | cseq << 2, None), f"T_ACK({cseq})")
                            if ACKS[a] == "ack-twice":
                                loop.call_later(ack_t, deliver, frame(DEV, 0xC2 | cseq << 2, None), f"T_ACK({cseq}) again")
                            if ACKS[a] == "ack+t-disconnect":
                                loop.call_later(ack_t, deliver, frame(DEV, 0x81, None), "T_Disconnect")
                        elif ACKS[a] == "ack-other-seq":
                            loop.call_later(ack_t, deliver, frame(DEV, 0xC2 | ((cseq + 1) % 16) << 2, None), f"T_ACK({(cseq + 1) % 16})")
                        elif ACKS[a] == "nak":
                            loop.call_later(ack_t, deliver, frame(DEV, 0xC3 | cseq << 2, None), f"T_NAK({cseq})")
                        # response
                        dseq = dev["seq"]
                        good = bytes.fromhex("034007b0")      # A_DeviceDescriptor_Response type 0 value 07B0
                        other = bytes.fromhex("02410010ab")   # A_Memory_Response, 1 octet at 0x0010
                        if isinstance(tg.payload, MemoryRead):
                            good, other = other, good
                        opt = RESPS[r]
                        if opt in ("response", "response-1s-later", "response-before-ack", "response-twice"):
                            loop.call_later(resp_t, deliver, frame(DEV, 0x40 | dseq << 2, good), f"data({dseq}) response")
                            if opt == "response-twice":
                                loop.call_later(resp_t + 0.001, deliver, frame(DEV, 0x40 | dseq << 2, good), f"data({dseq}) response again")
                            dev["seq"] = (dseq + 1) % 16
                        elif opt == "response-other-type":
                            loop.call_later(resp_t, deliver, frame(DEV, 0x40 | dseq << 2, other), f"data({dseq}) other-type")
                            dev["seq"] = (dseq + 1) % 16
                        elif opt == "response-seq-1":
                            loop.call_later(resp_t, deliver, frame(DEV, 0x40 | ((dseq - 1) % 16) << 2, good), f"data({(dseq - 1) % 16}) stale-number")
                        elif opt == "response-seq+1":
                            loop.call_later(resp_t, deliver, frame(DEV, 0x40 | ((dseq + 1) % 16) << 2, good), f"data({(dseq + 1) % 16}) future-number")
                        elif opt == "t-disconnect":
                            loop.call_later(resp_t, deliver, frame(DEV, 0x81, None), "T_Disconnect")
                        elif opt == "response-from-other-address":
                            loop.call_later(resp_t, deliver, frame(OTHER, 0x40 | dseq << 2, good), f"data({dseq}) from-other-address")

                xknx.knxip_interface = FakeInterface()  # type: ignore[assignment]
                results: list[Any] = []
                returned: list[Any] = []

                async def user() -> None:
                    try:
                        conn = await xknx.management.connect(IndividualAddress(DEV))
                    except Exception as exc:  # noqa: BLE001
                        results.append(("connect", type(exc).__name__))
                        return
                    conn_box.append(conn)
                    if unacked_first:
                        # a command sent without waiting for its T_ACK (as dm_restart does with A_Restart) is numbered like any other
                        try:
                            await conn.send_data(Restart(), wait_for_ack=False)
                        except ManagementConnectionError as exc:
                            results.append(("send-unacked", type(exc).__name__))
                    for i in range(n_requests):
                        t0 = loop.time()
                        try:
                            if mixed and i % 2:
                                resp = await conn.request(MemoryRead(address=0x10, count=1))
                            else:
                                resp = await conn.request(DeviceDescriptorRead(descriptor=0))
                            results.append((i, "ok", resp.tpci.sequence_number, type(resp.payload).__name__, t0, loop.time()))
                            returned.append(resp)
                        except ManagementConnectionError as exc:
                            results.append((i, type(exc).__name__, str(exc)[:40], None, t0, loop.time()))
                        except BaseException as exc:  # noqa: BLE001  (a CancelledError leaking out of request() is an undeclared exception too)
                            results.append((i, "OTHER:" + type(exc).__name__, repr(exc)[:80], None, t0, loop.time()))
                    try:
                        await xknx.management.disconnect(IndividualAddress(DEV))
                        results.append(("disconnect", "ok"))
                    except ManagementConnectionError as exc:
                        results.append(("disconnect", type(exc).__name__))

                async def user_then_probe() -> None:
                    await user()
                    # what the session leaves behind in Management: a second session on the same XKNX object to the same device,
                    # which now behaves (no choice points), is judged by the same rules
                    await asyncio.sleep(5)
                    probe["on"] = True
                    dev["seq"] = 0
                    try:
                        conn2 = await xknx.management.connect(IndividualAddress(DEV))
                    except ManagementConnectionError as exc:
                        results.append(("probe-connect", type(exc).__name__))
                        return
                    conn_box[:] = [conn2]
                    t0 = loop.time()
                    try:
                        resp = await conn2.request(DeviceDescriptorRead(descriptor=0))
                        results.append(("probe", "ok", resp.tpci.sequence_number, type(resp.payload).__name__, t0, loop.time()))
                    except ManagementConnectionError as exc:
                        results.append(("probe", type(exc).__name__, str(exc)[:40], None, t0, loop.time()))
                    except BaseException as exc:  # noqa: BLE001
                        results.append(("probe", "OTHER:" + type(exc).__name__, repr(exc)[:80], None, t0, loop.time()))
                    try:
                        await xknx.management.disconnect(IndividualAddress(DEV))
                    except ManagementConnectionError as exc:
                        results.append(("probe-disconnect", type(exc).__name__))

                u = w.spawn(user_then_probe(), name="harness-user")
                loop.run_until(15 * n_requests + 60)
                if not u.done():
                    viols.append(("request-never-returns", f"results={results}; events={events}"))
                elif u.cancelled() or texc(u) is not None:
                    viols.append((f"user-call-raises:{type(texc(u)).__name__}", f"{texc(u)!r}; results={results}; events={events}"))
                # ---- oracle on what the user saw
                consumed = 0
                for res in results:
                    if not isinstance(res[0], int):
                        continue
                    i, kind, a, b, t0, t1 = res
                    if t1 - t0 > MAX_REQUEST_S:
                        viols.append(("request-exceeds-time-bound", f"request #{i} took {t1 - t0:.2f}s (> {MAX_REQUEST_S}); results={results}; events={events}"))
                    if kind == "ok":
                        if b != ("MemoryResponse" if mixed and i % 2 else "DeviceDescriptorResponse"):
                            viols.append(("wrong-response-type-returned", f"request #{i} returned {b}; events={events}"))
                        if a != consumed % 16:
                            viols.append(("response-with-wrong-sequence-number", f"request #{i} returned a response numbered {a}, reference {consumed % 16}; results={results}; events={events}"))
                        consumed += 1
                    elif kind.startswith("OTHER:"):
                        viols.append((f"request-raises-undeclared:{kind[6:]}", f"request #{i}: {a}; events={events}"))
                    elif "unexpected telegram" in str(a):
                        consumed += 1
                for res in results:
                    if res[0] == "probe":
                        _p, kind, a, b, t0, t1 = res
                        if kind == "ok" and (b != "DeviceDescriptorResponse" or a != 0):
                            viols.append(("second-session:wrong-response-returned", f"the request of a second, undisturbed session returned {b} numbered {a}; results={results}; events={events}"))
                        elif kind.startswith("OTHER:"):
                            viols.append((f"second-session:request-raises-undeclared:{kind[6:]}", f"{a}; results={results}; events={events}"))
                        elif t1 - t0 > MAX_REQUEST_S:
                            viols.append(("second-session:request-exceeds-time-bound", f"{t1 - t0:.2f}s; events={events}"))
                if len({id(r) for r in returned}) != len(returned):
                    viols.append(("response-used-twice", f"results={results}; events={events}"))
                # ---- outgoing numbering: new data frames count up mod 16, a repetition reuses its number
                data = [(t, tg) for t, tg in sent if isinstance(tg.tpci, T.TDataConnected | T.TConnect)]
                expect = 0
                prev = None
                for t, tg in data:
                    if isinstance(tg.tpci, T.TConnect):
                        expect, prev = 0, None   # numbering is per connection
                        continue
                    n = tg.tpci.sequence_number
                    if prev is not None and n == prev[0] and t - prev[1] >= 2.99:
                        pass  # repetition after the ACK timeout
                    else:
                        if n != expect:
                            viols.append(("outgoing-number-wrong", f"data frame at t={t} numbered {n}, reference {expect}; events={events}"))
                        expect = (n + 1) % 16
                    prev = (n, t)
                for name, exc in loop.task_failures():
                    viols.append((f"task-exception:{type(exc).__name__}", f"{name}: {exc!r}; events={events}"))
                for c in loop.exceptions:
                    if c.get("message") == "Future exception was never retrieved" and isinstance(c.get("exception"), ManagementConnectionError):
                        continue   # reported when the garbage collector finds the future (timing outside the explorer's control); a declared error nobody waited for
                    viols.append((f"loop-exception:{type(c.get('exception')).__name__}", repr(c)[:200] + f"; events={events}"))
                ch.notes.append(",".join(str(r[1]) for r in results))
                ch.state(tuple((r[0], r[1]) for r in results))
            finally:
                mgmt_mod.time = saved_time
        seen: set[str] = set()
        out = []
        for s, d in viols:
            if s not in seen:
                seen.add(s)
                out.append((s, d))
        return out

    return scenario


SCENARIOS = {"p2p": make}


def run(ctx: Ctx) -> None:
    bound = 5 if ctx.thorough else 3
    ctx.rule = (
        f"real Management + P2PConnection over a fake cEMI layer (L_Data.con immediate): connect, 1-3 requests (A_DeviceDescriptor_Read; also alternating with A_Memory_Read so that an answer of the wrong type for one request has the right type for the next; also preceded by an A_Restart sent with wait_for_ack=False), disconnect; for every numbered data frame the simulated device "
        f"chooses an acknowledgement from {ACKS} and a reaction from {RESPS} (frames delivered through the real handle_raw_cemi, ack and response in the same loop iteration by default); EVERY schedule "
        f"with <= {bound} deviations, plus a 17-request default run (number wrap). Per received frame: T_ACK sent iff open connection and expected/preceding number, acceptance iff expected number and "
        "no unconsumed response; per request: expected type, consecutive response numbers, each response once, ManagementConnectionError within 3+3+6 s; outgoing numbers +1 mod 16, repetition reuses its number"
    )
    ctx.bounds = {"deviation_bound": bound}
    ctx.assumptions = ["the canonical receive state is P2PConnection._expected_sequence_number and whether the response future is done (read before every delivered frame)"]
    for n in (1, 2, 3):
        explore(ctx, __name__, "p2p", (n,), bound=bound)
    explore(ctx, __name__, "p2p", (2, True), bound=bound)
    explore(ctx, __name__, "p2p", (3, True), bound=min(bound, 3))
    explore(ctx, __name__, "p2p", (2, False, True), bound=min(bound, 2))   # an A_Restart sent without waiting for its acknowledgement comes first
    explore(ctx, __name__, "p2p", (17,), bound=0)
    finalize_states(ctx)


def replay(case: Any) -> list[tuple[str, str]]:
    return replay_schedule(__name__, case)
