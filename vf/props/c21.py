"""C21 KNX/IP bodies round-trip exactly."""

from __future__ import annotations

from typing import Any

from xknx.knxip import KNXIPFrame

from ..knxipspace import bodies, concrete_body_classes
from ..runner import Ctx, Part, exc_sig

TITLE = "KNX/IP bodies round-trip"


def body_eq(a: Any, b: Any) -> bool:
    if type(a) is not type(b):
        return False
    try:
        if a == b:
            return True
    except Exception:  # noqa: BLE001
        pass
    return repr(a) == repr(b) and a.to_knx() == b.to_knx()


def changed_fields(a: Any, b: Any) -> str:
    """Names of the attributes that differ (part of the signature, so that one known defect does not hide another)."""
    names = []
    da, db = getattr(a, "__dict__", None), getattr(b, "__dict__", None)
    if da is None or db is None:
        return "?"
    for k in sorted(set(da) | set(db)):
        va, vb = da.get(k), db.get(k)
        try:
            same = va == vb or repr(va) == repr(vb)
        except Exception:  # noqa: BLE001
            same = repr(va) == repr(vb)
        if not same:
            if isinstance(va, (bytes, bytearray)) and isinstance(vb, (bytes, bytearray)) and len(vb) == len(va) + 1 and vb[: len(va)] == va and vb[-1] == 0:
                names.append(f"{k}(zero-padded)")
            else:
                names.append(k)
    return "+".join(names) or "?"


def check_one(body: Any) -> tuple[str, list[tuple[str, str]]]:
    name = type(body).__name__
    try:
        frame = KNXIPFrame.init_from_body(body)
        raw = frame.to_knx()
    except Exception as exc:  # noqa: BLE001
        return "unserialisable", [(exc_sig(f"serialise-failed:{name}", exc), f"{body!r}: {exc!r}")]
    viols = []
    total = int.from_bytes(raw[4:6], "big")
    if total != len(raw):
        viols.append((f"header-length-wrong:{name}", f"header announces {total}, frame has {len(raw)} octets: {raw.hex()}"))
    if 6 + body.calculated_length() != len(raw):
        viols.append((f"calculated-length-wrong:{name}", f"calculated_length()={body.calculated_length()} but body serialises to {len(raw) - 6} octets: {raw.hex()}"))
    try:
        back, rest = KNXIPFrame.from_knx(raw)
    except Exception as exc:  # noqa: BLE001
        viols.append((exc_sig(f"own-frame-rejected:{name}", exc), f"{raw.hex()}: {exc!r}"))
        return "rejected", viols
    if rest:
        viols.append((f"rest-not-empty:{name}", f"{raw.hex()} leaves {rest.hex()}"))
    if not body_eq(back.body, body):
        viols.append((f"body-changed:{name}:{changed_fields(body, back.body)}", f"{body!r} -> {raw.hex()} -> {back.body!r}"))
    elif back.to_knx() != raw:
        viols.append((f"reserialisation-differs:{name}", f"{raw.hex()} -> {back.to_knx().hex()}"))
    return "ok" if not viols else "bad", viols


def worker(k: int, n: int, thorough: bool) -> Part:
    part = Part()
    seen: set[bytes] = set()
    kept: list[tuple[Any, Any, bytes]] = []   # (original, parsed, frame) of bodies parsed earlier: looked at again after everything else was parsed
    for i, body in enumerate(bodies(thorough)):
        if i % n != k:
            continue
        part.evaluations += 1
        outcome, viols = check_one(body)
        if outcome == "ok" and (len(kept) < 400 or i % 7 == 0):
            try:
                raw0 = KNXIPFrame.init_from_body(body).to_knx()
                kept.append((body, KNXIPFrame.from_knx(raw0)[0], raw0))
            except Exception:  # noqa: BLE001
                pass
        part.outcomes[outcome] += 1
        name = type(body).__name__
        part.extra.setdefault("classes", [])
        if name not in part.extra["classes"]:
            part.extra["classes"].append(name)
            part.sample([name, repr(body)[:200]])
        try:
            raw = KNXIPFrame.init_from_body(body).to_knx()
            if raw not in seen:
                seen.add(raw)
                part.nontrivial += 1
        except Exception:  # noqa: BLE001
            pass
        for sig, detail in viols:
            part.viol(sig, detail, [name, repr(body)[:400]], rank=(len(repr(body)),))
    # a parsed body is a value of its own: parsing other frames afterwards must not change it (e.g. two gateways answering one search)
    for body, frame, raw0 in kept:
        part.evaluations += 1
        name = type(body).__name__
        try:
            still = body_eq(frame.body, body) and frame.to_knx() == raw0
        except Exception as exc:  # noqa: BLE001
            part.viol(exc_sig(f"parsed-body-unusable-later:{name}", exc), f"{raw0.hex()}: {exc!r}", [name, repr(body)[:400]])
            continue
        if not still:
            part.viol(f"parsed-body-changed-by-later-parsing:{name}:{changed_fields(body, frame.body)}", f"{raw0.hex()} parsed to an equal body, which reads {frame.body!r} after other frames were parsed", [name, repr(body)[:400]])
    return part


def run(ctx: Ctx) -> None:
    ctx.rule = (
        "instances of all 29 concrete KNXIPBody classes over constructor alphabets (4 HPAIs, every CRI/CRD variant, DIB lists of length 0..2 over 9 DIBs "
        "in every order, SRP lists 0..2, every ErrorCode/ReturnCode/feature type/status code, cEMI lengths 0/1/11/255): header length = serialised length = "
        "6+calculated_length(); parse gives an equal body, no rest, identical re-serialisation; parsed bodies are looked at again after all other frames were parsed (no aliasing between parsed values). non-trivial = distinct serialised frames"
    )
    n = 16
    ctx.pmap(worker, [(k, n, ctx.thorough) for k in range(n)])
    classes = set(ctx.total.extra.get("classes", []))
    want = {c.__name__ for c in concrete_body_classes()}
    if classes != want:
        ctx.total.viol("harness:class-coverage", f"body classes not generated: {sorted(want - classes)}; unknown: {sorted(classes - want)}", None)
    ctx.bounds = {"body_classes": len(want)}


def replay(case: Any) -> list[tuple[str, str]]:
    out: list[tuple[str, str]] = []
    for body in bodies(True):
        if type(body).__name__ == case[0] and repr(body)[:400] == case[1]:
            out += check_one(body)[1]
    return out
