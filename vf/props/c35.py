"""C35 State updater reads exactly when its tracking policy says."""

from __future__ import annotations

import asyncio
import itertools
from typing import Any

from xknx.devices import Sensor
from xknx.dpt import DPTArray, DPTBinary
from xknx.telegram import GroupAddress, IndividualAddress, Telegram, TelegramDirection
from xknx.telegram.apci import GroupValueRead, GroupValueResponse, GroupValueWrite

from ..runner import Ctx, Part, exc_sig
from ..sim.core import CoreWorld

TITLE = "state updater"
RVS = [("A", "1/0/1", "init"), ("B", "1/0/2", "expire 1"), ("C", "1/0/3", "every 1")]
INTERVAL = 60.0
READ_TIMEOUT = 2.0
SLACK = 4.5  # three values share two read slots; a read lasts at most READ_TIMEOUT
EVENTS = ["CONNECT", "DISCONNECT", "tg:A", "tg:B", "tg:C", "answer-all", "unreg:B", "reg:B", "hold-send", "release", "+0.5", "+2", "+30", "+58", "+60", "RESTART"]
HORIZON = 135.0


STATES: set[Any] = set()


def parse_policy(opt: Any, base: tuple[str, float]) -> tuple[str, float]:
    """Tracker (kind, interval in seconds) a policy denotes; `base` supplies what the policy leaves open.
    Written from the documentation of sync_state / state_updater: True = the default policy, a number = minutes with the default
    kind, 'init' | 'expire [m]' | 'every [m]'."""
    kind, interval = base
    if isinstance(opt, bool):
        return base
    if isinstance(opt, int | float):
        return kind, max(1.0, float(opt)) * 60.0
    words = str(opt).split()
    kind = {"INIT": "init", "EXPIRE": "expire", "EVERY": "every"}[words[0].upper()]
    if len(words) > 1:
        interval = max(1.0, float(words[1])) * 60.0
    return kind, interval


def effective(default: Any, sync: Any) -> tuple[str, float]:
    """What a value with `sync_state=sync` does under XKNX(state_updater=default); ('none', 0) = not registered."""
    dflt = parse_policy(default, ("expire", 3600.0))
    if sync is None:
        sync = bool(default)
    if sync is False:
        return "none", 0.0
    return parse_policy(sync, dflt)


# (XKNX-wide default policy, per value sync_state).  Configuration 0 is the original one (explicit string policies, library default).
CONFIGS: list[tuple[Any, tuple[Any, Any, Any]]] = [
    (False, ("init", "expire 1", "every 1")),
    ("every 2", (None, False, 1)),
    ("init", (True, 1, "expire 1")),
    (True, (None, False, "every 1")),
    (False, (None, True, 1)),
    (1, (None, "every", "init")),
    ("expire 1", (2, False, "every")),
]
CFG = [0]


def cur_rvs() -> list[tuple[str, str, Any, str, float]]:
    default, syncs = CONFIGS[CFG[0]]
    return [(name, ga, sync, *effective(default, sync)) for (name, ga, _s), sync in zip(RVS, syncs)]


def run_case(seq: tuple[int, ...], cfg: int = 0) -> list[tuple[str, str]]:
    viols: list[tuple[str, str]] = []
    CFG[0] = cfg
    default = CONFIGS[cfg][0]
    with CoreWorld(t0=1000.0, rate_limit=0, state_updater=default) as w:
        xknx = w.xknx
        loop = w.loop
        devs = {}
        for name, ga, sync, _k, _i in cur_rvs():
            devs[name] = Sensor(xknx, name, group_address_state=ga, value_type="temperature", sync_state=sync)
            xknx.devices.async_add(devs[name])
        # log: (seqno, time, kind, name)
        log: list[tuple[float, str, str]] = []
        ga_name = {GroupAddress(ga): name for name, ga, _s in RVS}
        orig_put = xknx.telegrams.put_nowait

        def put(t: Any) -> None:
            if t is not None and isinstance(t.payload, GroupValueRead) and t.destination_address in ga_name:
                log.append((loop.time(), "read", ga_name[t.destination_address]))
            orig_put(t)

        xknx.telegrams.put_nowait = put  # type: ignore[method-assign]
        holds: list[asyncio.Future[None]] = []
        hold_enabled = [True]
        iface = w.iface
        orig_send = iface.send_cemi

        async def send_cemi(cemi: Any) -> None:
            tg = cemi.data.telegram()
            if tg.destination_address == GroupAddress("9/7/9") and hold_enabled[0]:
                fut: asyncio.Future[None] = loop.create_future()
                holds.append(fut)
                await fut
            await orig_send(cemi)

        iface.send_cemi = send_cemi  # type: ignore[method-assign]
        w.start(connected=False)
        trace: list[str] = []
        used_hold = False
        registered_b = True
        connected = False

        def incoming(name: str, response: bool) -> None:
            ga = next(g for n, g, _s in RVS if n == name)
            payload: Any = GroupValueResponse(DPTArray((0x0C, 0x1A))) if response else GroupValueWrite(DPTArray((0x0C, 0x1A)))
            tg = Telegram(GroupAddress(ga), payload=payload, source_address=IndividualAddress("1.1.9"), direction=TelegramDirection.INCOMING)
            log.append((loop.time(), "update", name))
            xknx.telegrams.put_nowait(tg)

        def outstanding() -> list[str]:
            """Values with a read issued and no later update / timeout yet."""
            out = []
            for name, _g, _s in RVS:
                last_read = max((i for i, e in enumerate(log) if e[1] == "read" and e[2] == name), default=None)
                if last_read is None:
                    continue
                if any(e[1] == "update" and e[2] == name for e in log[last_read + 1 :]):
                    continue
                if loop.time() - log[last_read][0] >= READ_TIMEOUT:
                    continue
                out.append(name)
            return out

        for ei in seq:
            ev = EVENTS[ei]
            trace.append(ev)
            try:
                if ev == "CONNECT":
                    if not connected:
                        log.append((loop.time(), "connect", ""))
                    connected = True
                    w.connect()
                elif ev == "DISCONNECT":
                    if connected:
                        log.append((loop.time(), "disconnect", ""))
                    connected = False
                    w.disconnect()
                elif ev.startswith("tg:"):
                    incoming(ev[3:], False)
                elif ev == "answer-all":
                    for name in outstanding():
                        incoming(name, True)
                elif ev == "unreg:B":
                    if registered_b:
                        xknx.devices.async_remove(devs["B"])
                        log.append((loop.time(), "unreg", "B"))
                        registered_b = False
                elif ev == "reg:B":
                    if not registered_b:
                        xknx.devices.async_add(devs["B"])
                        log.append((loop.time(), "reg", "B"))
                        registered_b = True
                elif ev == "hold-send":
                    used_hold = True
                    xknx.telegrams.put_nowait(Telegram(GroupAddress("9/7/9"), payload=GroupValueWrite(DPTBinary(1)), direction=TelegramDirection.OUTGOING))
                elif ev == "release":
                    for f in holds:
                        if not f.done():
                            f.set_result(None)
                elif ev == "RESTART":
                    # XKNX.stop() followed by XKNX.start() on the same object: the interface goes down first (a real one reports
                    # DISCONNECTED when it is stopped); for the reference this is a disconnection - what comes back after the
                    # next CONNECT must be what a fresh start gives
                    hold_enabled[0] = False   # stop() joins the queue: held telegrams (and any still queued behind them) go out
                    for f in holds:
                        if not f.done():
                            f.set_result(None)
                    if connected:
                        log.append((loop.time(), "disconnect", ""))
                    connected = False
                    w.disconnect()

                    async def restart() -> None:
                        await xknx.stop()
                        await xknx.start()

                    rt = w.spawn(restart(), name="harness-restart")
                    loop.settle()
                    if not rt.done():
                        w.run(0.001)
                    if not rt.done():
                        viols.append(("restart-never-returns", f"stop()+start() still pending; trace={trace}"))
                        break
                    hold_enabled[0] = True
                else:
                    w.run(float(ev))
            except Exception as exc:  # noqa: BLE001
                viols.append((exc_sig(f"call-raises:{ev.split(':')[0]}", exc), f"{exc!r}; trace={trace}"))
                break
            loop.settle()
            STATES.add((connected, registered_b, len([f for f in holds if not f.done()]), tuple(outstanding()), tuple(repr(devs[n].resolve_state()) for n in devs), loop.timer_profile()))
        for f in holds:
            if not f.done():
                f.set_result(None)
        loop.settle()
        w.run(max([HORIZON] + [2 * i + 15 for _n, _g, _s, _k, i in cur_rvs() if i < 1000]))
        end = loop.time()
        viols += check_log(log, end, used_hold, trace)
        for name, exc in w.task_escapes():
            viols.append((exc_sig("task-exception", exc), f"{name}: {exc!r}; trace={trace}"))
    seen: set[str] = set()
    return [(s, d) for s, d in viols if not (s in seen or seen.add(s))]


def check_log(log: list[tuple[float, str, str]], end: float, used_hold: bool, trace: list[str]) -> list[tuple[str, str]]:
    """The reference timer model, as a checker over the complete event/read log (entries are in causal order)."""
    viols: list[tuple[str, str]] = []
    ctx = f"config(state_updater={CONFIGS[CFG[0]][0]!r}, sync_state={list(CONFIGS[CFG[0]][1])}) trace={trace} log={[(round(t - 1000, 3), k, n) for t, k, n in log]}"
    progress: list[tuple[float, float, str]] = []
    for name, _ga, _sync, kind, INTERVAL in cur_rvs():  # noqa: N806
        # maximal periods [s, e) (as log indices and times) in which the value is registered and the connection is up
        periods: list[tuple[int, float, int, float]] = []
        conn, reg = False, kind != "none"
        start: tuple[int, float] | None = None
        for i, (t, k, n) in enumerate(log):
            was = conn and reg
            if k == "connect":
                conn = True
            elif k == "disconnect":
                conn = False
            elif k == "unreg" and n == name:
                reg = False
            elif k == "reg" and n == name:
                reg = kind != "none"
            now = conn and reg
            if now and not was:
                start = (i, t)
            elif was and not now and start is not None:
                periods.append((start[0], start[1], i, t))
                start = None
        if start is not None:
            periods.append((start[0], start[1], len(log), end))
        in_period = set()
        for si, s, ei, e in periods:
            reads = [(i, log[i][0]) for i in range(si, ei) if log[i][1] == "read" and log[i][2] == name]
            updates = [(i, log[i][0]) for i in range(si, ei) if log[i][1] == "update" and log[i][2] == name]
            in_period.update(i for i, _t in reads)
            # completion of every read: first later update, the 2 s timeout, or the end of the period (tracker stopped)
            comp = []
            for i, r in reads:
                c = min([t for j, t in updates if j > i] + [r + READ_TIMEOUT, e])
                comp.append(c)
                progress.append((r, c, name))
            live = not used_hold
            if kind == "init":
                if len(reads) > 1:
                    viols.append(("init-tracker-read-again", f"{name}: reads at {[round(r - 1000, 3) for _i, r in reads]} in one connection period; {ctx}"))
                if live and not reads and e - s > SLACK:
                    viols.append(("no-initial-read", f"{name} ({kind}): nothing read within {SLACK}s of the (re)connection at t+{s - 1000}; {ctx}"))
            elif kind == "every":
                if live and not reads and e - s > SLACK:
                    viols.append(("no-initial-read", f"{name} ({kind}): nothing read within {SLACK}s of the (re)connection at t+{s - 1000}; {ctx}"))
                for k in range(len(reads)):
                    if k + 1 < len(reads):
                        if reads[k + 1][1] < comp[k] + INTERVAL - 1e-9:
                            viols.append(("every-tracker-read-too-early", f"{name}: read at t+{reads[k + 1][1] - 1000} but the previous read finished at t+{comp[k] - 1000}; {ctx}"))
                        elif live and reads[k + 1][1] > comp[k] + INTERVAL + SLACK:
                            viols.append(("every-tracker-read-too-late", f"{name}: read at t+{reads[k + 1][1] - 1000}, previous finished at t+{comp[k] - 1000}; {ctx}"))
                    elif live and e > comp[k] + INTERVAL + SLACK:
                        viols.append(("every-tracker-stopped-reading", f"{name}: no read after the one finished at t+{comp[k] - 1000} although connected until t+{e - 1000}; {ctx}"))
            else:  # expire
                early_update = any(t <= s + SLACK for _j, t in updates)
                if live and not reads and not early_update and e - s > SLACK:
                    viols.append(("no-initial-read", f"{name} ({kind}): nothing read within {SLACK}s of the (re)connection at t+{s - 1000}; {ctx}"))
                for k in range(1, len(reads)):
                    i, r = reads[k]
                    base = max([comp[k - 1]] + [t for j, t in updates if j < i])
                    if r < base + INTERVAL - 1e-9:
                        viols.append(("expire-tracker-read-before-expiry", f"{name}: read at t+{r - 1000}, but the state was last updated / read at t+{base - 1000}; {ctx}"))
                # after the last activity a full quiet interval must end in a read
                acts = [c for c in comp] + [t for _j, t in updates]
                if live and acts and (reads or early_update):
                    base = max(acts)
                    later_read = any(r > base - 1e-9 and r >= base + INTERVAL - 1e-9 for _i, r in reads)
                    if e > base + INTERVAL + SLACK and not later_read:
                        viols.append(("expire-tracker-stopped-reading", f"{name}: state last updated / read at t+{base - 1000}, connected until t+{e - 1000}, no read after the interval; {ctx}"))
        for i, (t, k, n) in enumerate(log):
            if k == "read" and n == name and i not in in_period:
                viols.append(("read-while-disconnected-or-unregistered", f"{name}: GroupValueRead at t+{t - 1000}; {ctx}"))
    # at most two reads in progress at once
    points = sorted({r for r, _c, _n in progress})
    for p in points:
        n = sum(1 for r, c, _n in progress if r <= p < c)
        if n > 2:
            viols.append(("more-than-two-reads-in-progress", f"{n} reads in progress at t+{p - 1000}: {[(round(r - 1000, 3), round(c - 1000, 3), nm) for r, c, nm in progress]}; {ctx}"))
            break
    return viols


def sequences(depth: int) -> list[tuple[int, ...]]:
    """CONNECT (nothing is ever read before the first connection) followed by every sequence of <= depth events."""
    out: list[tuple[int, ...]] = [(0,)]
    for n in range(1, depth + 1):
        for seq in itertools.product(range(len(EVENTS)), repeat=n):
            names = [EVENTS[e] for e in seq]
            if "release" in names and "hold-send" not in names[: names.index("release")]:
                continue
            if names[0] in ("CONNECT", "reg:B"):
                continue
            out.append((0, *seq))
    return out


def worker(k: int, n: int, depth: int) -> Part:
    import logging

    logging.disable(logging.CRITICAL)
    part = Part()
    seqs = sequences(depth)
    for i in range(k, len(seqs), n):
        seq = seqs[i]
        viols = run_case(seq)
        part.evaluations += 1
        part.traces += 1
        part.transitions += len(seq)
        if len(seq) > 1:
            part.nontrivial += 1
        part.outcomes["violating" if viols else "ok"] += 1
        for s, d in viols:
            part.viol(s, d, list(seq), rank=(len(seq), 0, seq))
        if part.evaluations <= 2:
            part.sample([EVENTS[e] for e in seq])
    # the other configurations of the XKNX-wide default policy x per-value sync_state forms, one level shallower
    short = sequences(depth - 1)
    j = 0
    for cfg in range(1, len(CONFIGS)):
        for seq in short:
            j += 1
            if j % n != k:
                continue
            viols = run_case(seq, cfg)
            part.evaluations += 1
            part.traces += 1
            part.transitions += len(seq)
            part.nontrivial += 1
            part.outcomes["violating" if viols else "ok"] += 1
            for s, d in viols:
                part.viol(s, d, {"cfg": cfg, "seq": list(seq)}, rank=(len(seq), cfg, seq))
    CFG[0] = 0
    for k_ in STATES:
        part.state(k_)
    STATES.clear()
    return part


def run(ctx: Ctx) -> None:
    depth = 5 if ctx.thorough else 4
    ctx.rule = (
        f"real XKNX/StateUpdater/ValueReader with three Sensor devices (trackers {[r[2] for r in RVS]}) on the virtual loop: CONNECT followed by ALL event sequences of length <= {depth} over {EVENTS} (connection changes, state "
        f"telegrams per value, bus answers to the outstanding reads, unregister/register of the 'expire' value, an outgoing telegram held in the interface and released, time), then {HORIZON} s of timers. Every "
        "GroupValueRead is logged when it is queued. Reference timer model as a checker over the complete log: no read while disconnected or unregistered; init never again; every: next read one interval after "
        "the previous read finished (not earlier, and not later than the slot wait allows); expire: only after a full interval without update or read, and then it does read; one initial read per (re)connection; "
        "at most two reads in progress (a read ends with its answer, its 2 s timeout, or when its tracker is stopped). "
        f"The same sequences one level shallower under {len(CONFIGS) - 1} other configurations of the XKNX-wide policy (state_updater = 'every 2', 'init', True, False, 1, 'expire 1') x per-value sync_state forms "
        "(None, False, True, a number, a policy without interval), the effective tracker of each value computed by the harness from the documented meaning of the options."
    )
    ctx.assumptions = ["liveness clauses (a read must happen by ...) are evaluated only in histories without a held outgoing telegram", "reading fixed: a read whose tracker was stopped (disconnect/unregister) no longer counts as in progress"]
    ctx.bounds = {"depth": depth, "sequences": len(sequences(depth)), "horizon_s": HORIZON}
    ctx.pmap(worker, [(k, 128, depth) for k in range(128)])


def replay(case: Any) -> list[tuple[str, str]]:
    if isinstance(case, dict):
        return run_case(tuple(case["seq"]), case["cfg"])
    return run_case(tuple(case))
