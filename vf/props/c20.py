"""C20 KNX/IP frame parsing terminates and fails only with declared errors."""

from __future__ import annotations

import signal
from typing import Any, Iterator

from xknx.exceptions import CouldNotParseKNXIP, IncompleteKNXIPFrame
from xknx.knxip import KNXIPFrame
from xknx.knxip.knxip_enum import KNXIPServiceType

from ..knxipspace import valid_frames
from ..runner import Ctx, Part, exc_sig, seed_bytes

TITLE = "KNX/IP parsing"
SUBST = [0x00, 0x01, 0x02, 0x03, 0x04, 0x06, 0x08, 0x36, 0x7F, 0x80, 0xFE, 0xFF]
CASE_BUDGET_S = 0.5


class _Timeout(Exception):
    pass


def _alarm(signum: int, frame: Any) -> None:
    raise _Timeout()


def check_one(data: bytes) -> tuple[str, list[tuple[str, str]]]:
    """Oracle for one byte string (no time budget here; the caller arms the timer)."""
    try:
        frame, rest = KNXIPFrame.from_knx(data)
    except IncompleteKNXIPFrame:
        if len(data) >= 6 and len(data) >= int.from_bytes(data[4:6], "big"):
            return "incomplete-wrong", [("incomplete-but-announced-length-present", f"IncompleteKNXIPFrame for {len(data)} octets announcing {int.from_bytes(data[4:6], 'big')}: {data.hex()}")]
        return "incomplete", []
    except CouldNotParseKNXIP:
        return "parse-error", []
    except _Timeout:
        raise
    except Exception as exc:  # noqa: BLE001
        return "escape", [(exc_sig("escape", exc), f"KNXIPFrame.from_knx({data.hex()}) raised {exc!r}")]
    total = int.from_bytes(data[4:6], "big")
    if rest != data[total:] or total > len(data) or total < 6:
        return "wrong-consumption", [("consumed-not-announced-length", f"{data.hex()}: announced {total}, rest has {len(rest)} of {len(data)} octets")]
    return "frame", []


def run_cases(cases: Iterator[bytes], part: Part, budget: bool) -> None:
    signal.signal(signal.SIGALRM, _alarm)
    for data in cases:
        part.evaluations += 1
        try:
            if budget:
                signal.setitimer(signal.ITIMER_REAL, CASE_BUDGET_S)
            try:
                outcome, viols = check_one(data)
            finally:
                if budget:
                    signal.setitimer(signal.ITIMER_REAL, 0)
        except _Timeout:
            outcome, viols = "timeout", [(f"no-termination-within-budget:service-{data[2:4].hex()}", f"KNXIPFrame.from_knx did not return within {CASE_BUDGET_S}s for {len(data)} octets: {data.hex()}")]
        part.outcomes[outcome] += 1
        if outcome not in ("parse-error", "incomplete"):
            part.nontrivial += 1
        elif len(data) > 6:
            part.extra["rejected_after_header"] = part.extra.get("rejected_after_header", 0) + 1
        for sig, detail in viols:
            part.viol(sig, detail, data, rank=(len(data), data))


def service_codes() -> list[int]:
    return [m.value for m in KNXIPServiceType] + [0x0000, 0x0A01]


def header(code: int, total: int, hl: int = 6, ver: int = 0x10) -> bytes:
    return bytes((hl, ver)) + code.to_bytes(2, "big") + (total & 0xFFFF).to_bytes(2, "big")


def w_short(code: int) -> Part:
    """Every header for `code` followed by every body of <= 2 octets (true total length), batch alarm."""
    part = Part()

    def gen() -> Iterator[bytes]:
        yield header(code, 6)
        for a in range(256):
            yield header(code, 7) + bytes((a,))
        for a in range(256):
            for b in range(256):
                yield header(code, 8) + bytes((a, b))

    signal.signal(signal.SIGALRM, _alarm)
    signal.setitimer(signal.ITIMER_REAL, 120)
    cur = b""
    try:
        for cur in gen():
            part.evaluations += 1
            outcome, viols = check_one(cur)
            part.outcomes[outcome] += 1
            if outcome not in ("parse-error", "incomplete"):
                part.nontrivial += 1
            for sig, detail in viols:
                part.viol(sig, detail, cur, rank=(len(cur), cur))
    except _Timeout:
        part.viol(f"no-termination-within-budget:service-{code:04x}", f"batch stalled at {cur.hex()}", cur, rank=(len(cur), cur))
    finally:
        signal.setitimer(signal.ITIMER_REAL, 0)
    part.sample(header(code, 8) + b"\x01\x02")
    return part


def w_tiny() -> Part:
    part = Part()

    def gen() -> Iterator[bytes]:
        yield b""
        for a in range(256):
            yield bytes((a,))
        for a in range(256):
            for b in range(256):
                yield bytes((a, b))

    run_cases(gen(), part, budget=False)
    return part


def mutations(frame: bytes, seed: int, thorough: bool) -> Iterator[bytes]:
    n = len(frame)
    true_total = frame[4:6]
    yield frame
    # header variants
    for hl in (5, 6, 7):
        for ver in (0x10, 0x11):
            for total in (n, n - 1, n + 1, 0, 5, 6, 0xFFFF):
                yield bytes((hl, ver)) + frame[2:4] + (total & 0xFFFF).to_bytes(2, "big") + frame[6:]
    # every prefix truncation, with the header still announcing the full length and with it corrected
    for k in range(n):
        yield frame[:k]
        if k >= 6:
            yield frame[:4] + k.to_bytes(2, "big") + frame[6:k]
    # appended octets (announced length unchanged and corrected)
    for extra in (b"\x00", b"\xff\xff", bytes(8)):
        yield frame + extra
        yield frame[:4] + (n + len(extra)).to_bytes(2, "big") + frame[6:] + extra
    # every body octet replaced by each of SUBST (+ neighbours of its own value): covers every structure-length
    # octet and every enum-typed octet of the body, whichever position they sit at
    sub = list(SUBST) + ([seed_bytes(seed, 1, 3)[0]] if True else [])
    for pos in range(6, n):
        vals = set(sub) | {(frame[pos] + 1) & 0xFF, (frame[pos] - 1) & 0xFF, frame[pos] ^ 0x80}
        vals.discard(frame[pos])
        for v in sorted(vals):
            yield frame[:pos] + bytes((v,)) + frame[pos + 1:]
    if thorough:
        # pairs: a structure-length octet together with the following octet
        for pos in range(6, n - 1):
            for v in (0, 1, 2, 4, 0xFF):
                for v2 in (0, 1, 2, 0xFE, 0xFF):
                    yield frame[:pos] + bytes((v, v2)) + frame[pos + 2:]
        # truncations combined with one substituted octet
        for k in range(7, n):
            for pos in range(6, k):
                for v in (0, 2, 0xFF):
                    yield frame[:4] + k.to_bytes(2, "big") + frame[6:pos] + bytes((v,)) + frame[pos + 1:k]


LIST_SERVICES = {0x0202: bytes.fromhex("0801c0a801020e57"), 0x020C: bytes.fromhex("0801c0a801020e57"), 0x0204: b"", 0x020B: bytes.fromhex("0801c0a801020e57")}


def w_structures(service: int, lo: int, hi: int) -> Part:
    """The length-prefixed structure lists (DIBs in search / description responses, SRPs in extended search requests): EVERY
    type code x length octets {0..6, 8, 0x36, 0xFF} x (exactly / fewer / more octets than declared), as the only structure, after
    a valid one and before a valid one - a structure that consumes nothing must not stall the list loop."""
    part = Part()
    prefix = LIST_SERVICES[service]
    good = bytes.fromhex("0402020102060102") if service != 0x020B else bytes.fromhex("0482")  # supported families DIB / SRP select-by-programming-mode

    def gen() -> Iterator[bytes]:
        for code in range(lo, hi):
            for ln in (0, 1, 2, 3, 4, 5, 6, 8, 0x36, 0xFF):
                for have in sorted({max(ln, 2) - 2, 0, 1, 2, 6, max(ln, 2) - 1}):
                    for fill in (0x00, 0xFF, 0x01):
                        st = bytes((ln, code)) + bytes((fill,)) * have
                        for body in (st, good + st, st + good, st + st):
                            raw = prefix + body
                            yield header(service, 6 + len(raw)) + raw

    seen: set[bytes] = set()
    run_cases((c for c in gen() if c not in seen and not seen.add(c)), part, budget=True)
    return part


def w_struct(idx: int, seed: int, thorough: bool) -> Part:
    part = Part()
    frame = valid_frames()[idx]
    seen: set[bytes] = set()

    def gen() -> Iterator[bytes]:
        for m in mutations(frame, seed, thorough):
            if m not in seen:
                seen.add(m)
                yield m

    run_cases(gen(), part, budget=True)
    part.sample(frame)
    return part


def run(ctx: Ctx) -> None:
    frames = valid_frames()
    ctx.rule = (
        "KNXIPFrame.from_knx on: all byte strings of length <=2; every service type code (all enum members + 2 unassigned) x every body of <=2 octets; "
        f"and for {len(frames)} well-formed frames covering all 29 body classes: header variants (length octet, version, total length true/+-1/0/5/6/FFFF), every prefix truncation "
        "(announced length stale and corrected), appended octets, every body octet substituted by 12-16 values (thorough: adjacent pairs, truncation x substitution). "
        "structure lists of SearchResponse / SearchResponseExtended / DescriptionResponse / SearchRequestExtended: EVERY structure type code 0..255 x length octet 0..6,8,0x36,0xFF x exact/short/long content x alone / after / before a valid structure / twice. "
        f"Each structured case runs under a {CASE_BUDGET_S}s timer. non-trivial = got past the header (frame, wrong result or escape)"
    )
    ctx.bounds = {"valid_frames": len(frames), "service_codes": len(service_codes()), "substitution_values": len(SUBST) + 4}
    ctx.assumptions = ["'bounded time and memory' is decided by a 0.5 s per-case timer (typical parse: 10 us); 'incomplete' is legitimate iff fewer than 6 octets or fewer than the announced length are present"]
    ctx.pmap(w_struct, [(i, ctx.seed, ctx.thorough) for i in range(len(frames))])
    ctx.pmap(w_short, [(c,) for c in service_codes()])
    ctx.pmap(w_structures, [(svc, lo, lo + 32) for svc in LIST_SERVICES for lo in range(0, 256, 32)])
    ctx.pmap(w_tiny, [()])


def replay(case: Any) -> list[tuple[str, str]]:
    part = Part()
    run_cases(iter([bytes(case)]), part, budget=True)
    return [(s, v[1]) for s, v in part.viols.items()]
