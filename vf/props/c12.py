"""C12 cEMI frame parsing is total with declared errors only."""

from __future__ import annotations

import itertools
from typing import Any, Iterator

from xknx.cemi import CEMIFrame, CEMIMessageCode
from xknx.exceptions import CouldNotParseCEMI, UnsupportedCEMIMessage

from ..runner import Ctx, Part, exc_sig, seed_bytes

TITLE = "cEMI parsing"
L_DATA = (0x11, 0x29, 0x2E)
TAILS = [b"", b"\x80", b"\x81\x17", bytes([0xD5, 0x00, 0x36, 0x10, 0x01]), bytes(14), bytes(15), bytes(range(16))]


def check_one(raw: bytes) -> tuple[str, list[tuple[str, str]]]:
    try:
        CEMIFrame.from_knx(raw)
    except CouldNotParseCEMI:
        return "parse-error", []
    except UnsupportedCEMIMessage:
        return "unsupported", []
    except Exception as exc:  # noqa: BLE001
        return "escape", [(exc_sig("escape", exc), f"CEMIFrame.from_knx({raw.hex()}) raised {exc!r}")]
    return "frame", []


def codes() -> list[int]:
    return sorted({m.value for m in CEMIMessageCode} | {0x00, 0x42, 0xFF})


def ldata(code: int, info: bytes, c1: int, c2: int, dst: int, npdu: int | None, tpdu: bytes) -> bytes:
    n = (len(tpdu) - 1) if npdu is None else npdu
    return bytes((code,)) + info + bytes((c1, c2)) + b"\x11\x01" + dst.to_bytes(2, "big") + bytes((n & 0xFF,)) + tpdu


def gen_main(code: int, tail_i: int) -> Iterator[bytes]:
    tail = TAILS[tail_i]
    true_n = len(tail)
    npdus = sorted({0, 1, true_n, max(true_n - 1, 0), true_n + 1, 15, 16, 254, 255})
    for c2 in [at << 7 | hop << 4 | eff for at in (0, 1) for hop in (0, 7) for eff in range(16)]:
        for dst in (0x0000, 0x1105, 0x0901):
            for tpci in range(256):
                for n in npdus:
                    yield ldata(code, b"\x00", 0xBC, c2, dst, n, bytes((tpci,)) + tail)


def gen_side(seed: int) -> Iterator[bytes]:
    sb = seed_bytes(seed, 4, 12)
    for code in L_DATA:
        # control field 1: every value
        for c1 in range(256):
            for c2 in (0x60, 0xE0, 0x61, 0xEF):
                for tpci in (0x00, 0x04, 0x40, 0x80, 0x81, 0xC2, 0xC3):
                    yield ldata(code, b"\x00", c1, c2, 0x0901, None, bytes((tpci, 0x80)))
        # additional info: consistent, inconsistent and overlong length octets
        for info in (b"\x00", b"\x01\xaa", b"\x02\xaa\xbb", b"\x04\x03\x02\x00\x01", b"\xff\x01\x02", b"\x0c" + bytes(11), b"\x01", b"\xff", b""):
            for tpci in (0x00, 0x40, 0x80, 0xC2):
                for tail in (b"", b"\x80", bytes(15), sb):
                    yield ldata(code, info, 0xBC, 0xE0, 0x0901, None, bytes((tpci,)) + tail)
                    yield ldata(code, info, 0xBC, 0x60, 0x1105, None, bytes((tpci,)) + tail)
        # every truncation of a well-formed frame
        full = ldata(code, b"\x00", 0xBC, 0xE0, 0x0901, None, b"\x00\x80\x01\x02")
        for k in range(len(full) + 1):
            yield full[:k]
    # management (M_Prop*) and other codes: every length 0..10, object types, number of elements, fills
    for code in codes():
        if code in L_DATA:
            continue
        for n in range(0, 12):
            for fill in (0x00, 0xFF, 0x01, sb[0]):
                for ot in (b"\x00\x0b", b"\x00\x00", b"\xff\xff", bytes((fill, fill))):
                    for noe in (0x00, 0x10, 0xF0, fill):
                        body = bytearray([fill] * n)
                        body[0:2] = ot[: min(2, n)]
                        if n > 4:
                            body[4] = noe
                        yield bytes((code,)) + bytes(body[:n])


def gen_short(thorough: bool, part_i: int) -> Iterator[bytes]:
    """All frames of length 0..2, and of length 3 (thorough: every third octet, quick: 8 values); one first octet per unit."""
    a = part_i
    if a == 0:
        yield b""
    yield bytes((a,))
    thirds = range(256) if thorough else (0x00, 0x01, 0x0B, 0x29, 0x80, 0xBC, 0xE0, 0xFF)
    for b in range(256):
        yield bytes((a, b))
        for c in thirds:
            yield bytes((a, b, c))


def run_gen(gen: Iterator[bytes], part: Part) -> None:
    for raw in gen:
        part.evaluations += 1
        outcome, viols = check_one(raw)
        part.outcomes[outcome] += 1
        if outcome in ("frame", "escape"):
            part.nontrivial += 1
        for sig, detail in viols:
            part.viol(sig, detail, raw, rank=(len(raw), raw))


def w_main(code: int, tail_i: int) -> Part:
    part = Part()
    run_gen(gen_main(code, tail_i), part)
    part.sample(ldata(code, b"\x00", 0xBC, 0xE0, 0x0901, None, b"\x00" + TAILS[tail_i]))
    return part


def w_side(seed: int) -> Part:
    part = Part()
    seen: set[bytes] = set()
    run_gen((r for r in gen_side(seed) if r not in seen and not seen.add(r)), part)
    return part


def w_apdu(code_lo: int, code_hi: int, seed: int, thorough: bool) -> Part:
    """Every application-layer service behind the link layer: the APDU space of C04 (all 1024 APCI codes x lengths x fills x
    count octets x flag-bit walks) inside consistent L_Data.ind frames to a group and to an individual address."""
    from ..apcispace import struct_space

    part = Part()
    for code in range(code_lo, code_hi):
        for apdu in struct_space(code, seed, thorough):
            if apdu[0] & 0xFC or len(apdu) > 255:
                continue
            for c2, dst in ((0xE0, 0x0901), (0x60, 0x1105)):
                raw = ldata(0x29, b"\x00", 0xBC, c2, dst, None, apdu)
                part.evaluations += 1
                outcome, viols = check_one(raw)
                part.outcomes[outcome] += 1
                if outcome in ("frame", "escape"):
                    part.nontrivial += 1
                for sig, detail in viols:
                    part.viol(sig, detail, raw, rank=(len(raw), raw))
    return part


def w_short(thorough: bool, i: int) -> Part:
    part = Part()
    run_gen(gen_short(thorough, i), part)
    return part


def run(ctx: Ctx) -> None:
    ctx.rule = (
        "CEMIFrame.from_knx on: all byte strings of length 0..2 and length 3 (quick: 8 third-octet values, thorough: all); for each L_Data code {11,29,2E}: "
        "Ctrl2 (AT x hop{0,7} x all 16 EFF) x dst{0,own,other} x ALL 256 TPCI octets x NPDU length field {0,1,true,true+-1,15,16,254,255} x 7 APDU tails; every Ctrl1 octet; "
        "additional-info lengths consistent/inconsistent/overlong; every truncation; every other message code (all enum members + 3 unassigned) x every length 0..11 x object type / "
        "number-of-elements / fill variants; the application-layer space of C04 (all 1024 APCI codes x APDU lengths 2..40,48,64,128,254 x fills x count octets x single-bit walks over the first three body octets) "
        "inside consistent L_Data.ind frames to a group and an individual address. Oracle: frame, CouldNotParseCEMI or UnsupportedCEMIMessage only. non-trivial = parsed to a frame"
    )
    ctx.bounds = {"l_data_codes": 3, "tails": len(TAILS), "message_codes": len(codes())}
    ctx.pmap(w_main, [(c, t) for c in L_DATA for t in range(len(TAILS))])
    ctx.pmap(w_side, [(ctx.seed,)])
    ctx.pmap(w_short, [(ctx.thorough, i) for i in range(256)])
    ctx.pmap(w_apdu, [(c, c + 16, ctx.seed, ctx.thorough) for c in range(0, 1024, 16)])


def replay(case: Any) -> list[tuple[str, str]]:
    return check_one(bytes(case))[1]
