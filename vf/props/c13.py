"""C13 cEMI link frames round-trip and carry the correct frame type."""

from __future__ import annotations

import itertools
from typing import Any, Iterator

from xknx.cemi import CEMIFlags, CEMIFrame, CEMILData, CEMIMessageCode
from xknx.cemi.flags import CEMIPriority
from xknx.dpt import DPTArray
from xknx.telegram import tpci as T
from xknx.telegram.address import GroupAddress, IndividualAddress
from xknx.telegram.apci import GroupValueWrite, MemoryWrite

from ..ref.apci_masks import reserved_mask
from ..ref.cemi import encode_ldata
from ..runner import Ctx, Part, exc_sig
from . import c12

TITLE = "cEMI L_Data round trip and frame type"
SRC = 0x11F0

DESTS: dict[str, tuple[Any, list[Any]]] = {
    "group": (GroupAddress(0x0901), [T.TDataGroup(), T.TDataTagGroup()]),
    "broadcast": (GroupAddress(0), [T.TDataBroadcast()]),
    "individual": (IndividualAddress(0x1105), [T.TDataIndividual(), T.TDataConnected(0), T.TDataConnected(15), T.TConnect(), T.TDisconnect(), T.TAck(3), T.TNak(15)]),
}


def make_payload(dest: str, n: int) -> Any:
    """An application PDU whose APDU has n octets after the TPCI octet (n >= 1)."""
    if dest == "individual":
        if n < 3:
            return None
        if n <= 40:
            return MemoryWrite(address=0x1234, data=bytes((i * 7 + 1) & 0xFF for i in range(n - 3)))
        from xknx.telegram.apci import FunctionPropertyCommand

        base = FunctionPropertyCommand(object_index=1, property_id=2, data=b"").calculated_length()
        return FunctionPropertyCommand(object_index=1, property_id=2, data=bytes((i * 7 + 1) & 0xFF for i in range(n - base)))
    if n == 1:
        from xknx.dpt import DPTBinary

        return GroupValueWrite(DPTBinary(1))
    return GroupValueWrite(DPTArray(tuple((i * 5 + 3) & 0xFF for i in range(n - 1))))


def flag_combos(full: bool) -> Iterator[CEMIFlags]:
    if full:
        for prio, rep, sb, ack, ce, hop in itertools.product(CEMIPriority, (False, True), (False, True), (False, True), (False, True), range(8)):
            yield CEMIFlags(priority=prio, repeat_on_error=rep, system_broadcast=sb, acknowledge_request=ack, confirm_error=ce, hop_count=hop)
    else:
        yield CEMIFlags()
        yield CEMIFlags(priority=CEMIPriority.SYSTEM, repeat_on_error=True, hop_count=0)
        yield CEMIFlags(priority=CEMIPriority.URGENT, system_broadcast=True, acknowledge_request=True, hop_count=7)
        yield CEMIFlags(priority=CEMIPriority.NORMAL, confirm_error=True, hop_count=5)


def check_build(dest: str, tp: Any, n: int, flags: CEMIFlags, code: CEMIMessageCode) -> tuple[str, list[tuple[str, str]]]:
    dst, _ = DESTS[dest]
    payload = None if tp.control else make_payload(dest, n)
    if not tp.control and payload is None:
        return "skip", []
    what = f"{dest}/{tp!r}/npdu={0 if tp.control else n}/{flags}"
    data = CEMILData(flags=flags, src_addr=IndividualAddress(SRC), dst_addr=dst, tpci=tp, payload=payload)
    frame = CEMIFrame(code=code, data=data)
    try:
        raw = frame.to_knx()
    except Exception as exc:  # noqa: BLE001
        if not tp.control and n > 254:
            return "refused-too-long", []
        return "refused", [(exc_sig("valid-frame-refused", exc), f"{what}: {exc!r}")]
    if not tp.control and n > 254:
        return "accepted-too-long", [("overlong-apdu-accepted", f"{what}: serialised {len(raw)} octets")]
    viols = []
    apdu = None if tp.control else bytes(payload.to_knx())
    ref = encode_ldata(code.value, priority=int(flags.priority), repeat_on_error=flags.repeat_on_error, system_broadcast=flags.system_broadcast,
                       ack=flags.acknowledge_request, confirm_error=flags.confirm_error, hop_count=flags.hop_count, dst_is_group=dest != "individual",
                       src=SRC, dst=dst.raw, tpci_octet=tp.to_knx(), apdu=apdu)
    if raw != ref:
        pos = next((i for i, (a, b) in enumerate(zip(raw, ref)) if a != b), min(len(raw), len(ref)))
        field = {2: "ctrl1", 3: "ctrl2", 8: "npdu-length", 9: "tpci"}.get(pos, "addr" if 4 <= pos < 8 else "apdu" if pos > 9 else "head")
        viols.append((f"bytes-differ-from-reference:{field}", f"{what}: xknx {raw.hex()} reference {ref.hex()}"))
    npdu = raw[8]
    if bool(raw[2] & 0x80) != (npdu <= 15):
        viols.append(("frame-type-bit-wrong", f"{what}: FT={raw[2] >> 7} with NPDU length {npdu}"))
    if bool(raw[3] & 0x80) != (dest != "individual"):
        viols.append(("address-type-bit-wrong", f"{what}: AT={raw[3] >> 7}"))
    try:
        back = CEMIFrame.from_knx(raw)
    except Exception as exc:  # noqa: BLE001
        viols.append((exc_sig("own-frame-rejected", exc), f"{what}: {raw.hex()}: {exc!r}"))
        return "bad", viols
    b = back.data
    same = (back.code is code and b.src_addr == data.src_addr and b.dst_addr == dst and type(b.dst_addr) is type(dst) and type(b.tpci) is type(tp) and b.tpci == tp
            and b.payload == payload and (b.flags.priority, b.flags.repeat_on_error, b.flags.system_broadcast, b.flags.acknowledge_request, b.flags.confirm_error, b.flags.hop_count)
            == (flags.priority, flags.repeat_on_error, flags.system_broadcast, flags.acknowledge_request, flags.confirm_error, flags.hop_count))
    if not same:
        viols.append(("parse-back-differs", f"{what}: {raw.hex()} -> {back}"))
    return ("ok" if not viols else "bad"), viols


def w_build(dest: str, ti: int, full_lengths: bool) -> Part:
    part = Part()
    tp = DESTS[dest][1][ti]
    lengths = [0] if tp.control else list(range(1, 257))
    for n in lengths:
        full = n in (0, 1, 2, 3, 15, 16, 17, 254)
        for flags in flag_combos(full):
            for code in (CEMIMessageCode.L_DATA_REQ, CEMIMessageCode.L_DATA_IND) if full else (CEMIMessageCode.L_DATA_IND,):
                part.evaluations += 1
                outcome, viols = check_build(dest, tp, n, flags, code)
                part.outcomes[outcome] += 1
                if outcome in ("ok", "bad"):
                    part.nontrivial += 1
                for sig, detail in viols:
                    part.viol(sig, detail, {"dest": dest, "ti": ti, "n": n, "flags": [int(flags.priority), flags.repeat_on_error, flags.system_broadcast, flags.acknowledge_request, flags.confirm_error, flags.hop_count], "code": code.value}, rank=(n,))
    # out-of-range hop counts are refused
    for hop in (-1, 8, 15):
        part.evaluations += 1
        try:
            CEMIFrame(code=CEMIMessageCode.L_DATA_REQ, data=CEMILData(flags=CEMIFlags(hop_count=hop), src_addr=IndividualAddress(SRC), dst_addr=DESTS[dest][0], tpci=tp,
                                                                         payload=None if tp.control else make_payload(dest, 3))).to_knx()
        except Exception:  # noqa: BLE001
            part.outcomes["refused-hop"] += 1
            continue
        part.viol("hop-count-out-of-range-accepted", f"hop_count={hop} serialised for {dest}/{tp!r}", {"dest": dest, "ti": ti, "hop": hop})
    # ... also when the hop count is assigned to the flags of an existing frame (how routers decrement it) and the frame is serialised again
    for hop in (-1, 8, 9, 15, 16, 64):
        part.evaluations += 1
        try:
            frame = CEMIFrame(code=CEMIMessageCode.L_DATA_IND, data=CEMILData(flags=CEMIFlags(hop_count=6), src_addr=IndividualAddress(SRC), dst_addr=DESTS[dest][0], tpci=tp,
                                                                               payload=None if tp.control else make_payload(dest, 3)))
            good = frame.to_knx()
            back = CEMIFrame.from_knx(good)
            back.data.flags.hop_count = hop  # type: ignore[union-attr]
        except Exception as exc:  # noqa: BLE001
            part.viol(exc_sig("harness:hop-assignment", exc), repr(exc), {"dest": dest, "ti": ti, "hop": hop, "assigned": True})
            continue
        try:
            raw = back.to_knx()
        except Exception:  # noqa: BLE001
            part.outcomes["refused-hop"] += 1
            continue
        part.viol("assigned-hop-count-out-of-range-accepted", f"hop_count={hop} assigned to a parsed frame for {dest}/{tp!r} serialises to {raw.hex()} (original {good.hex()})", {"dest": dest, "ti": ti, "hop": hop, "assigned": True})
    part.sample({"dest": dest, "tpci": repr(tp), "apdu_lengths": "1..256" if not tp.control else "control"})
    return part


def check_received(raw: bytes) -> tuple[str, list[tuple[str, str]]]:
    try:
        frame = CEMIFrame.from_knx(raw)
    except Exception:  # noqa: BLE001
        return "rejected", []
    if not isinstance(frame.data, CEMILData):
        return "not-ldata", []
    try:
        again = frame.to_knx()
    except Exception as exc:  # noqa: BLE001
        return "not-serialisable", [(exc_sig("received-frame-not-serialisable", exc), f"{raw.hex()} -> {frame}: {exc!r}")]
    # normalise: additional info is kept; compare from Ctrl1 on
    off = 2 + raw[1]
    a, b = raw[off:], again[off:]
    if raw[:off] != again[:off] or len(a) != len(b):
        return "changed", [("received-frame-length-or-head-changed", f"{raw.hex()} -> {again.hex()}")]
    if bool(b[0] & 0x80) != (b[6] <= 15):
        return "changed", [("reserialised-frame-type-bit-wrong", f"{raw.hex()} -> {again.hex()}: FT={b[0] >> 7} with NPDU length {b[6]} (the frame type has to be derived, whatever was received)")]
    mask = bytearray(len(a))
    mask[0] = 0xC0  # FT (derived) and the reserved bit r of Ctrl1
    if frame.data.payload is not None:
        apdu = bytes((a[7] & 0x03,)) + a[8:]
        m = reserved_mask(type(frame.data.payload).__name__, apdu)
        mask[7] |= m[0] & 0x03
        for i in range(1, len(m)):
            mask[7 + i] |= m[i]
    diff = bytes((x ^ y) & ~m & 0xFF for x, y, m in zip(a, b, mask))
    if any(diff):
        pos = next(i for i, d in enumerate(diff) if d)
        field = {0: "ctrl1", 1: "ctrl2", 6: "npdu-length", 7: "tpci"}.get(pos, "addr" if 2 <= pos < 6 else "apdu")
        return "changed", [(f"received-frame-changed:{field}", f"{raw.hex()} -> {again.hex()} (differs outside FT/reserved bits: {diff.hex()})")]
    return "same", []


def w_received(kind: str, a: int, b: int, seed: int) -> Part:
    part = Part()
    gen = c12.gen_main(a, b) if kind == "main" else c12.gen_side(seed)
    seen: set[bytes] = set()
    for raw in gen:
        if kind == "side":
            if raw in seen:
                continue
            seen.add(raw)
        part.evaluations += 1
        outcome, viols = check_received(raw)
        part.outcomes["rx-" + outcome] += 1
        if outcome in ("same", "changed"):
            part.nontrivial += 1
        for sig, detail in viols:
            part.viol(sig, detail, {"raw": raw}, rank=(len(raw), raw))
    return part


def run(ctx: Ctx) -> None:
    ctx.rule = (
        "(a) frames built from telegrams: destination {group, broadcast, individual} x every admissible TPCI kind x APDU = GroupValueWrite/MemoryWrite of EVERY length 1..256 x "
        "control combinations (all 4x2x2x2x2 x hop 0..7 x {L_Data.req, L_Data.ind} at lengths {1,2,3,15,16,17,254}, 4 combinations elsewhere): bytes equal the independent encoder "
        "vf/ref/cemi.py, FT = standard <=> NPDU <= 15, AT matches, parse back equal, >254 and hop -1/8/15 refused (also when assigned to a parsed frame); (b) every frame of the C12 space that parses re-serialises "
        "equal outside {FT bit, reserved Ctrl1 bit} and the C05 reserved-bit masks. non-trivial = frames serialised / re-serialised"
    )
    ctx.assumptions = ["the reserved bit r of Ctrl1 (bit 6) is treated like the other reserved bits when a received frame is re-serialised"]
    ctx.pmap(w_build, [(d, i, True) for d, (_, tps) in DESTS.items() for i in range(len(tps))])
    ctx.pmap(w_received, [("main", c, t, ctx.seed) for c in c12.L_DATA for t in range(len(c12.TAILS))] + [("side", 0, 0, ctx.seed)])


def replay(case: Any) -> list[tuple[str, str]]:
    if "raw" in case:
        return check_received(bytes(case["raw"]))[1]
    if "hop" in case:
        p = w_build(case["dest"], case["ti"], True)
        return [(s, v[1]) for s, v in p.viols.items() if s.startswith("hop")]
    f = case["flags"]
    flags = CEMIFlags(priority=CEMIPriority(f[0]), repeat_on_error=f[1], system_broadcast=f[2], acknowledge_request=f[3], confirm_error=f[4], hop_count=f[5])
    return check_build(case["dest"], DESTS[case["dest"]][1][case["ti"]], case["n"], flags, CEMIMessageCode(case["code"]))[1]
