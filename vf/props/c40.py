"""C40 Cover position estimates stay within bounds and never fail."""

from __future__ import annotations

from fractions import Fraction as F
from typing import Any

import xknx.devices.travelcalculator as TC

from ..runner import Ctx, Part, exc_sig

TITLE = "travel calculator"
T0 = F(1024)
EPS = F(1, 2**20)  # a sub-microsecond clock step, exactly representable next to T0

# travel-time configurations (down, up).  The first three keep every intermediate quantity a dyadic rational, so the
# float arithmetic of the implementation is exact and the rational reference can be compared without tolerance.
CONFIGS: list[tuple[F, F, bool]] = [
    (F(25), F(25), True),
    (F(25), F(50), True),
    (F(25, 2), F(100), True),
    (F(10), F(7), False),
    # a direction that takes no time (a valid configuration: e.g. a relay that only ever reports the end positions)
    (F(25), F(0), True),
    (F(0), F(25), True),
]
POSITIONS = [0, 30, 50, 100]


class Clock:
    def __init__(self) -> None:
        self.now = T0

    def time(self) -> float:
        return float(self.now)


COARSE = (0, 4, 6)   # indices into advances(): 0, T/2, 2T


def ops() -> list[tuple[Any, ...]]:
    out: list[tuple[Any, ...]] = [("noop",), ("stop",), ("up",), ("down",)]
    out += [("travel", p) for p in (0, 30, 100)]
    out += [("report", p) for p in POSITIONS]
    out += [("set", 50)]
    return out


def advances(cfg: tuple[F, F, bool]) -> list[F]:
    down = cfg[0] or cfg[1]
    return [F(0), EPS, F(1), down / 4, down / 2, down, 2 * max(cfg[0], cfg[1])]


class Ref:
    """Rational reference: where the estimate must be (exactly, up to rounding) or may be (interval only)."""

    def __init__(self, cfg: tuple[F, F, bool]) -> None:
        self.down, self.up, self.exact = cfg
        self.last: F | None = None  # last known position (rational: a stop freezes the exact linear position)
        self.ts = T0
        self.target: int | None = None
        # regime: "unknown" | "fixed" (estimate == last) | "linear" (moving from last to target since ts) | "free" (only the interval is required)
        self.regime = "unknown"
        self.direction = 0  # +1 down (towards 100), -1 up, 0 stopped

    def travel_time(self, a: F, b: F) -> F:
        return (self.down if b > a else self.up) * abs(b - a) / 100

    def position(self, now: F) -> tuple[F | None, F | None]:
        """(exact linear position or None if unconstrained, remaining travel time at ts)"""
        if self.regime == "fixed":
            return self.last, None
        if self.regime == "linear":
            assert self.last is not None and self.target is not None
            rem = self.travel_time(self.last, F(self.target))
            el = now - self.ts
            if rem == 0 or el >= rem:
                return F(self.target), rem
            return self.last + (self.target - self.last) * el / rem, rem
        return None, None


def apply_ref(ref: Ref, op: tuple[Any, ...], now: F, est_before: int | None) -> None:
    """Advance the reference.  `est_before` = the implementation's (already checked) estimate at `now` before the op:
    a stop freezes the cover at the integer the library reported, which becomes the new last known position."""
    k = op[0]
    if k == "noop":
        return
    if k == "set":
        ref.last, ref.ts, ref.target, ref.regime, ref.direction = F(op[1]), now, op[1], "fixed", ref.direction
        return
    if k == "report":
        p = op[1]
        if ref.regime == "unknown" or ref.target is None:
            ref.last, ref.ts, ref.regime = F(p), now, "fixed"
            return
        ref.last, ref.ts = F(p), now
        if p == ref.target:
            ref.regime = "fixed"
        elif ref.direction == 0:
            ref.regime = "free"  # a report that differs from the target of a stopped cover: only the interval is required
        elif (ref.target - p) * ref.direction <= 0:
            ref.regime = "free"  # reported beyond the target in travel direction
        else:
            ref.regime = "linear"
        return
    if k == "stop":
        if ref.regime == "unknown":
            return
        ref.last, ref.target, ref.regime, ref.direction = F(est_before), est_before, "fixed", 0  # type: ignore[arg-type]
        return
    # movement commands
    tgt = {"up": 0, "down": 100}.get(k, op[1] if len(op) > 1 else None)
    if ref.regime == "unknown":
        # no known position: the library assumes the target; the statement allows 'unknown' as well
        ref.last, ref.ts, ref.target, ref.regime = F(tgt), now, tgt, "fixed-or-unknown"
        return
    ref.last, ref.ts, ref.target = F(est_before), now, tgt  # type: ignore[arg-type]
    ref.direction = 1 if tgt > est_before else -1  # type: ignore[operator]
    ref.regime = "linear" if tgt != est_before else "fixed"


QUERIES = ["current_position", "is_traveling", "is_opening", "is_closing", "position_reached", "is_open", "is_closed"]


def observe(calc: Any) -> tuple[dict[str, Any], list[tuple[str, str]]]:
    obs: dict[str, Any] = {}
    viols = []
    for q in QUERIES:
        try:
            obs[q] = getattr(calc, q)()
        except Exception as exc:  # noqa: BLE001
            viols.append((exc_sig(f"query-raises:{q}", exc), f"{q}() raised {exc!r}"))
            obs[q] = "raised"
    return obs, viols


def check(ref: Ref, obs: dict[str, Any], now: F, prev: tuple[int, int] | None) -> list[tuple[str, str]]:
    """Oracle for one observation. `prev` = (estimate, target) of the previous observation if no command lay between."""
    viols: list[tuple[str, str]] = []
    est = obs["current_position"]
    if est == "raised":
        return viols
    if ref.regime == "unknown":
        if est is not None:
            viols.append(("estimate-without-any-position", f"estimate {est} although no position was ever known"))
        return viols
    if ref.regime == "fixed-or-unknown":
        if est is not None and est != ref.target:
            viols.append(("estimate-outside-interval", f"estimate {est}, only target {ref.target} (or unknown) possible"))
        return viols
    if est is None:
        viols.append(("estimate-unknown-after-position-known", f"estimate None, last known {ref.last}, target {ref.target}"))
        return viols
    if type(est) is not int:  # noqa: E721
        viols.append(("estimate-not-an-integer", f"estimate {est!r}"))
        return viols
    assert ref.last is not None
    lo = min(ref.last, F(ref.target)) if ref.target is not None else ref.last
    hi = max(ref.last, F(ref.target)) if ref.target is not None else ref.last
    if not lo <= est <= hi:
        viols.append(("estimate-outside-interval", f"estimate {est} not between last known {ref.last} and target {ref.target}"))
    exact, rem = ref.position(now)
    tol = F(0) if ref.exact else F(1, 10**6)
    if exact is not None:
        # the implementation computes elapsed/remaining in floats: a linear position that is an exact integer may be
        # reported one below (28.999999999999996 -> 28), hence the 1e-9 on top of the rounding unit
        if abs(est - exact) >= 1 + max(tol, F(1, 10**9)):
            viols.append(("estimate-off-linear-travel", f"estimate {est}, linear position {float(exact):.4f} (last known {ref.last} at t-{float(now - ref.ts)}, target {ref.target})"))
        if rem is not None and now - ref.ts >= rem + tol and est != ref.target:
            viols.append(("target-not-reached-after-travel-time", f"estimate {est} != target {ref.target} although {float(now - ref.ts)} s >= travel time {float(rem)} s elapsed"))
    if prev is not None and ref.target is not None and prev[1] == ref.target:
        if abs(ref.target - est) > abs(ref.target - prev[0]):
            viols.append(("estimate-moves-away-from-target", f"estimate went {prev[0]} -> {est}, target {ref.target}"))
    # the other queries agree with the estimate at the same clock reading
    tgt = ref.target
    for q, want in (("position_reached", est == tgt), ("is_traveling", est != tgt), ("is_open", est == 0), ("is_closed", est == 100)):
        if obs[q] != "raised" and obs[q] != want:
            viols.append((f"query-inconsistent:{q}", f"{q}() = {obs[q]} with estimate {est}, target {tgt}"))
    if est == tgt:
        for q in ("is_opening", "is_closing"):
            if obs[q] is True:
                viols.append((f"query-inconsistent:{q}", f"{q}() true although the target {tgt} is reached"))
    elif obs["is_opening"] is True and obs["is_closing"] is True:
        viols.append(("query-inconsistent:both-directions", "opening and closing"))
    elif ref.regime == "linear" and obs["is_opening"] != "raised":
        if (obs["is_closing"], obs["is_opening"]) != (ref.direction > 0, ref.direction < 0):
            viols.append(("query-inconsistent:direction", f"closing={obs['is_closing']} opening={obs['is_opening']} while travelling {'down' if ref.direction > 0 else 'up'} from {ref.last} to {tgt}"))
    return viols


def do_op(calc: Any, op: tuple[Any, ...]) -> None:
    k = op[0]
    if k == "stop":
        calc.stop()
    elif k == "up":
        calc.start_travel_up()
    elif k == "down":
        calc.start_travel_down()
    elif k == "travel":
        calc.start_travel(op[1])
    elif k == "report":
        calc.update_position(op[1])
    elif k == "set":
        calc.set_position(op[1])


def run_history(ci: int, hist: tuple[tuple[int, int], ...]) -> tuple[Any, list[tuple[str, str]]]:
    """Replay (advance index, op index) events on a fresh real TravelCalculator in lock-step with the reference.

    Returns (canonical state key, violations)."""
    cfg = CONFIGS[ci]
    clock = Clock()
    saved = TC.time
    TC.time = clock  # type: ignore[assignment]
    viols: list[tuple[str, str]] = []
    try:
        calc = TC.TravelCalculator(float(cfg[0]), float(cfg[1]))
        ref = Ref(cfg)
        OPS, ADV = ops(), advances(cfg)
        prev: tuple[int, int] | None = None
        for ai, oi in hist:
            clock.now += ADV[ai]
            obs, v = observe(calc)
            v += check(ref, obs, clock.now, prev)
            viols += [(s, f"before {OPS[oi]} at t+{float(clock.now - T0)}: {d}") for s, d in v]
            est = obs["current_position"]
            op = OPS[oi]
            if est == "raised" or (op[0] != "noop" and ref.regime not in ("unknown", "fixed-or-unknown") and type(est) is not int):  # noqa: E721
                return None, viols  # the reference cannot follow a failed query
            try:
                do_op(calc, op)
            except Exception as exc:  # noqa: BLE001
                viols.append((exc_sig(f"command-raises:{op[0]}", exc), f"{op} at t+{float(clock.now - T0)} raised {exc!r}"))
                return None, viols
            if ref.regime == "fixed-or-unknown" and op[0] != "noop":
                ref.regime = "unknown" if est is None else "fixed"
                if est is None:
                    ref.last, ref.target = None, ref.target
            apply_ref(ref, op, clock.now, est if isinstance(est, int) else None)
            obs2, v2 = observe(calc)
            v2 += check(ref, obs2, clock.now, None)
            viols += [(s, f"after {op} at t+{float(clock.now - T0)}: {d}") for s, d in v2]
            e2 = obs2["current_position"]
            prev = (e2, ref.target) if isinstance(e2, int) and ref.target is not None else None
        key = (
            calc._last_known_position, calc._travel_to_position, calc._position_confirmed, calc.travel_direction.name,  # noqa: SLF001
            F(calc._last_known_position_timestamp) - clock.now,  # noqa: SLF001
        )
        return key, viols
    finally:
        TC.time = saved


def sig_once(viols: list[tuple[str, str]]) -> list[tuple[str, str]]:
    seen: set[str] = set()
    return [(s, d) for s, d in viols if not (s in seen or seen.add(s))]


def worker(ci: int, first: tuple[int, int], depth: int, full_depth: int, adv_subset: tuple[int, ...] | None = None) -> Part:
    """BFS below one first event: all histories to `full_depth` unmerged, deeper ones merged by exact calculator state.
    `adv_subset`: only these clock advances (a coarser clock lets the same budget reach longer histories)."""
    part = Part()
    cfg = CONFIGS[ci]
    nA, nO = len(advances(cfg)), len(ops())
    events = [(a, o) for a in (range(nA) if adv_subset is None else adv_subset) for o in range(nO)]
    seen: set[Any] = set()
    frontier = [(first,)]
    level = 1
    while frontier and level <= depth:
        nxt = []
        for hist in frontier:
            key, viols = run_history(ci, hist)
            part.evaluations += 1
            part.traces += 1
            part.transitions += len(hist)
            for s, d in sig_once(viols):
                part.viol(s, f"{d}; config={tuple(map(float, cfg[:2]))} history={[(float(advances(cfg)[a]), ops()[o]) for a, o in hist]}", [ci, [list(e) for e in hist]], rank=(len(hist), hist))
            part.outcomes["violating" if viols else "ok"] += 1
            if key is None:
                continue
            if level >= full_depth:
                if key in seen:
                    continue
            seen.add(key)
            if level < depth:
                nxt.extend(hist + (e,) for e in events)
        frontier = nxt
        level += 1
    part.states = len(seen)
    part.nontrivial = len(seen)
    return part


def cover_worker(k: int, n: int, depth: int) -> Part:
    from .. import cover40 as c40_cover

    return c40_cover.worker(k, n, depth)


def cover_arrival_worker() -> Part:
    from .. import cover40 as c40_cover

    return c40_cover.arrival_worker()


def run(ctx: Ctx) -> None:
    depth = 4 if ctx.thorough else 3
    full_depth = 2
    ctx.rule = (
        f"real TravelCalculator with time.time replaced by an explorer-owned clock: events = (clock advance in {{0, 2^-20 s, 1 s, T/4, T/2, T, 2T}}) x (command in {ops()}); ALL event histories of length "
        f"<= {depth} for {len(CONFIGS)} travel-time configurations (3 dyadic ones compared exactly, 1 with 1e-6 tolerance), merged by exact calculator state (fields + time since the last known position) beyond depth "
        f"{full_depth}; every query method is called before and after every command at that clock reading. Oracle = rational reference stepped in lock-step: never raises, unknown or an integer between last known "
        "position and target, within <1 of the linear travel position, equal to the target once the travel time has elapsed, never moving away from the target, and the boolean queries agree with the estimate. "
        f"Plus ALL histories of length <= {depth + 2} on a coarser clock (advance 0, T/2 or 2T), merged by state beyond depth 2. "
        "The same through the real Cover device (command and bus events, all sequences to depth 2/3), plus arrival times for every Cover option set (invert_updown / invert_position x symmetric and asymmetric travel times) x start position x command."
    )
    ctx.bounds = {"depth": depth, "configs": len(CONFIGS), "events_per_state": len(ops()) * 7}
    units = []
    for ci, cfg in enumerate(CONFIGS):
        for a in range(len(advances(cfg))):
            for o in range(len(ops())):
                units.append((ci, (a, o), depth, full_depth))
    ctx.pmap(worker, units)
    # longer histories on a coarser clock (advance 0, T/2 or 2T): a fault that needs four or five commands in a row (travel, report
    # at the target, another report, ...) is out of reach of depth 3
    deep = depth + 2
    ctx.bounds["coarse_clock_depth"] = deep
    ctx.pmap(worker, [(ci, (a, o), deep, 2, COARSE) for ci in range(len(CONFIGS)) for a in COARSE for o in range(len(ops()))])
    try:
        from .. import cover40 as c40_cover  # noqa: F401

        ctx.pmap(cover_worker, [(k, 32, 3 if ctx.thorough else 2) for k in range(32)])
        ctx.pmap(cover_arrival_worker, [()])
        ctx.bounds["cover_depth"] = 3 if ctx.thorough else 2
    except ImportError:
        pass


def replay(case: Any) -> list[tuple[str, str]]:
    if case and case[0] in ("cover", "cover-arrival"):
        from .. import cover40 as c40_cover

        return c40_cover.replay(case)
    ci, hist = case
    _k, viols = run_history(ci, tuple((a, o) for a, o in hist))
    return sig_once(viols)
