"""C38 Eager group-address decoding never changes what devices see."""

from __future__ import annotations

from enum import Enum
from typing import Any

from xknx.dpt import DPTArray, DPTBase, DPTBinary
from xknx.exceptions import ConversionError, CouldNotParseTelegram
import xknx.devices.travelcalculator as TC
from xknx.telegram import GroupAddress, IndividualAddress, Telegram, TelegramDirection
from xknx.telegram.address import InternalGroupAddress
from xknx.telegram.apci import GroupValueResponse, GroupValueWrite

from .. import devspace as S
from ..dptspace import all_dpt_classes, pl, same_value, unpl
from ..runner import Ctx, Part, exc_sig, seed_bytes
from ..sim.core import CoreWorld

TITLE = "eager decoding is transparent"
# one distinct address per address parameter, so an address identifies one remote value (plus a shared and an internal one)
POOL = [f"2/{m}/{s}" for m in range(0, 4) for s in range(1, 11)] + ["i-x"]


STATS = {"eager_decoded": 0, "eager_refused": 0}


class FixedClock:
    def time(self) -> float:
        return 1000.0


def mk_addr(a: str) -> Any:
    return InternalGroupAddress(a) if a.startswith("i-") else GroupAddress(a)


def payload_alphabet(seed: int) -> list[Any]:
    out: list[Any] = [DPTBinary(v) for v in (0, 1, 2, 3, 7, 8, 63)]
    for n in (1, 2, 3, 4, 6, 8, 14):
        fills = {bytes(n), b"\xff" * n, bytes((i + 1) % 256 for i in range(n)), bytes([0x0C, 0x1A] * 7)[:n], bytes([0x80] + [0] * (n - 1)), bytes([0x7F] + [0xFF] * (n - 1)), seed_bytes(seed, n, 38)}
        if n == 1:
            fills |= {bytes((v,)) for v in (2, 3, 5, 17, 32, 50, 64, 100, 127, 128, 200, 254)}
        if n == 6:
            # partially valid structured values (RGBW: white only / colours only; xyY: brightness only) - remote values merge
            # these into what they already know
            fills |= {bytes.fromhex("102030c80001"), bytes.fromhex("102030c8000e"), bytes.fromhex("8000800040" + "01"), bytes.fromhex("8000800040" + "02")}
        out += [DPTArray(f) for f in sorted(fills)]
    return out


def dpts_for(payload: Any) -> list[type[DPTBase]]:
    """Every DPT class whose declared payload shape is that of `payload`."""
    out = []
    for c in all_dpt_classes():
        if isinstance(payload, DPTBinary):
            if c.payload_type is DPTBinary:
                out.append(c)
        elif c.payload_type is DPTArray and c.payload_length == len(payload.value):
            out.append(c)
    return out


def idents(c: type[DPTBase]) -> list[Any]:
    """The forms under which a DPT class can be written into the table (value type name, "main.sub", xknxproject mapping)."""
    forms: list[Any] = []
    vt = getattr(c, "value_type", None)
    if vt:
        forms.append(vt)
    m, sb = c.dpt_main_number, c.dpt_sub_number
    if m is not None:
        forms.append(f"{m}.{sb:03d}" if sb is not None else str(m))
        forms.append({"main": m, "sub": sb})
    return [f for f in forms if DPTBase.parse_transcoder(f) is c]


def table_entry(entry: Any, variant: int = 0) -> Any:
    if isinstance(entry, type):
        forms = idents(entry)
        return forms[variant % len(forms)]
    return entry


def snapshot(dev: Any, depth: int = 0) -> Any:
    rvs = []
    for rv in dev._iter_remote_values():  # noqa: SLF001
        tg = rv.telegram
        rvs.append((type(rv).__name__, rv.feature_name, repr(rv.value), repr(rv.last_payload), repr(tg.payload) if tg is not None else None))
    attrs = []
    for k, v in sorted(vars(dev).items()):
        if isinstance(v, (bool, int, float, str, type(None), Enum)) or (isinstance(v, tuple) and all(isinstance(x, (bool, int, float, str, type(None))) for x in v)):
            attrs.append((k, repr(v)))
    sub = []
    mode = getattr(dev, "mode", None)
    if mode is not None and depth == 0 and hasattr(mode, "_iter_remote_values"):
        sub.append(snapshot(mode, 1))
    tc = getattr(dev, "travelcalculator", None)
    if tc is not None:
        sub.append(tuple((s, repr(getattr(tc, s))) for s in tc.__slots__))
    for prop in ("resolve_state", "current_position", "current_color", "current_xyy_color", "current_brightness"):
        p = getattr(type(dev), prop, None)
        if p is None:
            continue
        try:
            v = getattr(dev, prop)
            v = v() if callable(v) else v
            sub.append((prop, repr(v)))
        except Exception as exc:  # noqa: BLE001
            sub.append((prop, f"raises {type(exc).__name__}"))
    return (tuple(rvs), tuple(attrs), tuple(sub))


def specs() -> list[tuple[str, int, bool]]:
    out = []
    for cn in S.device_classes():
        out.append((cn, 0, False))
        out.append((cn, 7, True))
    # the same classes with the options that change how a received value is read (inversions, setpoint-shift modes and steps, ranges, other value types)
    for cn in S.variant_names():
        out.append((cn, 0, False))
    return out


def one_case(w: Any, spec: tuple[str, int, bool], addr: str, steps: list[tuple[Any, Any, bool]]) -> list[tuple[str, str]]:
    """Two fresh devices of the same configuration; the same telegrams, one side through a GA-DPT table, the other without.

    steps: (payload, table entry (DPT class / string / None), as response)"""
    viols: list[tuple[str, str]] = []
    cn, off, as_list = spec
    xknx = w.xknx
    a, _ = S.build(xknx, cn, "dev", POOL, off, 1, as_list, with_mode=True)
    b, _ = S.build(xknx, cn, "dev", POOL, off, 1, as_list, with_mode=True)
    for payload, entry, response in steps:
        xknx.group_address_dpt.clear()
        if entry is not None:
            xknx.group_address_dpt.set({addr: table_entry(entry, len(repr(payload)))})
            if isinstance(entry, type) and xknx.group_address_dpt.get(mk_addr(addr)) is not entry:
                # (clear() followed by set(): the table must answer with what was configured last)
                viols.append(("configured-type-not-in-effect", f"after clear() + set({{{addr}: {entry.__name__}}}) the table answers {xknx.group_address_dpt.get(mk_addr(addr))} for {addr}"))
                continue
        outcome = []
        for dev, use_table in ((a, True), (b, False)):
            tg = Telegram(mk_addr(addr), payload=(GroupValueResponse if response else GroupValueWrite)(payload), source_address=IndividualAddress("1.1.9"), direction=TelegramDirection.INCOMING)
            try:
                if use_table:
                    xknx.group_address_dpt.set_decoded_data(tg)
                    # clause 1: the telegram carries exactly the value the configured type decodes
                    tr = xknx.group_address_dpt.get(mk_addr(addr))
                    if tr is not None:
                        try:
                            want: Any = ("value", tr.from_knx(payload))
                        except (ConversionError, CouldNotParseTelegram):
                            want = ("none", None)
                        got = ("none", None) if tg.decoded_data is None else ("value", tg.decoded_data.value)
                        STATS["eager_decoded" if tg.decoded_data is not None else "eager_refused"] += 1
                        if got[0] != want[0] or (got[0] == "value" and not same_value(got[1], want[1])):
                            viols.append(("decoded-data-differs-from-transcoder", f"decoded_data {got} vs {tr.__name__}.from_knx {want} for {payload!r}"))
                        elif tg.decoded_data is not None and tg.decoded_data.transcoder is not tr:
                            viols.append(("decoded-data-names-other-transcoder", f"{tg.decoded_data.transcoder} vs {tr}"))
                    elif tg.decoded_data is not None:
                        viols.append(("decoded-data-without-table-entry", f"{tg.decoded_data!r}"))
                dev.process(tg)
                outcome.append("ok")
            except Exception as exc:  # noqa: BLE001
                outcome.append(exc_sig("raises", exc))
        sa, sb = snapshot(a), snapshot(b)
        ename = entry.__name__ if isinstance(entry, type) else repr(entry)
        if outcome[0] != outcome[1]:
            viols.append((f"processing-outcome-differs:{cn}", f"{cn} at {addr}: with table ({ename}) {outcome[0]}, without {outcome[1]}; payload {payload!r}"))
        elif sa != sb:
            diff = [(x, y) for x, y in zip(sa[0], sb[0]) if x != y] or [(x, y) for x, y in zip(sa[1], sb[1]) if x != y] or [(x, y) for x, y in zip(sa[2], sb[2]) if x != y]
            rvname = diff[0][0][0] if diff and isinstance(diff[0][0], tuple) and sa[0] != sb[0] else cn
            viols.append((f"state-differs:{rvname}", f"{cn} at {addr}: table entry {ename}, payload {payload!r}: with table {diff[0][0] if diff else sa}, without {diff[0][1] if diff else sb}"))
    return viols


def typed_case(w: Any, dev_cls: str, vt: type[DPTBase], payload: Any, entry: Any, prev: Any = None) -> list[tuple[str, str]]:
    """Sensor / NumericValue / ExposeSensor configured with value type `vt`, table entry `entry` on its address.

    With `prev`: the table first held `prev` for the address and decoded one telegram with the same payload, then set() REPLACED the
    entry on the live object (no clear()): nothing learnt under the earlier table may show in what the device takes."""
    import xknx.devices as D

    xknx = w.xknx
    devs = []
    for _ in range(2):
        kw = {"group_address_state": "2/0/1"} if dev_cls == "Sensor" else {"group_address": "2/0/1"}
        devs.append(getattr(D, dev_cls)(xknx, "dev", value_type=vt, **kw))
    xknx.group_address_dpt.clear()
    if prev is not None:
        xknx.group_address_dpt.set({"2/0/1": table_entry(prev, len(repr(payload)))})
        try:
            xknx.group_address_dpt.set_decoded_data(Telegram(GroupAddress("2/0/1"), payload=GroupValueWrite(payload), source_address=IndividualAddress("1.1.9"), direction=TelegramDirection.INCOMING))
        except Exception:  # noqa: BLE001, S110  (the earlier table on its own is judged by the runs without `prev`)
            pass
    xknx.group_address_dpt.set({"2/0/1": table_entry(entry, len(repr(payload)))})
    if xknx.group_address_dpt.get(GroupAddress("2/0/1")) is not entry:
        raise RuntimeError(f"harness: table entry {entry} not installed")
    outcome = []
    for dev, use_table in zip(devs, (True, False)):
        tg = Telegram(GroupAddress("2/0/1"), payload=GroupValueWrite(payload), source_address=IndividualAddress("1.1.9"), direction=TelegramDirection.INCOMING)
        try:
            if use_table:
                xknx.group_address_dpt.set_decoded_data(tg)
            dev.process(tg)
            outcome.append("ok")
        except Exception as exc:  # noqa: BLE001
            outcome.append(exc_sig("raises", exc))
    sa, sb = snapshot(devs[0]), snapshot(devs[1])
    if outcome[0] != outcome[1]:
        return [(f"processing-outcome-differs:{dev_cls}", f"{dev_cls}(value_type={vt.__name__}) table {entry.__name__} payload {payload!r}: {outcome}")]
    if sa != sb:
        rel = "subclass" if issubclass(entry, vt) else "superclass" if issubclass(vt, entry) else "unrelated"
        after = "" if prev is None else f" after the table held {prev.__name__} for the address"
        return [(f"typed-state-differs:{dev_cls}:{rel}-entry" + (":replaced-table" if prev is not None else ""), f"{dev_cls}(value_type={vt.__name__}) with table entry {entry.__name__} ({rel}){after} payload {payload!r}: {sa[0]} vs without table {sb[0]}")]
    return []


def typed_worker(dev_cls: str, k: int, n: int, seed: int) -> Part:
    """Every DPT class as the device's value type x every DPT class of the same payload shape as the table entry."""
    import logging

    from xknx.dpt import DPTNumeric

    logging.disable(logging.CRITICAL)
    part = Part()
    alphabet = payload_alphabet(seed)
    with CoreWorld(rate_limit=0) as w:
        for ci, vt in enumerate(all_dpt_classes()):
            if ci % n != k:
                continue
            if dev_cls == "NumericValue" and not issubclass(vt, DPTNumeric):
                continue
            mine = [p for p in alphabet if vt in dpts_for(p)]
            for payload in mine:
                for entry in dpts_for(payload):
                    part.evaluations += 1
                    if entry is not vt:
                        part.nontrivial += 1
                    try:
                        viols = typed_case(w, dev_cls, vt, payload, entry)
                    except Exception as exc:  # noqa: BLE001
                        viols = [(exc_sig(f"typed-harness:{dev_cls}", exc), f"{vt.__name__} {entry.__name__} {payload!r}: {exc!r}")]
                    for s_, d in viols:
                        part.viol(s_, d, ["typed", dev_cls, vt.__name__, pl(payload), entry.__name__], rank=(len(repr(payload)), vt.__name__, entry.__name__))
                    part.outcomes["typed:" + ("violating" if viols else "same")] += 1
                    if entry is not vt:
                        continue
                    # the table entry REPLACED on the live object: up to two earlier entries of the same payload shape
                    for prev in [c for c in dpts_for(payload) if c is not entry][:2]:
                        part.evaluations += 1
                        part.nontrivial += 1
                        try:
                            viols = typed_case(w, dev_cls, vt, payload, entry, prev)
                        except Exception as exc:  # noqa: BLE001
                            viols = [(exc_sig(f"typed-harness:{dev_cls}", exc), f"{vt.__name__} {entry.__name__} after {prev.__name__} {payload!r}: {exc!r}")]
                        for s_, d in viols:
                            part.viol(s_, d, ["typed", dev_cls, vt.__name__, pl(payload), entry.__name__, prev.__name__], rank=(len(repr(payload)), vt.__name__, entry.__name__))
                        part.outcomes["typed-replaced:" + ("violating" if viols else "same")] += 1
    return part


def entry_of(x: Any) -> Any:
    if isinstance(x, str) and x.startswith("cls:"):
        return next(c for c in all_dpt_classes() if c.__name__ == x[4:])
    return x


def n_addresses(si: int) -> int:
    cn, off, as_list = specs()[si]
    with CoreWorld(rate_limit=0) as w:
        _probe, used = S.build(w.xknx, cn, "probe", POOL, off, 1, as_list, with_mode=True)
    return len(used)


def worker(si: int, ai: int, seed: int, thorough: bool) -> Part:
    import logging

    logging.disable(logging.CRITICAL)
    part = Part()
    spec = specs()[si]
    cn, off, as_list = spec
    saved = TC.time
    TC.time = FixedClock()  # type: ignore[assignment]
    try:
        with CoreWorld(rate_limit=0) as w:
            probe, used = S.build(w.xknx, cn, "probe", POOL, off, 1, as_list, with_mode=True)
            addrs = sorted(used)[ai : ai + 1]
            alphabet = payload_alphabet(seed)
            for addr in addrs:
                own = [rv.dpt_class for rv in list(probe._iter_remote_values()) + (list(probe.mode._iter_remote_values()) if hasattr(getattr(probe, "mode", None), "_iter_remote_values") else [])  # noqa: SLF001
                       if rv.dpt_class is not None and mk_addr(addr) in rv.group_addresses()]
                for payload in alphabet:
                    entries: list[Any] = [None, "no-such-dpt", "temperature" if not isinstance(payload, DPTBinary) else "switch"]
                    cands = dpts_for(payload)
                    if thorough or "#" in cn:
                        entries += cands   # (non-default configurations: every type of the payload's shape, also in the quick tier)
                    else:
                        # quick: every type related to the remote value's own type (itself, sub- and superclasses) and every 4th other one
                        rel = [c for c in cands if any(issubclass(c, o) or issubclass(o, c) for o in own)]
                        entries += rel + [c for c in cands if c not in rel][:: 4]
                    # a type of another length
                    entries += [c for c in all_dpt_classes() if c.__name__ in ("DPTTemperature", "DPTSwitch", "DPTScaling", "DPT4ByteFloat")]
                    for entry in entries:
                        for response in (False, True) if (thorough or entry is None or isinstance(entry, str)) else (False,):
                            part.evaluations += 1
                            viols = one_case(w, spec, addr, [(payload, entry, response)])
                            ename = "cls:" + entry.__name__ if isinstance(entry, type) else entry
                            for s, d in viols:
                                part.viol(s, d, [list(spec), addr, [[pl(payload), ename, response]]], rank=(1, len(repr(payload)), str(ename)))
                            part.outcomes["violating" if viols else "same"] += 1
                # histories of two telegrams to the same address: first without/with own entry, then with every same-shape entry
                # (first telegram: 3 binary values, 3 one-octet arrays, and for every longer length the all-ones array - a fully valid
                #  structured value that a later partial update is merged into)
                for p1 in ([] if "#" in cn and not thorough else alphabet[:3] + alphabet[7:10] + [a for a in alphabet if isinstance(a, DPTArray) and len(a.value) > 1 and set(a.value) == {0xFF}]):
                    for p2 in alphabet:
                        if type(p1) is not type(p2) or (isinstance(p1, DPTArray) and len(p1.value) != len(p2.value)):
                            continue
                        for entry in dpts_for(p2)[: (None if thorough else 12)]:
                            part.evaluations += 1
                            part.nontrivial += 1
                            viols = one_case(w, spec, addr, [(p1, None, False), (p2, entry, False)])
                            for s, d in viols:
                                part.viol(s, d, [list(spec), addr, [[pl(p1), None, False], [pl(p2), "cls:" + entry.__name__, False]]], rank=(2, len(repr(p2)), entry.__name__))
    finally:
        TC.time = saved
    part.sample([list(spec)])
    part.extra["eager_decoded_cases"] = STATS["eager_decoded"]
    part.extra["eager_refused_cases"] = STATS["eager_refused"]
    STATS["eager_decoded"] = STATS["eager_refused"] = 0
    return part


def queue_worker(si: int, ai: int, seed: int) -> Part:
    """The same differential through the real XKNX consumer (TelegramQueue, callbacks, Devices.process), for matching entries."""
    import logging

    logging.disable(logging.CRITICAL)
    part = Part()
    spec = specs()[si]
    cn, off, as_list = spec
    saved = TC.time
    TC.time = FixedClock()  # type: ignore[assignment]
    try:
        with CoreWorld(rate_limit=0) as w0:
            _probe, used = S.build(w0.xknx, cn, "probe", POOL, off, 1, as_list, with_mode=True)
        for addr in sorted(used)[ai : ai + 1]:
            for payload in payload_alphabet(seed):
                cands = dpts_for(payload)
                for entry in [None] + cands[:: max(1, len(cands) // 6)]:
                    snaps = []
                    for use_table in (True, False):
                        with CoreWorld(rate_limit=0) as w:
                            dev, _u = S.build(w.xknx, cn, "dev", POOL, off, 1, as_list, with_mode=True)
                            w.xknx.devices.async_add(dev)
                            if use_table and entry is not None:
                                w.xknx.group_address_dpt.set({addr: table_entry(entry)})
                            w.start()
                            seen: list[Any] = []
                            w.xknx.telegram_queue.register_telegram_received_cb(lambda t, _s=seen: _s.append(repr(t.payload)))
                            w.incoming(Telegram(mk_addr(addr), payload=GroupValueWrite(payload), source_address=IndividualAddress("1.1.9")))
                            w.run(1.0)
                            out = [repr(t.payload) for _tm, t in w.iface.sent]
                            snaps.append((snapshot(dev), tuple(seen), tuple(out), w.xknx.telegrams._unfinished_tasks))  # noqa: SLF001
                    part.evaluations += 1
                    if snaps[0] != snaps[1]:
                        ename = entry.__name__ if entry is not None else None
                        part.viol(f"queue-path-state-differs:{cn}", f"{cn} at {addr} entry {ename} payload {payload!r}: {snaps[0]} vs {snaps[1]}", [list(spec), addr, [[pl(payload), "cls:" + ename if ename else None, False]], "queue"], rank=(1, str(ename)))
    finally:
        TC.time = saved
    return part


def run(ctx: Ctx) -> None:
    n = len(specs())
    ctx.rule = (
        f"every device class ({len(S.device_classes())}, two address layouts each, Climate with its mode; plus {len(S.variant_names())} non-default configurations: inverted covers / switches / binary sensors, setpoint shift modes with steps 0.5 and 0.25, fan steps, kelvin ranges, other value types) with one distinct group address per address parameter; for EVERY address of the device x "
        f"{len(payload_alphabet(ctx.seed))} payloads (binary values and arrays of length 1,2,3,4,6,8,14 over 7+ fills) x table entry in {{none, unknown name, a named type, EVERY DPT class of the payload's "
        "shape (incl. sub- and super-classes of the remote value's own type), 4 types of other shapes}: the telegram is eager-decoded by the real GroupAddressDPT and processed by one fresh device, and "
        "processed without table by a second fresh device; additionally Sensor / NumericValue / ExposeSensor with EVERY DPT class as value type x EVERY DPT class of the same payload shape as table entry; oracle: decoded_data = the table type's from_knx (or absent), identical outcome and identical device snapshot (every remote value's value, last "
        "payload and stored telegram, simple attributes, derived state). Plus two-telegram histories and the same differential through the real XKNX consumer queue."
    )
    ctx.bounds = {"device_specs": n, "payloads": len(payload_alphabet(ctx.seed)), "dpt_classes": len(all_dpt_classes())}
    units = [(i, a) for i in range(n) for a in range(n_addresses(i))]
    ctx.bounds["device_addresses"] = len(units)
    ctx.pmap(worker, [(i, a, ctx.seed, ctx.thorough) for i, a in units])
    ctx.pmap(queue_worker, [(i, a, ctx.seed) for i, a in units if ctx.thorough or (i + a) % 5 == 0])
    if not ctx.total.extra.get("eager_decoded_cases") and not ctx.total.viols:
        raise RuntimeError("vacuous: no telegram was eager-decoded")
    ctx.pmap(typed_worker, [(d, k, 32, ctx.seed) for d in ("Sensor", "NumericValue", "ExposeSensor") for k in range(32)])


def replay(case: Any) -> list[tuple[str, str]]:
    if case[0] == "typed":
        _t, dev_cls, vtn, p, en = case[:5]
        with CoreWorld(rate_limit=0) as w:
            return typed_case(w, dev_cls, entry_of("cls:" + vtn), unpl(p), entry_of("cls:" + en), entry_of("cls:" + case[5]) if len(case) > 5 else None)
    spec, addr, steps = case[0], case[1], case[2]
    saved = TC.time
    TC.time = FixedClock()  # type: ignore[assignment]
    try:
        with CoreWorld(rate_limit=0) as w:
            return one_case(w, (spec[0], spec[1], spec[2]), addr, [(unpl(p), entry_of(e), r) for p, e, r in steps])
    finally:
        TC.time = saved
