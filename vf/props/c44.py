"""C44 Address programming never creates an address conflict."""

from __future__ import annotations

from ..vloop import texc

import itertools
from typing import Any

from xknx.exceptions import ManagementConnectionError, XKNXException
from xknx.management.procedures.device.dm_authorize import dmp_authorize2_r_co
from xknx.management.procedures.network.nm_individual_address_serial_number_read import nm_individual_address_serial_number_read
from xknx.management.procedures.network.nm_individual_address_serial_number_write import nm_individual_address_serial_number_write
from xknx.management.procedures.network.nm_individual_address_write import nm_individual_address_write
from xknx.telegram import GroupAddress, IndividualAddress, Telegram, apci, tpci as T

from ..runner import Ctx, Part, exc_sig
from ..sim.bus import BEHAVIOURS, BusWorld, Device

TITLE = "address programming"
TARGET = "1.1.5"
ADDRS = [TARGET, "1.1.7", "1.1.8"]
S1, S2 = b"\x00\x01\x02\x03\x04\x05", b"\x00\x01\x02\x03\x04\x06"


def device_configs(behaviours: list[str]) -> list[tuple[str, bool, str]]:
    return [(a, pm, b) for a in ADDRS for pm in (False, True) for b in behaviours]


TIMINGS = ["late", "first-with-con", "all-with-con", "refusals-with-con"]
STALL_POINTS = 10


def run_write(pop: tuple[tuple[str, bool, str], ...], timing: str = "late", first: str | None = None) -> tuple[list[tuple[str, str]], str]:
    """nm_individual_address_write(TARGET) on a bus population; with `first`, an earlier nm_individual_address_write(first) on the
    SAME XKNX object precedes it (what one call leaves behind in Management must not blind the next), and both calls are judged."""
    viols: list[tuple[str, str]] = []
    devs = [Device(f"dev{i}", a, pm, b, serial=bytes((0, 0, 0, 0, 0, i + 1))) for i, (a, pm, b) in enumerate(pop)]
    progs = [d for d in devs if d.prog_mode]
    for d in progs[: 1 if timing == "first-with-con" else len(progs) if timing == "all-with-con" else 0]:
        d.fast = True
    if timing == "refusals-with-con":
        for d in devs:
            d.fast = d.behaviour == "refuse"
    outcome = "?"
    with BusWorld(devs) as w:
        if timing.startswith("stall@"):
            w.stall_at = int(timing[6:])
        for call, target in enumerate(([first] if first else []) + [TARGET]):
            # the population as this call finds it
            cur = tuple((str(d.address), d.prog_mode, d.behaviour) for d in devs)
            before = [str(d.address) for d in devs]
            restarts_before = [d.restarts for d in devs]
            n_sent = len(w.sent)
            t = w.spawn(nm_individual_address_write(w.xknx, target), name="harness-user")
            w.loop.run_until(w.loop.time() + 60)
            if not t.done():
                return [("procedure-hangs", f"nm_individual_address_write not finished after 60 s; population={devs}")], "hang"
            exc = texc(t)
            outcome = "ok" if exc is None else type(exc).__name__
            if exc is not None and not isinstance(exc, XKNXException):
                viols.append((exc_sig("procedure-escape", exc), f"{exc!r}; population={cur}"))
            sent = [tg for _t, tg in w.sent[n_sent:]]
            writes = [tg for tg in sent if isinstance(tg.payload, apci.IndividualAddressWrite)]
            restarts = [tg for tg in sent if isinstance(tg.payload, apci.Restart)]
            # reference, from the statement.  A device that never reacts to a connection attempt is indistinguishable from an absent one.
            prog = [i for i, (a, pm, b) in enumerate(cur) if pm]
            holders = [i for i, (a, pm, b) in enumerate(cur) if a == target and b != "silent"]
            hist = f" after an earlier nm_individual_address_write({first}) on the same XKNX object" if call else ""
            ctxs = (f"nm_individual_address_write({target}){hist}: population={cur} answers={timing} outcome={outcome} writes={[str(tg.payload.address) for tg in writes]} "
                    f"restarts to {[str(tg.destination_address) for tg in restarts]} addresses after={[str(d.address) for d in devs]}")
            tag = ":second-call" if call else ""
            if writes:
                if len(prog) != 1:
                    viols.append((f"address-written-with-{len(prog)}-devices-in-programming-mode{tag}", ctxs))
                others = [i for i in holders if i not in prog]
                if others:
                    kinds = sorted({cur[i][2] for i in others})
                    viols.append((f"address-written-although-occupied:{'+'.join(kinds)}{tag}", ctxs))
                if any(tg.payload.address != IndividualAddress(target) for tg in writes):
                    viols.append((f"wrong-address-written{tag}", ctxs))
            for tg in restarts:
                if tg.destination_address != IndividualAddress(target):
                    viols.append((f"restart-sent-to-other-address{tag}", ctxs))
            # only devices that answer at the target address can be hit by the restart (with an address conflict that existed before,
            # every device sharing the address receives it - the procedure cannot tell them apart)
            for d, r0 in zip(devs, restarts_before):
                if d.restarts > r0 and str(d.address) != target:
                    viols.append((f"device-at-other-address-restarted{tag}", ctxs))
            # the outcome the statement is about: no new address conflict among devices that are present
            after = [str(d.address) for d in devs]
            live = [i for i, (a, pm, b) in enumerate(cur) if b != "silent"]
            dup_after = {a for a in after if sum(1 for i in live if after[i] == a) > 1}
            dup_before = {a for a in before if sum(1 for i in live if before[i] == a) > 1}
            if dup_after - dup_before:
                viols.append((f"address-conflict-created{tag}", ctxs))
            if exc is None:
                # success means: the one device in programming mode now has the address, and it was restarted
                if len(prog) != 1 or after[prog[0]] != target:
                    viols.append((f"success-reported-without-programmed-device{tag}", ctxs))
            for name, e in [(n, e) for n, e in w.loop.task_failures() if not n.startswith("harness-")]:
                if isinstance(e, XKNXException):
                    continue   # a fire-and-forget T_ACK / T_Disconnect whose link-layer confirmation never came: a declared error, not C44's subject
                viols.append((exc_sig("task-exception", e), f"{name}: {e!r}; {ctxs}"))
    seen: set[str] = set()
    return [(s, d) for s, d in viols if not (s in seen or seen.add(s))], outcome


def run_serial(case: tuple[Any, ...]) -> tuple[list[tuple[str, str]], str]:
    """(operation, device serials/addresses, requested serial, stray response kind)"""
    op, devspec, want_serial, stray = case[:4]
    timing = case[4] if len(case) > 4 else "late"
    viols: list[tuple[str, str]] = []
    devs = [Device(f"dev{i}", a, False, "normal", serial=s) for i, (s, a) in enumerate(devspec)]
    for d in devs:
        d.fast = timing != "late"
    with BusWorld(devs) as w:
        if stray != "none":
            other_serial = S2 if want_serial == S1 else S1
            src = "1.1.20" if stray != "stray-from-target-address" else "1.1.9"

            def fac() -> Telegram:
                return Telegram(destination_address=GroupAddress("0/0/0"), source_address=IndividualAddress(src), tpci=T.TDataBroadcast(),
                                payload=apci.IndividualAddressSerialResponse(serial=other_serial, address=IndividualAddress(src)))

            w.stray.append(("IndividualAddressSerialRead", fac))
            if stray == "stray-address-response":
                w.stray.append(("IndividualAddressSerialRead", lambda: Telegram(destination_address=GroupAddress("0/0/0"), source_address=IndividualAddress("1.1.21"), tpci=T.TDataBroadcast(), payload=apci.IndividualAddressResponse())))
        before = {d.name: str(d.address) for d in devs}
        if op == "read":
            t = w.spawn(nm_individual_address_serial_number_read(w.xknx, want_serial), name="harness-user")
        else:
            t = w.spawn(nm_individual_address_serial_number_write(w.xknx, want_serial, "1.1.9"), name="harness-user")
        w.loop.run_until(w.loop.time() + 30)
        if not t.done():
            return [("serial-procedure-hangs", f"{case}")], "hang"
        exc = texc(t)
        outcome = "ok" if exc is None else type(exc).__name__
        owners = [d for d in devs if d.serial == want_serial]
        ctxs = f"op={op} devices={[(d.serial.hex(), before[d.name]) for d in devs]} requested={want_serial.hex()} stray={stray} answers={timing} outcome={outcome} result={t.result() if exc is None else exc!r} after={[str(d.address) for d in devs]}"
        if exc is not None and not isinstance(exc, XKNXException):
            viols.append((exc_sig("serial-procedure-escape", exc), ctxs))
        if op == "read" and exc is None:
            want = owners[0].address if owners else None
            if t.result() != want:
                viols.append(("serial-read-returns-other-device", ctxs))
        if op == "write":
            for d in devs:
                if d.serial != want_serial and str(d.address) != before[d.name]:
                    viols.append(("serial-write-changed-other-device", ctxs))
            ok = bool(owners) and str(owners[0].address) == "1.1.9"
            if (exc is None) != ok:
                viols.append(("serial-write-success-wrong" if exc is None else "serial-write-fails-although-written", ctxs))
    return viols, outcome


def run_authorize(free: int, client: int) -> list[tuple[str, str]]:
    viols: list[tuple[str, str]] = []
    dev = Device("dev", "1.1.5", False, "normal", levels=(free, client))
    with BusWorld([dev]) as w:
        res: dict[str, Any] = {}

        async def user() -> None:
            async with w.xknx.management.connection(IndividualAddress("1.1.5")) as conn:
                res["level"] = await dmp_authorize2_r_co(conn, w.client_key)
                res["device_level_then"] = dev.level

        t = w.spawn(user(), name="harness-user")
        w.loop.run_until(w.loop.time() + 60)
        if not t.done() or texc(t) is not None:
            return [("authorize-fails", f"free={free} client={client}: {texc(t) if t.done() else 'hangs'!r}")]
        if res["level"] != min(free, client):
            viols.append(("authorize2-does-not-return-the-better-level", f"free={free} client={client}: returned {res['level']}"))
        if res["device_level_then"] != res["level"]:
            viols.append(("authorize2-leaves-device-at-worse-level", f"free={free} client={client}: returned {res['level']} but the device is at level {res['device_level_then']}"))
    return viols


def write_cases(thorough: bool) -> list[tuple[tuple[tuple[str, bool, str], ...], str, str | None]]:
    out: list[tuple[tuple[tuple[str, bool, str], ...], str, str | None]] = []
    for pop in write_pops(thorough):
        nprog = sum(1 for _a, pm, _b in pop if pm)
        # response timing relative to the client's L_Data.con matters only for devices that answer the broadcast read
        for timing in TIMINGS[: 1 if nprog == 0 else 2 if nprog == 1 else 3]:
            out.append((pop, timing, None))
        if any(b == "refuse" for _a, _pm, b in pop):
            out.append((pop, "refusals-with-con", None))
        # the link stalls for 4 s at the k-th frame the client sends (its confirmation - and the frame itself - come late)
        if 1 <= len(pop) <= (3 if thorough else 2) and nprog >= 1:
            for k in range(STALL_POINTS):
                out.append((pop, f"stall@{k}", None))
        # history: an earlier call on the same XKNX object, to each pool address (populations of <= 2 devices, thorough 3)
        if 1 <= len(pop) <= (3 if thorough else 2):
            for first in ADDRS:
                out.append((pop, "late", first))
    return out


OWN = "1.1.250"   # the client's own individual address (sim/bus.py CLIENT): a device may be configured with the same one


def write_pops(thorough: bool) -> list[tuple[tuple[str, bool, str], ...]]:
    full = device_configs(BEHAVIOURS)
    own = [(OWN, pm, b) for pm in (False, True) for b in ("normal", "refuse", "silent")]
    red = device_configs(["normal", "silent", "nak-on-data"])
    out: list[tuple[tuple[str, bool, str], ...]] = [()]
    out += [(a,) for a in full]
    out += list(itertools.product(full, repeat=2))
    out += list(itertools.product(full, repeat=3))
    # a device that shares the client's own address (alone and next to every other device configuration, both orders)
    out += [(a,) for a in own] + [(a, b) for a in own for b in full] + [(b, a) for a in own for b in full]
    if thorough:
        out += list(itertools.product(red, repeat=4))
    return out


def serial_cases() -> list[tuple[Any, ...]]:
    out = []
    devsets = [(), ((S1, "1.1.7"),), ((S2, "1.1.7"),), ((S1, "1.1.7"), (S2, "1.1.8")), ((S2, "1.1.8"), (S1, "1.1.7")), ((S2, "1.1.9"),), ((S1, "1.1.9"), (S2, "1.1.8"))]
    for op in ("read", "write"):
        for ds in devsets:
            for want in (S1, S2):
                for stray in ("none", "stray-other-serial", "stray-from-target-address", "stray-address-response"):
                    for timing in ("late", "with-con"):
                        out.append((op, ds, want, stray, timing))
    return out


def worker(k: int, n: int, thorough: bool) -> Part:
    import logging

    logging.disable(logging.CRITICAL)
    part = Part()
    wc = write_cases(thorough)
    for i in range(k, len(wc), n):
        pop, timing, first = wc[i]
        viols, outcome = run_write(pop, timing, first)
        part.evaluations += 1
        part.traces += 1
        part.outcomes["write:" + outcome] += 1
        if len(pop) > 1:
            part.nontrivial += 1
        for s, d in viols:
            part.viol(s, d, ["write", [list(x) for x in pop], timing, first], rank=(len(pop), first is not None, TIMINGS.index(timing) if timing in TIMINGS else 9, i))
        if i < 2:
            part.sample(["write", [list(x) for x in pop], timing, first])
    sc = serial_cases()
    for i in range(k, len(sc), n):
        viols, outcome = run_serial(sc[i])
        part.evaluations += 1
        part.outcomes[f"serial-{sc[i][0]}:" + outcome] += 1
        for s, d in viols:
            part.viol(s, d, ["serial", sc[i][0], [[s_.hex(), a] for s_, a in sc[i][1]], sc[i][2].hex(), sc[i][3], sc[i][4]], rank=(len(sc[i][1]), i))
    levels = [(f, c) for f in range(16) for c in range(16)]
    for i in range(k, len(levels), n):
        viols = run_authorize(*levels[i])
        part.evaluations += 1
        part.outcomes["authorize"] += 1
        for s, d in viols:
            part.viol(s, d, ["authorize", levels[i][0], levels[i][1]], rank=levels[i])
    return part


def run(ctx: Ctx) -> None:
    wc = write_cases(ctx.thorough)
    ctx.rule = (
        f"the real management procedures over real Management/P2PConnection/CEMIHandler on the virtual loop against a simulated bus of devices (address in {ADDRS}, programming mode on/off, behaviour in "
        f"{BEHAVIOURS}): nm_individual_address_write(1.1.5) on ALL populations of 0..3 devices over all 30 device configurations"
        f"{' and all 4-device populations over 3 behaviours' if ctx.thorough else ''} x the timing of the devices' answers to the broadcast read (after the client's L_Data.con, or the first / all answers in the same read as the confirmation, i.e. handled before send_broadcast returns) and, for populations of <= 2 (thorough 3) devices, the same call preceded by an nm_individual_address_write to each pool address on the SAME XKNX object (both calls judged), and - populations of <= 2 (thorough 3) devices with one in programming mode - a link that stalls for 4 s at the k-th frame the client sends, k = 0..9 (confirmation and frame late) ({len(wc)} runs); the serial-number read/write procedures on 7 bus populations x requested serial x stray responses x answer timing (another serial, from the target "
        "address, an address response); dmp_authorize2_r_co over ALL 16x16 (free, client) access levels. Oracle: IndividualAddressWrite is broadcast only with exactly one device in programming mode and no "
        "other present device holding the address (a device that never reacts to a connection attempt counts as absent); restarts go only to the target address; no address conflict is created; success only "
        "with the programmed device at the address; serial procedures follow only the requested serial; authorize2 returns min(free, client) and leaves the device at that level."
    )
    ctx.bounds = {"write_buses": len(wc), "serial_cases": len(serial_cases()), "authorize_cases": 256}
    ctx.pmap(worker, [(k, 128, ctx.thorough) for k in range(128)])


def replay(case: Any) -> list[tuple[str, str]]:
    if case[0] == "write":
        return run_write(tuple(tuple(x) for x in case[1]), case[2] if len(case) > 2 else "late", case[3] if len(case) > 3 else None)[0]
    if case[0] == "serial":
        return run_serial((case[1], tuple((bytes.fromhex(s), a) for s, a in case[2]), bytes.fromhex(case[3]), case[4], case[5] if len(case) > 5 else "late"))[0]
    return run_authorize(case[1], case[2])
