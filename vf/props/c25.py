"""C25 Connection lifecycle stays consistent under any failure schedule."""

from __future__ import annotations

from ..vloop import texc

import asyncio
from typing import Any

from xknx import XKNX
from xknx.core import XknxConnectionState
from xknx.io.tunnel import SecureTunnel, TCPTunnel, UDPTunnel
from xknx.knxip import (
    ConnectionStateRequest,
    ConnectionStateResponse,
    ConnectRequest,
    DisconnectRequest,
    DisconnectResponse,
    ErrorCode,
    TunnellingAck,
    TunnellingRequest,
)

from ..explore import Chooser, explore, finalize_states, replay_schedule
from ..runner import Ctx
from ..sim.gateway import GW_ADDR, Gateway
from ..sim.secure_gateway import PatchCrypto, SecureServer
from ..vloop import World
from .c24 import make_cemi

TITLE = "connection lifecycle"

HB_OPTS = ["hb-ok", "hb-error(E_CONNECTION_ID)", "hb-no-answer"]
CONN_OPTS = ["connect-ok", "connect-refused", "connect-no-answer", "connect-ok+immediate-server-disconnect"]
DISC_OPTS = ["disconnect-response", "no-disconnect-response"]
ACK_OPTS = ["ack-ok", "no-ack"]
# events the environment may inject at a quiescent point (option 0 = let time pass to the next timer)
Q_EVENTS = ["next-timer", "server-disconnect(own-channel)", "server-disconnect(other-channel)", "user-send", "user-disconnect", "out-of-order-frame", "transport-lost", "+0.5s"]
# events injectable between two loop iterations while tasks are still runnable
I_EVENTS = ["-", "server-disconnect(own-channel)", "transport-lost", "out-of-order-frame"]


class SecureGw:
    """Gateway-shaped front of the simulated secure server: the scenario sees and sends the frames inside the wrappers."""

    def __init__(self, loop: Any) -> None:
        self.plain = Gateway(loop)  # only used to build ConnectResponse bodies
        self.srv = SecureServer(loop)
        self.connect_response = self.plain.connect_response

    @property
    def tr(self) -> Any:
        return self.srv.tr

    @property
    def handler(self) -> Any:
        return self.srv.inner_handler

    @handler.setter
    def handler(self, fn: Any) -> None:
        self.srv.inner_handler = fn

    def send(self, body: Any) -> None:
        if self.srv.key is not None:
            self.srv.send(body)

    @property
    def raw_log(self) -> list[tuple[float, bytes]]:
        from xknx.knxip import KNXIPFrame

        out = []
        for t, kind, _seq, body in self.srv.client_writes:
            out.append((t, KNXIPFrame.init_from_body(body).to_knx() if kind != "bad-wrapper" else bytes(body)))
        return out


def make(kind: str, auto_reconnect: bool, steps: int, iter_injection: bool, family: str = ""):
    """family '' = a well-behaved gateway to start with; 'lost' = the session starts with a server disconnect (free), so the
    deviation budget is spent on what happens during and after the reconnect; 'silent' = the gateway stops answering right
    after the tunnel is up (free): heartbeat failure, reconnect attempts and the user's reactions are explored in depth."""
    tcp = kind in ("tcp", "secure")

    def scenario(ch: Chooser) -> list[tuple[str, str]]:
        if kind == "secure":
            with PatchCrypto():
                return _scenario(ch)
        return _scenario(ch)

    def _scenario(ch: Chooser) -> list[tuple[str, str]]:
        viols: list[tuple[str, str]] = []
        with World() as w:
            loop = w.loop
            gw: Any = SecureGw(loop) if kind == "secure" else Gateway(loop)
            st: dict[str, Any] = {"next_channel": 7, "log": [], "connects": 0, "last_channel": None}

            mode: dict[str, int] = {"connect": 0, "heartbeat": 0, "disconnect": 0, "ack": 0}
            if family == "silent":
                mode.update({"connect": 2, "heartbeat": 2, "disconnect": 1, "ack": 1})

            def gateway_choice(kind: str, n: int) -> int:
                """The gateway keeps behaving as it last did for free; a CHANGE of its behaviour costs one deviation
                (so 'stops answering heartbeats' is one deviation, not four)."""
                cur = mode[kind]
                order = [cur] + [o for o in range(n) if o != cur]
                c = order[ch.choose(kind, n)]
                mode[kind] = c
                return c

            def handler(body: Any) -> None:
                now = loop.time()
                if isinstance(body, ConnectRequest):
                    c = 0 if st["connects"] == 0 else gateway_choice("connect", len(CONN_OPTS))
                    st["connects"] += 1
                    st["log"].append((now, "ConnectRequest", CONN_OPTS[c]))
                    if c in (0, 3):
                        chan = st["next_channel"]
                        st["next_channel"] += 1
                        st["last_channel"] = chan
                        gw.send(gw.connect_response(chan, tcp=tcp))
                        if c == 3:
                            gw.send(DisconnectRequest(chan))
                    elif c == 1:
                        gw.send(gw.connect_response(0, status=ErrorCode.E_NO_MORE_CONNECTIONS, tcp=tcp))
                elif isinstance(body, ConnectionStateRequest):
                    c = gateway_choice("heartbeat", len(HB_OPTS))
                    st["log"].append((now, "ConnectionStateRequest", HB_OPTS[c]))
                    if c == 0:
                        gw.send(ConnectionStateResponse(body.communication_channel_id))
                    elif c == 1:
                        gw.send(ConnectionStateResponse(body.communication_channel_id, ErrorCode.E_CONNECTION_ID))
                elif isinstance(body, DisconnectRequest):
                    c = gateway_choice("disconnect", len(DISC_OPTS))
                    st["log"].append((now, "DisconnectRequest", body.communication_channel_id, DISC_OPTS[c]))
                    if c == 0:
                        gw.send(DisconnectResponse(body.communication_channel_id))
                elif isinstance(body, TunnellingRequest):
                    st["log"].append((now, "TunnellingRequest", body.communication_channel_id, body.sequence_counter))
                    if tcp:
                        return
                    c = gateway_choice("ack", len(ACK_OPTS))
                    if c == 0:
                        gw.send(TunnellingAck(body.communication_channel_id, body.sequence_counter))
                elif isinstance(body, (TunnellingAck, DisconnectResponse)):
                    st["log"].append((now, type(body).__name__))
                else:
                    st["log"].append((now, type(body).__name__))

            gw.handler = handler
            cb_logs: list[list[Any]] = [[], []]
            xknx = XKNX()
            xknx.connection_manager.register_connection_state_changed_cb(lambda s: cb_logs[0].append(s))
            xknx.connection_manager.register_connection_state_changed_cb(lambda s: cb_logs[1].append(s))
            if kind == "secure":
                tunnel: Any = SecureTunnel(xknx, lambda raw: None, gateway_ip=GW_ADDR[0], gateway_port=GW_ADDR[1], user_id=2, user_password="secret",
                                           device_authentication_password="trustme", auto_reconnect=auto_reconnect, auto_reconnect_wait=3)
            elif tcp:
                tunnel = TCPTunnel(xknx, lambda raw: None, gateway_ip=GW_ADDR[0], gateway_port=GW_ADDR[1], auto_reconnect=auto_reconnect, auto_reconnect_wait=3)
            else:
                tunnel = UDPTunnel(xknx, lambda raw: None, gateway_ip=GW_ADDR[0], gateway_port=GW_ADDR[1], local_ip="192.168.1.2", auto_reconnect=auto_reconnect, auto_reconnect_wait=3)
            t0 = w.spawn(tunnel.connect(), name="harness-connect")
            loop.settle()
            if not (t0.done() and texc(t0) is None):
                return [("harness:connect-failed", repr(t0))]
            harness_tasks: list[asyncio.Task[Any]] = [t0]
            user: dict[str, Any] = {"disconnected_at": None, "disconnect_called": False, "sends": 0, "frames_at_disconnect": None}
            events: list[Any] = []

            def reconnect_tasks() -> int:
                n = 0
                for t in loop.tasks:
                    if not t.done():
                        co = t.get_coro()
                        if getattr(co, "__qualname__", "").endswith("._reconnect"):
                            n += 1
                return n

            def check_invariants(where: str) -> None:
                n = reconnect_tasks()
                if n > 1:
                    viols.append(("two-reconnect-tasks", f"{n} tasks run _reconnect at {where} t={loop.time()}; events={events} log={st['log']}"))
                for a, b in zip(cb_logs[0], cb_logs[0][1:]):
                    if a == b:
                        viols.append(("state-callback-repeats-state", f"callback saw {a} twice in a row; events={events}"))
                        break
                if cb_logs[0] != cb_logs[1]:
                    viols.append(("state-callbacks-disagree", f"{cb_logs}; events={events}"))

            def check_quiescent(where: str) -> None:
                state = xknx.connection_manager.state
                chan = tunnel.communication_channel
                transport_open = tunnel.transport.transport is not None
                if state is XknxConnectionState.CONNECTED and (chan is None or not transport_open):
                    viols.append(("connected-without-connection", f"state CONNECTED at quiescent point {where} t={loop.time()} with channel={chan} transport_open={transport_open} reconnect_tasks={reconnect_tasks()}; events={events} log={st['log']}"))
                if cb_logs[0] and cb_logs[0][-1] != state:
                    viols.append(("callbacks-missed-a-change", f"state is {state} but the last callback value is {cb_logs[0][-1]}; events={events}"))
                if user["disconnected_at"] is not None and state is not XknxConnectionState.DISCONNECTED:
                    viols.append(("state-after-user-disconnect", f"state {state} after disconnect() returned; events={events}"))

            async def do_send(i: int) -> None:
                try:
                    await tunnel.send_cemi(make_cemi(i))
                except Exception:  # noqa: BLE001
                    pass

            async def do_disconnect() -> None:
                await tunnel.disconnect()
                user["disconnected_at"] = loop.time()
                user["frames_at_disconnect"] = len(gw.raw_log)

            def inject(ev: str) -> None:
                events.append((round(loop.time(), 3), ev))
                chan = tunnel.communication_channel if tunnel.communication_channel is not None else st["last_channel"]
                if ev == "server-disconnect(own-channel)":
                    if gw.tr is not None and not gw.tr.closed:
                        gw.send(DisconnectRequest(chan))
                elif ev == "server-disconnect(other-channel)":
                    if gw.tr is not None and not gw.tr.closed:
                        gw.send(DisconnectRequest(99))
                elif ev == "user-send":
                    harness_tasks.append(w.spawn(do_send(user["sends"]), name="harness-send"))
                    user["sends"] += 1
                elif ev == "user-disconnect":
                    user["disconnect_called"] = True
                    harness_tasks.append(w.spawn(do_disconnect(), name="harness-disconnect"))
                elif ev == "out-of-order-frame":
                    if gw.tr is not None and not gw.tr.closed:
                        gw.send(TunnellingRequest(chan, 200, bytes.fromhex("2900bcd011010901010081")))
                elif ev == "transport-lost":
                    if tcp and gw.tr is not None and not gw.tr.closed:
                        gw.tr.lose(ConnectionResetError("peer reset"))

            def settle_with_injection() -> None:
                """Run to quiescence; between iterations the environment may inject (cost 1)."""
                guard = 0
                while loop._ready:
                    loop.run_iteration()
                    check_invariants("iteration boundary")
                    guard += 1
                    if guard > 5000:
                        viols.append(("livelock", f"ready queue never drains; events={events}"))
                        return
                    # (also while the user's disconnect() is still waiting for its DisconnectResponse)
                    if iter_injection and loop._ready and (not user["disconnect_called"] or user["disconnected_at"] is None) and ch.spent < 3:
                        opts = I_EVENTS[:3] if tcp else I_EVENTS[:2] + I_EVENTS[3:]
                        c = ch.choose("iter", len(opts))
                        if c:
                            inject(opts[c])

            if family == "lost":
                inject("server-disconnect(own-channel)")
            for step in range(steps):
                settle_with_injection()
                check_invariants("quiescent")
                check_quiescent(f"step {step}")
                ch.state((xknx.connection_manager.state.name, tunnel.communication_channel is not None, reconnect_tasks(), user["disconnect_called"], len(loop.live_tasks())))
                if user["disconnect_called"] and user["disconnected_at"] is None:
                    # disconnect() is waiting for the gateway's DisconnectResponse: the environment goes on
                    opts = ["next-timer", "server-disconnect(own-channel)"] + (["transport-lost"] if tcp else ["out-of-order-frame"])
                elif user["disconnect_called"]:
                    opts = ["next-timer"]
                elif family == "silent":
                    opts = ["next-timer", "user-disconnect", "user-send"] + (["transport-lost"] if tcp else [])
                else:
                    opts = [e for e in Q_EVENTS if (e != "transport-lost" or tcp) and (e != "out-of-order-frame" or not tcp)]
                c = ch.choose("q", len(opts)) if len(opts) > 1 else 0
                ev = opts[c]
                if ev == "next-timer":
                    events.append((round(loop.time(), 3), "next-timer"))
                    if not loop.advance_next():
                        break
                elif ev == "+0.5s":
                    events.append((round(loop.time(), 3), "+0.5s"))
                    loop.advance_to(loop.time() + 0.5)
                else:
                    inject(ev)
            settle_with_injection()
            # after the user disconnected: drain everything; nothing may be sent and nothing may stay alive
            if user["disconnect_called"]:
                loop.run_until(loop.time() + 400)
                if user["disconnected_at"] is not None and ch.choose("send-after-disconnect", 2, [0, 0]):
                    # the user keeps using the object: the call has to fail without anything reaching the wire
                    events.append((round(loop.time(), 3), "user-send-after-disconnect"))
                    harness_tasks.append(w.spawn(do_send(99), name="harness-send"))
                    loop.run_until(loop.time() + 400)
                if user["disconnected_at"] is None:
                    viols.append(("disconnect-never-returns", f"disconnect() still pending 400 s later; events={events} log={st['log']}"))
                else:
                    late = gw.raw_log[user["frames_at_disconnect"]:]
                    if late:
                        from xknx.knxip import KNXIPFrame

                        names = []
                        for _, raw in late:
                            try:
                                names.append(type(KNXIPFrame.from_knx(raw)[0].body).__name__)
                            except Exception:  # noqa: BLE001
                                names.append("?")
                        viols.append((f"sent-after-user-disconnect:{names[0]}", f"frames sent after disconnect() returned: {names}; events={events}"))
                    alive = [t for t in loop.live_tasks() if t not in harness_tasks or t.get_name() == "harness-send"]
                    alive = [t for t in alive if t.get_name() != "harness-send"]
                    if alive:
                        viols.append(("task-alive-after-user-disconnect", f"{[(t.get_name(), getattr(t.get_coro(), '__qualname__', '?')) for t in alive]}; events={events}"))
                    check_quiescent("after user disconnect")
            else:
                check_quiescent("end")
            check_invariants("end")
            for name, exc in loop.task_failures():
                if name.startswith("harness-"):
                    viols.append((f"user-call-raised:{name}:{type(exc).__name__}", f"{exc!r}; events={events}"))
                else:
                    viols.append((f"task-exception:{type(exc).__name__}", f"{name}: {exc!r}; events={events}"))
            for c in loop.exceptions:
                viols.append(("loop-exception", repr(c)[:300] + f"; events={events}"))
            ch.notes.append(f"{xknx.connection_manager.state.name},{'chan' if tunnel.communication_channel is not None else 'nochan'},connects={st['connects']}")
        # one signature once
        seen = set()
        out = []
        for s, d in viols:
            if s not in seen:
                seen.add(s)
                out.append((s, d))
        return out

    return scenario


R_EVENTS = ["connect", "connect(OSError)", "disconnect", "send", "busy(100)", "+0.05s", "+1s"]


def routing_case(seq: tuple[int, ...], secure: bool) -> list[tuple[str, str]]:
    """Routing / SecureRouting lifecycle: all sequences of connect / failing connect / disconnect / send / busy frame / time."""
    from xknx.io.routing import Routing, SecureRouting
    from xknx.io.transport.udp_transport import UDPTransport
    from xknx.knxip import KNXIPFrame, RoutingBusy

    class FakeSock:
        sockname = ("224.0.23.12", 3671)

    viols: list[tuple[str, str]] = []
    saved_sock = UDPTransport.__dict__["create_multicast_sock"]
    UDPTransport.create_multicast_sock = staticmethod(lambda own_ip, remote_addr: FakeSock())  # type: ignore[method-assign]
    try:
        with World() as w:
            loop = w.loop
            loop._vtime = 1000.0  # noqa: SLF001
            xknx = XKNX()
            cb_logs: list[list[Any]] = [[], []]
            xknx.connection_manager.register_connection_state_changed_cb(lambda st: cb_logs[0].append(st))
            xknx.connection_manager.register_connection_state_changed_cb(lambda st: cb_logs[1].append(st))
            if secure:
                r: Any = SecureRouting(xknx, None, lambda raw: None, local_ip="192.168.1.2", backbone_key=bytes(range(16)), latency_ms=1000)
            else:
                r = Routing(xknx, None, lambda raw: None, local_ip="192.168.1.2")
            established = False
            trace: list[str] = []
            sends = 0
            fail = {"on": False}
            loop.udp_connect_error = lambda: OSError("network unreachable") if fail["on"] else None
            for ei in seq:
                ev = R_EVENTS[ei]
                trace.append(ev)
                n_frames = sum(len(e.sent) for e in loop.datagram_endpoints)
                if ev.startswith("connect"):
                    fail["on"] = ev.endswith("(OSError)")
                    t = w.spawn(r.connect(), name="harness-connect")
                    loop.run_until(loop.time() + 5.0)
                    if not t.done():
                        viols.append(("routing-connect-hangs", f"trace={trace}"))
                        break
                    if texc(t) is None:
                        established = True
                    else:
                        established = False
                        if not fail["on"]:
                            viols.append((f"routing-connect-raises:{type(texc(t)).__name__}", f"{texc(t)!r}; trace={trace}"))
                elif ev == "disconnect":
                    t = w.spawn(r.disconnect(), name="harness-disconnect")
                    loop.settle()
                    if not t.done() or texc(t) is not None:
                        viols.append(("routing-disconnect-fails", f"{t!r}; trace={trace}"))
                    established = False
                elif ev == "send":
                    async def do_send(i: int) -> None:
                        try:
                            await r.send_cemi(make_cemi(i))
                        except Exception:  # noqa: BLE001
                            pass

                    w.spawn(do_send(sends), name="harness-send")
                    sends += 1
                    loop.settle()
                elif ev == "busy(100)":
                    if r.transport.transport is not None and not secure:
                        r.transport.data_received_callback(KNXIPFrame.init_from_body(RoutingBusy(wait_time=100)).to_knx(), ("192.168.1.77", 3671))
                else:
                    loop.run_until(loop.time() + float(ev[1:-1]))
                loop.settle()
                state = xknx.connection_manager.state
                ctxs = f"{'secure ' if secure else ''}routing trace={trace} callbacks={[c.name for c in cb_logs[0]]}"
                if (state is XknxConnectionState.CONNECTED) != established:
                    viols.append(("routing-state-differs-from-connection", f"state {state.name}, connection established={established}; {ctxs}"))
                if cb_logs[0] != cb_logs[1]:
                    viols.append(("state-callbacks-disagree", ctxs))
                if any(a == b for a, b in zip(cb_logs[0], cb_logs[0][1:])):
                    viols.append(("state-callback-repeats-state", ctxs))
                if cb_logs[0] and cb_logs[0][-1] != state:
                    viols.append(("callbacks-missed-a-change", ctxs))
            # after the last event: if disconnected, nothing more is sent and nothing of the connection stays alive
            before = sum(len(e.sent) + len(e.sent_after_close) for e in loop.datagram_endpoints)
            loop.run_until(loop.time() + 30.0)
            after = sum(len(e.sent) + len(e.sent_after_close) for e in loop.datagram_endpoints)
            ctxs = f"{'secure ' if secure else ''}routing trace={trace}"
            if not established:
                if after != before:
                    viols.append(("routing-sends-while-disconnected", f"{after - before} frames written in the 30 s after the last event; {ctxs}"))
                alive = [t for t in loop.live_tasks() if not t.get_name().startswith("harness-")]
                if alive:
                    viols.append(("routing-task-alive-while-disconnected", f"{[(t.get_name(), getattr(t.get_coro(), '__qualname__', '?')) for t in alive]}; {ctxs}"))
            for name, exc in loop.task_failures():
                if not name.startswith("harness-"):
                    viols.append((f"task-exception:{type(exc).__name__}", f"{name}: {exc!r}; {ctxs}"))
            for c in loop.exceptions:
                # a send attempted while not connected fails with CommunicationError inside SecureRouting's timer callback:
                # nothing reaches the wire, which is what the property asks; other exceptions are reported
                from xknx.exceptions import CommunicationError

                if not isinstance(c.get("exception"), CommunicationError):
                    viols.append(("loop-exception", repr(c)[:300] + f"; {ctxs}"))
    finally:
        UDPTransport.create_multicast_sock = saved_sock  # type: ignore[method-assign]
    seen: set[str] = set()
    return [(a, b) for a, b in viols if not (a in seen or seen.add(a))]


def routing_worker(k: int, n: int, depth: int) -> Any:
    import itertools
    import logging

    from ..runner import Part

    logging.disable(logging.CRITICAL)
    part = Part()
    i = 0
    for secure in (False, True):
        for d in range(1, depth + 1):
            for seq in itertools.product(range(len(R_EVENTS)), repeat=d):
                i += 1
                if i % n != k:
                    continue
                viols = routing_case(seq, secure)
                part.evaluations += 1
                part.traces += 1
                part.transitions += len(seq)
                part.outcomes["routing:" + ("violating" if viols else "ok")] += 1
                for sig, detail in viols:
                    part.viol(sig, detail, {"scenario": "routing", "seq": list(seq), "secure": secure}, rank=(len(seq), seq))
    return part


CM_EVENTS = ["report-DISCONNECTED", "report-CONNECTING", "report-CONNECTED", "main-loop-iteration"]


def cm_case(seq: tuple[int, ...], registered: bool) -> list[tuple[str, str]]:
    """The ConnectionManager alone, with and without a registered main loop (the thread-safe hand-off used by the threaded
    interface): state reports may pile up before the main loop runs.  After the loop has run, the state is the last reported
    one, every callback has seen each real transition once, in order, and `connected` is set exactly in state CONNECTED."""
    from xknx.core import XknxConnectionState
    from xknx.core.connection_manager import ConnectionManager

    states = [XknxConnectionState.DISCONNECTED, XknxConnectionState.CONNECTING, XknxConnectionState.CONNECTED]
    viols: list[tuple[str, str]] = []
    with World() as w:
        cm = ConnectionManager()
        seen1: list[Any] = []
        seen2: list[Any] = []
        cm.register_connection_state_changed_cb(seen1.append)
        cm.register_connection_state_changed_cb(seen2.append)
        if registered:
            t = w.spawn(cm.register_loop())
            w.loop.settle()
            assert t.done()
        reported: list[Any] = []

        def check(when: str) -> None:
            want: list[Any] = []
            cur = XknxConnectionState.DISCONNECTED
            for st in reported:
                if st != cur:
                    want.append(st)
                    cur = st
            ctxs = f"{'registered main loop' if registered else 'no main loop'}; events={[CM_EVENTS[e] for e in seq]}; {when}: reported={[s.name for s in reported]} callback saw {[s.name for s in seen1]} state={cm.state.name} connected={cm.connected.is_set()}"
            if seen1 != seen2:
                viols.append(("connection-manager:callbacks-disagree", ctxs))
            if cm.state != cur:
                viols.append(("connection-manager:state-differs-from-last-report", ctxs))
            elif seen1 != want:
                kind = "repeated-state" if any(a == b for a, b in zip(seen1, seen1[1:])) else "transition-lost" if len(seen1) < len(want) else "callback-sequence-wrong"
                viols.append((f"connection-manager:{kind}", ctxs + f" reference {[s.name for s in want]}"))
            if cm.connected.is_set() != (cm.state == XknxConnectionState.CONNECTED):
                viols.append(("connection-manager:connected-event-wrong", ctxs))

        for e in seq:
            if e < 3:
                reported.append(states[e])
                cm.connection_state_changed(states[e])
                if not registered:
                    check("after a report")
            else:
                w.loop.settle()
                check("after a main-loop iteration")
        w.loop.settle()
        check("at the end")
    out: set[str] = set()
    return [(a, b) for a, b in viols if not (a in out or out.add(a))]


def cm_worker(k: int, n: int, depth: int) -> Any:
    import itertools
    import logging

    from ..runner import Part

    logging.disable(logging.CRITICAL)
    part = Part()
    i = 0
    for registered in (True, False):
        for d in range(1, depth + 1):
            for seq in itertools.product(range(len(CM_EVENTS)), repeat=d):
                i += 1
                if i % n != k:
                    continue
                viols = cm_case(seq, registered)
                part.evaluations += 1
                part.traces += 1
                part.transitions += len(seq)
                part.outcomes["connection-manager:" + ("violating" if viols else "ok")] += 1
                for sig, detail in viols:
                    part.viol(sig, detail, {"scenario": "connection-manager", "seq": list(seq), "registered": registered}, rank=(len(seq), seq))
    return part


from .c25t import make_threaded  # noqa: E402

SCENARIOS = {"tunnel": make, "threaded": make_threaded}


def run(ctx: Ctx) -> None:
    bound = (3 if ctx.thorough else 2) + int(__import__("os").environ.get("VF_DEEPER", 0))
    steps = 7 if ctx.thorough else 6
    ctx.rule = (
        f"real UDPTunnel / TCPTunnel / SecureTunnel (full session handshake against the simulated secure server; auto-reconnect on/off) connected to a simulated gateway; at each of {steps} quiescent points the environment lets time pass or injects one of "
        f"{Q_EVENTS[1:]}; the gateway answers heartbeat {HB_OPTS}, reconnect {CONN_OPTS}, disconnect {DISC_OPTS}, tunnelling {ACK_OPTS}; (a CHANGE of a gateway behaviour costs one deviation, it then persists for free); a second scenario family additionally injects "
        f"{I_EVENTS[1:]} BETWEEN two loop iterations (non-quiescent); every schedule with <= {bound} deviations is executed; two more families spend the budget later in the session: one starts with a server disconnect (reconnect in progress from the first step), one with a gateway that has gone silent (14-16 steps through heartbeat failure and reconnect attempts, user send/disconnect at every point). Oracle at every iteration boundary: <=1 task in _reconnect, state-change "
        "callbacks never repeat a state and agree; at quiescent points CONNECTED => channel and transport open; after disconnect() returned: no frame sent, no tunnel task alive, state DISCONNECTED. "
        f"Plus Routing and SecureRouting: ALL sequences of length <= 4 (thorough 5) over {R_EVENTS}: state CONNECTED exactly while the multicast connection is established, callbacks consistent, nothing sent and no task alive while disconnected. "
        f"Plus the ConnectionManager alone, with and without a registered main loop (the thread-safe hand-off of the threaded interface, reports piling up before the loop runs): ALL sequences of length <= 6 (thorough 7) over {CM_EVENTS}: "
        "state = last report, every callback sees each real transition once and in order, the connected event is set exactly in CONNECTED. "
        "Plus the real XKNX with ConnectionConfig(threaded=True) (UDP and TCP tunnel; gateway accepting, or refusing the first connect so that start() fails and is repeated) on TWO virtual loops and an executor agent "
        f"under one scheduler: every schedule with <= {3 if ctx.thorough else 2} deviations, a deviation being a departure from the default agent order (two families: main > executor > connection-loop, and connection-loop > executor > main, i.e. a busy application loop in front of which reports and frames pile up) at a point where more than one can run, an environment event "
        "(bus frame, user telegram, user stop, server disconnect, +0.5 s) at a quiescent point, or a bus frame while stop() is in progress. Oracle: stop() returns (no join deadlock), then silence, no task alive, thread loop stopped, state "
        "DISCONNECTED with the last callback saying so; state callbacks never repeat a state; bus frames sent before stop() reach the telegram callback once and in order, user telegrams reach the wire once and in order; every callback runs "
        "in the main loop's thread and no loop's non-threadsafe scheduling call is used from another thread (asyncio's debug-mode rule, checked on every call)"
    )
    ctx.bounds = {"deviation_bound": bound, "quiescent_steps": steps}
    ctx.assumptions = ["the threaded interface is explored with the loop iteration as the atomic step (two virtual loops, one OS thread): preemption INSIDE a callback and data shared without a thread-safe hand-over are visible only through the loop-affinity rule", "'connected' is judged from what the client can know: channel id and transport present"]
    for kind in ("udp", "tcp", "secure"):
        for ar in (True, False):
            explore(ctx, __name__, "tunnel", (kind, ar, steps, False), bound=bound)
            explore(ctx, __name__, "tunnel", (kind, ar, 3, True), bound=bound)
            if ar:
                explore(ctx, __name__, "tunnel", (kind, ar, 4, True, "lost"), bound=bound)
            explore(ctx, __name__, "tunnel", (kind, ar, 16 if ctx.thorough else 14, False, "silent"), bound=min(bound, 2))
    # the threaded interface: two loops + executor under one scheduler (vf/dual.py)
    tb = (3 if ctx.thorough else 2) + int(__import__("os").environ.get("VF_DEEPER", 0))
    ctx.bounds["threaded_deviation_bound"] = tb
    for kind in ("udp", "tcp"):
        for fam in ("", "refused"):
            for order in ("main-first", "conn-first"):
                explore(ctx, __name__, "threaded", (kind, fam, 5 if ctx.thorough else 4, order), bound=tb)
    rdepth = 5 if ctx.thorough else 4
    ctx.bounds["routing_sequence_depth"] = rdepth
    ctx.pmap(routing_worker, [(k, 32, rdepth) for k in range(32)])
    ctx.bounds["connection_manager_sequence_depth"] = 7 if ctx.thorough else 6
    ctx.pmap(cm_worker, [(k, 16, 7 if ctx.thorough else 6) for k in range(16)])
    finalize_states(ctx)


def replay(case: Any) -> list[tuple[str, str]]:
    if case.get("scenario") == "connection-manager":
        return cm_case(tuple(case["seq"]), bool(case["registered"]))
    if case.get("scenario") == "routing":
        return routing_case(tuple(case["seq"]), bool(case["secure"]))
    return replay_schedule(__name__, case)
