"""C14 Received link frames reach exactly the right consumer, once."""

from __future__ import annotations

import asyncio
import itertools
from typing import Any

from xknx import XKNX
from xknx.cemi import CEMIMessageCode
from xknx.cemi.cemi_handler import REQUEST_TO_CONFIRMATION_TIMEOUT
from xknx.dpt import DPTArray
from xknx.exceptions import CommunicationError, ConfirmationError
from xknx.management.management import Management
from xknx.telegram import GroupAddress, IndividualAddress, Telegram
from xknx.telegram.apci import GroupValueWrite

from ..explore import Chooser, explore, finalize_states, replay_schedule
from ..ref.cemi import encode_ldata
from ..runner import Ctx, Part, exc_sig
from ..vloop import World

TITLE = "frames reach the right consumer; sends need a confirmation"

# ------------------------------------------------------------------ (a) routing matrix
OWN = 0x1105
TPCIS = {
    "T_Data_Group": (0x00, "data"), "T_Data_Tag_Group": (0x04, "data"), "T_Data_Individual": (0x00, "data"), "T_Data_Connected(3)": (0x4C, "data"),
    "T_Connect": (0x80, "control"), "T_Disconnect": (0x81, "control"), "T_ACK(3)": (0xCE, "control"), "T_NAK(3)": (0xCF, "control"),
}
DESTS = {"group": (True, 0x0901), "broadcast": (True, 0x0000), "own-individual": (False, OWN), "foreign-individual": (False, 0x1109), "individual-0.0.0": (False, 0x0000)}
APDUS = {"group": bytes.fromhex("008001"), "broadcast": bytes.fromhex("0100"), "individual": bytes.fromhex("0300")}  # GroupValueWrite / IndividualAddressRead / DeviceDescriptorRead


def admissible(dest: str, tp: str) -> bool:
    if dest in ("group", "broadcast"):
        return tp in ("T_Data_Group", "T_Data_Tag_Group")
    return tp not in ("T_Data_Group", "T_Data_Tag_Group")


def expected(code: int, dest: str, tp: str, own: int) -> tuple[int | None, int | None]:
    """(telegram-queue deliveries, management deliveries); None = only 'at most once' is required."""
    if code != CEMIMessageCode.L_DATA_IND.value:
        return (0, 0)
    if dest == "group":
        return (1, 0) if tp == "T_Data_Group" else (None, None)
    if dest == "broadcast":
        return (0, 1) if tp == "T_Data_Group" else (None, None)   # octet 0 to address 0 is T_Data_Broadcast
    dst = DESTS[dest][1]
    return (0, 1) if dst == own else (0, 0)


def w_matrix(own: int) -> Part:
    part = Part()
    calls: list[Any] = []
    orig = Management.process
    Management.process = lambda self, telegram: calls.append(telegram)  # type: ignore[method-assign]
    try:
        with World():
            for code in sorted({m.value for m in CEMIMessageCode} | {0x42}):
                for dest, (is_group, dst) in DESTS.items():
                    for tp, (octet, kind) in TPCIS.items():
                        if not admissible(dest, tp):
                            continue
                        for prio, hop, rep, sysb, ack, cerr in [(3, 6, False, False, False, False), (0, 0, False, False, False, False)] + [
                                (3, 6, *f) for f in itertools.product((False, True), repeat=4) if any(f)]:
                            apdu = None if kind == "control" else APDUS["group" if dest == "group" else "broadcast" if dest == "broadcast" else "individual"]
                            raw = encode_ldata(code, priority=prio, repeat_on_error=rep, system_broadcast=sysb, ack=ack, confirm_error=cerr, hop_count=hop,
                                               dst_is_group=is_group, src=0x1101, dst=dst, tpci_octet=octet, apdu=apdu)
                            xknx = XKNX()
                            xknx.current_address = IndividualAddress(own)
                            calls.clear()
                            case = {"code": code, "dest": dest, "tpci": tp, "own": own, "raw": raw, "flags(repeat,sysbroadcast,ack,confirm_error)": [rep, sysb, ack, cerr]}
                            part.evaluations += 1
                            try:
                                xknx.cemi_handler.handle_raw_cemi(raw)
                            except Exception as exc:  # noqa: BLE001
                                part.viol(exc_sig("receive-path-raises", exc), f"{case}: {exc!r}", case)
                                continue
                            q, m = xknx.telegrams.qsize(), len(calls)
                            eq, em = expected(code, dest, tp, own)
                            part.outcomes[f"queue={q},mgmt={m}"] += 1
                            if q or m:
                                part.nontrivial += 1
                            if eq is None:
                                if q + m > 1:
                                    part.viol("delivered-more-than-once", f"{case}: queue={q} management={m}", case)
                            elif (q, m) != (eq, em):
                                kind_ = "telegram-queue" if q != eq else "management"
                                part.viol(f"wrong-consumer:{kind_}:{'extra' if (q, m) > (eq, em) else 'missing'}", f"code={code:#04x} dest={dest} tpci={tp} own={own:#06x}: queue={q} management={m}, reference queue={eq} management={em}", case)
                            if q == 1:
                                t = xknx.telegrams.get_nowait()
                                if t.destination_address != GroupAddress(dst) or t.payload != GroupValueWrite(DPTArray((1,))):
                                    part.viol("telegram-content-wrong", f"{case}: {t}", case)
    finally:
        Management.process = orig  # type: ignore[method-assign]
    part.sample({"code": 0x29, "dest": "own-individual", "tpci": "T_Connect", "own": own})
    return part


# ------------------------------------------------------------------ (b) send / confirmation schedules
HAND = ["handover-immediate", "handover-slow(0.5s)", "handover-raises-CommunicationError"]
CON = ["con-right-after-handover", "con-during-handover", "no-con", "con-twice", "con-late(3.5s)", "con-just-in-time(2.9s)"]
STRAY = ["-", "stray-L_Data.con", "stray-L_Data.ind", "wait-1s"]


def con_frame(confirm_error: bool = False) -> bytes:
    return encode_ldata(0x2E, priority=3, repeat_on_error=False, system_broadcast=False, ack=False, confirm_error=confirm_error, hop_count=6, dst_is_group=True, src=0x1105, dst=0x0901, tpci_octet=0, apdu=bytes.fromhex("008001"))


def ind_frame() -> bytes:
    return encode_ldata(0x29, priority=3, repeat_on_error=False, system_broadcast=False, ack=False, confirm_error=False, hop_count=6, dst_is_group=True, src=0x1107, dst=0x0902, tpci_octet=0, apdu=bytes.fromhex("008001"))


def make_send(n_sends: int, concurrent: bool, data_secure: bool = False):
    """`data_secure`: Data Secure is initialised (with a key for another group address, so these telegrams stay plain) - the send
    path then runs through DataSecure.outgoing_cemi first."""

    def scenario(ch: Chooser) -> list[tuple[str, str]]:
        viols: list[tuple[str, str]] = []
        with World() as w:
            loop = w.loop
            xknx = XKNX()
            xknx.current_address = IndividualAddress(OWN)
            if data_secure:
                from xknx.secure.data_secure import DataSecure

                xknx.cemi_handler.data_secure = DataSecure(group_key_table={GroupAddress(0x0A01): bytes(range(16))}, individual_address_table={}, last_sequence_number_sending=5)
            cons: list[float] = []          # delivery times of L_Data.con frames
            con_seq: list[int] = []
            sends: dict[int, dict[str, Any]] = {}
            events: list[Any] = []

            def deliver_con() -> None:
                cons.append(loop.time())
                con_seq.append(len(events))   # position in the event order (times can tie)
                events.append((loop.time(), "L_Data.con"))
                xknx.cemi_handler.handle_raw_cemi(con_frame())

            class FakeInterface:
                async def send_cemi(self, cemi: Any) -> None:
                    i = int(cemi.data.payload.value.value[0])
                    rec = sends[i]
                    rec["call"] = loop.time()
                    rec["call_seq"] = len(events)
                    h = ch.choose("handover", len(HAND))
                    rec["hand"] = HAND[h]
                    events.append((loop.time(), f"send_cemi#{i}", HAND[h]))
                    if h == 2:
                        rec["handover_done"] = loop.time()
                        raise CommunicationError("interface down")
                    copts = CON if h == 1 else [c for c in CON if c != "con-during-handover"]
                    c = ch.choose("con", len(copts))
                    plan = copts[c]
                    rec["plan"] = plan
                    delay = 0.5 if h == 1 else 0.0
                    if plan == "con-during-handover":
                        loop.call_later(0.2, deliver_con)
                    elif plan == "con-right-after-handover":
                        loop.call_later(delay + 0.01, deliver_con)
                    elif plan == "con-twice":
                        loop.call_later(delay + 0.01, deliver_con)
                        loop.call_later(delay + 0.02, deliver_con)
                    elif plan == "con-late(3.5s)":
                        loop.call_later(delay + 3.5, deliver_con)
                    elif plan == "con-just-in-time(2.9s)":
                        loop.call_later(delay + 2.9, deliver_con)
                    if delay:
                        await asyncio.sleep(delay)
                    rec["handover_done"] = loop.time()

            xknx.knxip_interface = FakeInterface()  # type: ignore[assignment]

            async def user(i: int) -> None:
                sends[i] = {"start": loop.time()}
                tg = Telegram(GroupAddress(0x0901), payload=GroupValueWrite(DPTArray((i,))))
                try:
                    await xknx.cemi_handler.send_telegram(tg)
                    sends[i]["result"] = "ok"
                except BaseException as exc:  # noqa: BLE001
                    sends[i]["result"] = type(exc).__name__
                sends[i]["ret"] = loop.time()
                sends[i]["ret_seq"] = len(events)
                events.append((loop.time(), f"send#{i} -> {sends[i]['result']}"))

            async def stray_point() -> None:
                s = ch.choose("between-sends", len(STRAY))
                if STRAY[s] == "stray-L_Data.con":
                    deliver_con()
                elif STRAY[s] == "stray-L_Data.ind":
                    events.append((loop.time(), "L_Data.ind"))
                    xknx.cemi_handler.handle_raw_cemi(ind_frame())
                elif STRAY[s] == "wait-1s":
                    await asyncio.sleep(1)

            async def driver() -> None:
                if concurrent:
                    await asyncio.gather(*(user(i) for i in range(n_sends)))
                else:
                    for i in range(n_sends):
                        await stray_point()
                        await user(i)
                await stray_point()

            d = w.spawn(driver())
            loop.run_until(60)
            if not d.done():
                viols.append(("send-never-returns", f"{sends}; events={events}"))
            T = REQUEST_TO_CONFIRMATION_TIMEOUT
            for i, r in sorted(sends.items()):
                res = r.get("result")
                if res is None:
                    continue
                if res == "ok":
                    if not any(r["call_seq"] <= c < r["ret_seq"] for c in con_seq):
                        viols.append(("send-completed-without-confirmation", f"send #{i} returned normally at t={r['ret']} but no L_Data.con arrived after it was handed to the interface at t={r['call']}; cons={cons}; events={events}"))
                elif res == "ConfirmationError":
                    # a confirmation arriving at the very instant the timeout expires is a tie (the timer has already cancelled the
                    # wait when the frame is handled): only confirmations strictly before that instant count
                    if "call_seq" in r and any(r["call_seq"] <= c < r["ret_seq"] and ct < r["ret"] - 1e-9 for c, ct in zip(con_seq, cons)):
                        viols.append(("confirmation-error-despite-confirmation", f"send #{i} raised ConfirmationError at t={r['ret']} although an L_Data.con arrived at {[c for c in cons if r['call'] <= c < r['ret']]}; events={events}"))
                    if abs(r["ret"] - (r["handover_done"] + T)) > 1e-6:
                        viols.append(("confirmation-error-at-wrong-time", f"send #{i}: hand-over done at {r['handover_done']}, ConfirmationError at {r['ret']} (timeout {T}s); events={events}"))
                elif res == "CommunicationError":
                    if r.get("hand") != HAND[2]:
                        viols.append(("unexpected-communication-error", f"send #{i}: {r}; events={events}"))
                else:
                    viols.append((f"send-raised:{res}", f"send #{i}: {r}; events={events}"))
            if xknx.telegrams.qsize() != sum(1 for e in events if e[1] == "L_Data.ind"):
                viols.append(("indication-not-queued-once", f"queue size {xknx.telegrams.qsize()}; events={events}"))
            for name, exc in loop.task_failures():
                viols.append((f"task-exception:{type(exc).__name__}", f"{name}: {exc!r}"))
            ch.notes.append(",".join(str(sends.get(i, {}).get("result")) for i in range(n_sends)))
            ch.state(tuple((sends.get(i, {}).get("result"), sends.get(i, {}).get("plan")) for i in range(n_sends)))
        return viols

    return scenario


SCENARIOS = {"send": make_send}


def w_tunnel_address() -> Part:
    """'Addressed to this interface' = the individual address the tunnelling server ASSIGNED in its ConnectResponse, also when
    another one was requested: point-to-point frames to the assigned address reach management, frames to the requested one do not."""
    from xknx.io.tunnel import TCPTunnel
    from xknx.knxip import ConnectRequest, TunnellingRequest

    from ..sim.gateway import GW_ADDR, Gateway
    from ..vloop import texc

    part = Part()
    calls: list[Any] = []
    orig = Management.process
    Management.process = lambda self, telegram: calls.append(telegram)  # type: ignore[method-assign]
    try:
        for requested, assigned in (("1.1.100", "1.1.240"), (None, "1.1.240"), ("1.1.100", "1.1.100")):
            with World() as w:
                gw = Gateway(w.loop)

                def handler(body: Any, _assigned: str = assigned) -> None:
                    if isinstance(body, ConnectRequest):
                        gw.send(gw.connect_response(7, tcp=True, ia=_assigned))

                gw.handler = handler
                xknx = XKNX()
                try:
                    tunnel = TCPTunnel(xknx, gateway_ip=GW_ADDR[0], gateway_port=GW_ADDR[1], individual_address=IndividualAddress(requested) if requested else None,
                                       cemi_received_callback=xknx.cemi_handler.handle_raw_cemi, auto_reconnect=False)
                    t = w.spawn(tunnel.connect(), name="harness-connect")
                    w.loop.settle()
                    case = {"tunnel-address": [requested, assigned]}
                    part.evaluations += 1
                    part.nontrivial += 1
                    if not t.done() or texc(t) is not None:
                        part.viol("harness:tunnel-connect", repr(t), case)
                        continue
                    if xknx.current_address != IndividualAddress(assigned):
                        part.viol("own-address-is-not-the-assigned-one", f"requested {requested}, the server assigned {assigned}: xknx.current_address = {xknx.current_address}", case)
                    for dst, want in ((assigned, 1), (requested or "1.1.100", 1 if (requested or "1.1.100") == assigned else 0), ("1.1.77", 0)):
                        calls.clear()
                        raw = encode_ldata(0x29, priority=0, repeat_on_error=False, system_broadcast=False, ack=False, confirm_error=False, hop_count=6, dst_is_group=False,
                                           src=0x1101, dst=IndividualAddress(dst).raw, tpci_octet=0x80, apdu=None)
                        gw.send(TunnellingRequest(7, 0, raw))
                        w.loop.settle()
                        part.evaluations += 1
                        if len(calls) != want:
                            part.viol(f"wrong-consumer:management:{'extra' if len(calls) > want else 'missing'}:tunnel-assigned-address",
                                      f"tunnel requested {requested}, server assigned {assigned}: a T_Connect to {dst} reached management {len(calls)} times, reference {want}", case)
                finally:
                    xknx.started.clear()
    finally:
        Management.process = orig  # type: ignore[method-assign]
    return part


def run(ctx: Ctx) -> None:
    bound = 5 if ctx.thorough else 3
    ctx.rule = (
        "(a) routing matrix, complete: every cEMI message code x destination {group, broadcast, own IA, foreign IA, 0.0.0} x every admissible TPCI kind x 2 control variants x own address "
        "{1.1.5, 0.0.0} through the real CEMIHandler.handle_raw_cemi, consumers counted (telegram queue / Management.process) against a reference table; "
        f"(b) real CEMIHandler.send_telegram x 1-3 sends (sequential or 2 concurrent) over a fake interface: hand-over {HAND}, confirmation {CON}, between sends {STRAY[1:]}; every schedule "
        f"with <= {bound} deviations; a send returns normally only if an L_Data.con arrived after its send_cemi call, else ConfirmationError exactly {REQUEST_TO_CONFIRMATION_TIMEOUT}s after hand-over (also with Data Secure initialised); "
        "(c) a real TCPTunnel whose server assigns another individual address than the requested one: frames to the assigned address reach management, frames to the requested one do not"
    )
    ctx.bounds = {"deviation_bound": bound}
    ctx.assumptions = ["'handed to the interface' = the moment send_cemi is called (DESIGN.md readings); T_Data_Tag_Group is only required to be delivered at most once"]
    ctx.pmap(w_matrix, [(OWN,), (0,)])
    for args in [(1, False), (2, False), (3, False), (2, True), (2, False, True), (3, False, True)]:
        explore(ctx, __name__, "send", args, bound=bound)
    ctx.pmap(w_tunnel_address, [()])
    finalize_states(ctx)


def replay(case: Any) -> list[tuple[str, str]]:
    if "scenario" in case:
        return replay_schedule(__name__, case)
    if "tunnel-address" in case:
        p = w_tunnel_address()
        return [(s, v[1]) for s, v in p.viols.items()]
    p = w_matrix(case["own"])
    return [(s, v[1]) for s, v in p.viols.items()]
