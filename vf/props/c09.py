"""C09 Numeric datapoints encode every in-range value within one resolution step."""

from __future__ import annotations

from fractions import Fraction
import math
import struct
from typing import Any, Iterator

from xknx.dpt import DPTArray
from xknx.dpt.dpt import DPTNumeric
from xknx.exceptions import ConversionError

from ..dptspace import all_dpt_classes
from ..runner import Ctx, Part, exc_sig

TITLE = "numeric range and resolution"
F32_MAX = (2 - 2**-23) * 2**127
FRACS = [Fraction(0), Fraction(1, 4), Fraction(1, 2), Fraction(3, 4), Fraction(999, 1000)]


def classes() -> list[Any]:
    return [c for c in all_dpt_classes() if issubclass(c, DPTNumeric)]


def family(cls: Any) -> str:
    main = cls.dpt_main_number
    if main == 9:
        return "f16"
    if main == 14:
        return "f32"
    return "fixed"


def dec(x: Any) -> Fraction:
    """Exact decimal reading of a declared constant (0.01 means 1/100)."""
    return Fraction(str(x))


def step_at(cls: Any, v: Fraction) -> Fraction:
    """One resolution step of the representable value nearest to v (reference, written from the DPT definitions)."""
    fam = family(cls)
    if fam == "fixed":
        return dec(cls.resolution)
    if fam == "f16":
        # value = 0.01 * m * 2^e, m in -2048..2047, e in 0..15: smallest e that can hold |v|
        a = abs(v) * 100
        e = 0
        while e < 15 and ((v >= 0 and a > 2047 * 2**e) or (v < 0 and a > 2048 * 2**e)):
            e += 1
        return Fraction(2**e, 100)
    # IEEE binary32: ulp
    if v == 0:
        return Fraction(1, 2**149)
    e = math.frexp(float(abs(v)))[1] - 1  # 2^e <= |v| < 2^(e+1)
    e = max(e, -126)
    # the decoder additionally rounds to 7 significant decimal digits (declared resolution 1e-07 of the decade)
    dec10 = Fraction(10) ** (math.ceil(math.log10(float(abs(v)))) - 7)
    return Fraction(2) ** (e - 23) + dec10


def values(cls: Any, thorough: bool) -> Iterator[Any]:
    """Python numbers (int or float) to offer to the encoder."""
    fam = family(cls)
    lo, hi = cls.value_min, cls.value_max
    res = cls.resolution
    out: list[Any] = []
    if fam == "fixed":
        L = cls.payload_length
        resf = dec(res)
        if L <= 2:
            # every raw value of the wire field, as value = k * resolution (+ fractions of a step)
            signed = lo < 0
            kmin, kmax = ((-(2 ** (8 * L - 1)), 2 ** (8 * L - 1) - 1) if signed else (0, 2 ** (8 * L) - 1))
            if cls.dpt_main_number == 5 and cls.dpt_sub_number in (1, 3):
                kmin, kmax = int(lo), int(hi)  # scaled types: the value space is lo..hi itself
            for k in range(kmin - 2, kmax + 3):
                for fr in FRACS:
                    q = (k + fr) * resf
                    if fr == 0 and q.denominator == 1:
                        yield int(q)
                    else:
                        yield float(q)
        else:
            bits = 8 * L
            pts = {0, 1, -1, lo, hi, lo - 1, hi + 1, lo + 1, hi - 1}
            for b in range(1, bits + 2):
                for d in (-1, 0, 1):
                    pts.add(2**b + d)
                    pts.add(-(2**b) + d)
            for p in sorted(pts):
                yield p
                for fr in (0.25, 0.5, 0.75):
                    if abs(p) < 2**52:
                        yield p + fr
        for p in (lo, hi, lo - res, hi + res, lo - 1, hi + 1, (lo + hi) / 2, lo + res / 2, hi - res / 2, 2 * hi + 1, 2 * lo - 1):
            yield p
        return
    if fam == "f16":
        # every representable value, the midpoints to its neighbours (+-epsilon), declared bounds
        reps = sorted({Fraction(m * 2**e, 100) for e in range(16) for m in range(-2048, 2048)})
        for r in reps:
            yield float(r)
        for a, b in zip(reps, reps[1:]):
            mid = (a + b) / 2
            yield float(mid)
            yield math.nextafter(float(mid), math.inf)
            yield math.nextafter(float(mid), -math.inf)
            if thorough:
                yield float(a + (b - a) / 4)
                yield float(a + 3 * (b - a) / 4)
        for p in (lo, hi, lo - 0.01, hi + 0.01, lo - 1, hi + 1, math.nextafter(lo, -math.inf), math.nextafter(hi, math.inf), 0.005, -0.005, 0.0051, -0.0051, 1e9, -1e9):
            yield p
        return
    # f32
    yield 0.0
    for e in range(-149, 128):
        for mant in (1.0, 1.5, 1 + 2**-23, 2 - 2**-23, 1 + 2**-24, 1 + 2**-25, 1.1, 1.9999999):
            for s in (1, -1):
                yield s * mant * 2.0**e
    for p in (F32_MAX, -F32_MAX, math.nextafter(F32_MAX, math.inf), F32_MAX * (1 + 2**-25), 3.5e38, 1e39, -1e39, 1e300, 1, -1, 10**40, 123456789):
        yield p


def check_one(cls: Any, v: Any) -> tuple[str, list[tuple[str, str]]]:
    name = cls.__name__
    fam = family(cls)
    lo, hi = cls.value_min, cls.value_max
    in_declared = lo <= v <= hi
    try:
        payload = cls.to_knx(v)
    except ConversionError:
        if in_declared and not (fam == "f32" and abs(v) > F32_MAX):
            return "rejected-in-range", [(f"in-range-rejected:{name}", f"{name}.to_knx({v!r}) refused although {lo} <= v <= {hi}")]
        return "rejected", []
    except Exception as exc:  # noqa: BLE001
        return "escape", [(exc_sig("encode-escape", exc), f"{name}.to_knx({v!r}) raised {exc!r}")]
    if not in_declared:
        step = step_at(cls, Fraction(v))
        if lo - step < v < hi + step:
            # less than one step outside: truncation/rounding towards the boundary value, not a wrap - still "outside the
            # declared range"; identified by the encoder that does it (one finding per encoder, not per subclass)
            site = getattr(cls.to_knx, "__func__", cls.to_knx).__qualname__
            return "accepted-within-one-step-of-bound", [(f"out-of-range-accepted-within-one-step:{site}", f"{name}.to_knx({v!r}) -> {payload!r} although declared range is {lo}..{hi}")]
        return "accepted-out-of-range", [(f"out-of-range-accepted:{name}", f"{name}.to_knx({v!r}) -> {payload!r} although declared range is {lo}..{hi}")]
    if not isinstance(payload, cls.payload_type) or len(payload.value) != cls.payload_length or not all(isinstance(b, int) and 0 <= b <= 255 for b in payload.value):
        return "bad-payload", [(f"bad-payload:{name}", f"{name}.to_knx({v!r}) -> {payload!r}")]
    try:
        back = cls.from_knx(payload)
    except Exception as exc:  # noqa: BLE001
        return "undecodable", [(f"own-payload-undecodable:{fam}:{bytes(payload.value).hex()}", f"{name}: {v!r} -> {payload!r} -> {exc!r}")]
    if isinstance(back, float) and (math.isnan(back) or math.isinf(back)):
        if fam == "f32" and abs(v) > F32_MAX:
            return "f32-overflow-to-inf", []
        return "nonfinite", [(f"nonfinite:{name}", f"{name}: {v!r} -> {payload!r} -> {back!r}")]
    fv, fb = Fraction(v), Fraction(back)
    step = step_at(cls, fv)
    if not abs(fb - fv) < step:
        return "too-far", [(f"off-by-step:{name}", f"{name}: {v!r} -> {payload!r} -> {back!r}; |diff|={float(abs(fb - fv))!r} >= step {float(step)!r}")]
    return "ok", []


def worker(ci: int, thorough: bool) -> Part:
    part = Part()
    cls = classes()[ci]
    name = cls.__name__
    seen = set()
    for v in values(cls, thorough):
        key = (type(v).__name__, v)
        if key in seen:
            continue
        seen.add(key)
        part.evaluations += 1
        outcome, viols = check_one(cls, v)
        part.outcomes[outcome] += 1
        if outcome not in ("rejected",):
            part.nontrivial += 1
            if part.nontrivial == 7:
                part.sample([name, v])
        for sig, detail in viols:
            part.viol(sig, detail, [name, v])
    # the decimal-string form of a number (what a state passed on as text looks like): refused, or encoded exactly as the number
    lo, hi = cls.value_min, cls.value_max
    ints = []
    for b in (lo, hi):
        if isinstance(b, (int, float)) and math.isfinite(b):
            b = int(b)
            ints += [b, b + 1, b - 1, b // 2 + 1]
    ints += [0, 1, -1, 7, 2**53 + 1, -(2**53) - 1, 2**60 + 100, 2**63 - 1, -(2**63)]
    for v in sorted(set(ints)):
        part.evaluations += 1
        try:
            as_text = cls.to_knx(str(v))
        except ConversionError:
            part.outcomes["string-form-refused"] += 1
            continue
        except Exception as exc:  # noqa: BLE001
            part.viol(exc_sig("encode-escape:string-form", exc), f"{name}.to_knx({str(v)!r}) raised {exc!r}", [name, str(v)])
            continue
        try:
            as_number: Any = cls.to_knx(v)
        except ConversionError:
            as_number = None
        part.nontrivial += 1
        part.outcomes["string-form-accepted"] += 1
        if as_number is None:
            part.viol(f"string-form-accepted-where-number-refused:{name}", f"{name}.to_knx({str(v)!r}) -> {as_text!r} although to_knx({v}) is refused (declared range {lo}..{hi})", [name, str(v)])
        elif as_text != as_number:
            part.viol(f"string-form-encodes-differently:{name}", f"{name}.to_knx({str(v)!r}) -> {as_text!r}, to_knx({v}) -> {as_number!r}", [name, str(v)])
    return part


def run(ctx: Ctx) -> None:
    cl = classes()
    ctx.rule = (
        "every DPTNumeric class; fixed-point types of <=2 octets: every raw value k of the wire field as k*resolution plus "
        "{1/4,1/2,3/4,0.999} of a step and two steps outside; 4/8-octet integers: bounds, +-1, all powers of two +-1 and fractions; DPT 9: "
        "every representable value and the midpoints (+-1 ulp) between neighbours; DPT 14: 8 mantissas x every binary32 exponent, the "
        "binary32 limits and beyond. Oracle in exact rational arithmetic. non-trivial = value not rejected"
    )
    ctx.bounds = {"classes": len(cl)}
    ctx.assumptions = [
        "DPT 14 declares +-inf as its range; values beyond the binary32 range may be refused (ConversionError) or encoded as inf",
        "resolution step of DPT 9 = 0.01*2^e of the nearest representable value; of DPT 14 = binary32 ulp",
    ]
    ctx.pmap(worker, [(i, ctx.thorough) for i in range(len(cl))])


def replay(case: Any) -> list[tuple[str, str]]:
    cls = next(c for c in all_dpt_classes() if c.__name__ == case[0])
    if isinstance(case[1], str):
        p = worker(classes().index(cls), False)
        return [(sg, v[1]) for sg, v in p.viols.items() if "string-form" in sg]
    return check_one(cls, case[1])[1]
