"""C42 Timed resets and press counters behave as configured."""

from __future__ import annotations

from ..vloop import texc

from fractions import Fraction as F
import itertools
from typing import Any

from xknx.devices import BinarySensor, Switch
import xknx.devices.binary_sensor as BS
from xknx.dpt import DPTBinary
from xknx.telegram import GroupAddress, IndividualAddress, Telegram, TelegramDirection
from xknx.telegram.apci import GroupValueResponse, GroupValueWrite

from ..runner import Ctx, Part, exc_sig
from ..sim.core import CoreWorld

TITLE = "reset timers and press counters"
RESET = F(5)
CTX = F(1)
EPS = F(1, 1024)
ADV = [F(0), F(1, 2), CTX - EPS, CTX, F(5, 2), RESET - EPS, RESET, F(6)]
# device kinds: (label, class, kwargs)
KINDS: list[tuple[str, str, dict[str, Any]]] = [
    ("binary_sensor(reset_after=5)", "bs", {"reset_after": 5}),
    ("binary_sensor(reset_after=5,invert)", "bs", {"reset_after": 5, "invert": True}),
    ("binary_sensor(context_timeout=1)", "bs", {"context_timeout": 1}),
    ("binary_sensor(reset_after=5,context_timeout=1)", "bs", {"reset_after": 5, "context_timeout": 1}),
    ("binary_sensor(reset_after=5,ignore_internal_state)", "bs", {"reset_after": 5, "ignore_internal_state": True}),
    ("switch(reset_after=5)", "sw", {"reset_after": 5}),
    ("switch(reset_after=5,invert)", "sw", {"reset_after": 5, "invert": True}),
    # a switch with a separate state address: an 'on' reported there is an 'on' telegram like any other
    ("switch(reset_after=5,state address)", "sw", {"reset_after": 5, "group_address_state": "1/1/2"}),
    ("binary_sensor(reset_after=5,invert,ignore_internal_state)", "bs", {"reset_after": 5, "invert": True, "ignore_internal_state": True}),
]
EVENTS = ["on", "off", "none", "on-response", "user-on", "link-down", "link-up", "on-state", "off-state", "re-register"]


class LoopClock:
    def __init__(self, loop: Any) -> None:
        self.loop = loop

    def time(self) -> float:
        return self.loop.time()


def events_for(kind: int) -> list[int]:
    cls = KINDS[kind][1]
    # (connection loss / return is reported to the task registry; timers of these devices do not depend on it)
    if cls == "sw":
        return [0, 1, 2, 4, 5, 6] + ([7, 8] if "group_address_state" in KINDS[kind][2] else [])
    if "context_timeout" not in KINDS[kind][2]:
        return [0, 1, 2, 3, 5, 6]
    # (a device taken out of the registry and put back loses its pending timers: only offered where no reset timer is configured)
    return [0, 1, 2, 5, 6] + ([9] if "reset_after" not in KINDS[kind][2] else [])


STATES: set[Any] = set()


def run_case(kind: int, seq: tuple[tuple[int, int], ...]) -> list[tuple[str, str]]:
    label, cls, kwargs = KINDS[kind]
    viols: list[tuple[str, str]] = []
    saved = BS.time
    with CoreWorld(t0=1024.0, rate_limit=0) as w:
        BS.time = LoopClock(w.loop)  # type: ignore[assignment]
        try:
            cb_log: list[tuple[F, Any, Any]] = []
            now = F(1024)

            def cb(dev: Any) -> None:
                cb_log.append((F(w.loop.time()), dev.state, getattr(dev, "counter", None)))

            invert = bool(kwargs.get("invert"))
            if cls == "bs":
                dev: Any = BinarySensor(w.xknx, "dev", group_address_state="1/1/1", device_updated_cb=cb, **kwargs)
            else:
                dev = Switch(w.xknx, "dev", group_address="1/1/1", device_updated_cb=cb, **kwargs)
            w.xknx.devices.async_add(dev)
            w.start()
            has_reset = "reset_after" in kwargs
            has_ctx = "context_timeout" in kwargs
            # reference
            state: bool | None = None
            deadline: F | None = None
            changes: list[tuple[F, bool]] = []  # (time, new state) the reference expects to be reported
            run_state: bool | None = None
            run_count = 0
            last_t: F | None = None
            mixed = False
            ctx_ends: list[tuple[F, bool, int]] = []  # unambiguous contexts: (end time, state, count)
            trace: list[str] = []

            resets: list[F] = []  # times at which the reference timer turned an 'on' device 'off'
            rv_value: bool | None = None  # the value the device's remote value last received

            def ref_advance(to: F) -> None:
                nonlocal state, deadline
                if deadline is not None and deadline <= to:
                    if state is not False:
                        changes.append((deadline, False))
                        resets.append(deadline)
                    if has_ctx:
                        # the library counts its own reset like an 'off' press; the statement only speaks of telegrams:
                        # a context touched by a reset is left unconstrained
                        ctx_event(deadline, None)
                    state = False
                    deadline = None

            ctx_counts = {True: 0, False: 0}   # telegrams per state in the current context (the library's own reset counts as an 'off')

            def ctx_event(t: F, s: bool | None) -> None:
                nonlocal run_state, run_count, mixed, last_t
                if last_t is None or t - last_t >= CTX:
                    ctx_counts[True] = ctx_counts[False] = 0
                ctx_counts[bool(s)] += 1
                if last_t is None or t - last_t >= CTX:
                    # (a reset falling on the very instant a context ends may run before the context callback and restart it: tie, unconstrained)
                    if last_t is not None and not mixed and run_state is not None and not (s is None and t - last_t == CTX):
                        ctx_ends.append((last_t + CTX, run_state, run_count))
                    run_state, run_count, mixed = s, 1, s is None
                elif s is not None and s == run_state and not mixed:
                    run_count += 1
                else:
                    mixed = True
                last_t = t

            def observe(tag: str) -> None:
                got = dev.state
                STATES.add((kind, got, getattr(dev, "counter", None), w.loop.timer_profile()))
                if got != state:
                    viols.append((f"state-differs:{'reset' if has_reset else 'plain'}", f"{tag}: device reports {got}, reference {state} (deadline {deadline}); {label} trace={trace}"))
                if has_ctx and last_t is not None and now < last_t + CTX and got is not None and dev.counter is not None and dev.counter > ctx_counts[bool(got)]:
                    viols.append(("counter-exceeds-telegrams-of-the-context", f"{tag}: counter {dev.counter} for state {got}, but the current context holds only {ctx_counts[bool(got)]} such telegram(s); {label} trace={trace}"))
                if has_ctx and last_t is not None and not mixed and now < last_t + CTX:
                    if dev.counter != run_count:
                        viols.append(("counter-differs", f"{tag}: counter {dev.counter}, reference {run_count} same-state telegrams within the timeout of each other; {label} trace={trace}"))

            for ai, ei in seq:
                if ADV[ai]:
                    now += ADV[ai]
                    w.loop.run_until(float(now))
                    ref_advance(now)
                    observe(f"at t+{float(now - 1024)}")
                ev = EVENTS[ei]
                trace.append(f"+{float(ADV[ai])}s {ev}")
                if ev == "none":
                    continue
                if ev == "re-register":
                    w.xknx.devices.async_remove(dev)
                    w.xknx.devices.async_add(dev)
                    w.loop.settle()
                    if last_t is not None:
                        mixed = True   # the pending end-of-context callback went with the device's tasks: this context is no longer judged exactly
                    continue
                if ev in ("link-down", "link-up"):
                    (w.disconnect if ev == "link-down" else w.connect)()
                    w.loop.settle()
                    ref_advance(now)
                    observe(f"after {ev} at t+{float(now - 1024)}")
                    continue
                if ev == "user-on":
                    t = w.spawn(dev.set_on(), name="harness-user")
                    w.loop.settle()
                    if t.done() and texc(t) is not None:
                        viols.append((exc_sig("command-raises", texc(t)), f"{texc(t)!r}; trace={trace}"))  # type: ignore[arg-type]
                    s = True
                else:
                    s = ev.startswith("on")
                    raw = (not s) if invert else s
                    payload: Any = GroupValueResponse(DPTBinary(int(raw))) if ev.endswith("response") else GroupValueWrite(DPTBinary(int(raw)))
                    tg = Telegram(GroupAddress("1/1/2" if ev.endswith("-state") else "1/1/1"), payload=payload, source_address=IndividualAddress("1.1.7"), direction=TelegramDirection.INCOMING)
                    w.xknx.telegrams.put_nowait(tg)
                    w.loop.settle()
                # reference: the telegram is processed at `now`; a reset due exactly now has fired before it or is restarted by it - same result
                ref_advance(now)
                if ev == "on-response":
                    # reading fixed in DESIGN.md: a GroupValueResponse repeating the value the sensor last received carries no new
                    # 'on': it restarts a running timer but does not turn a reset sensor on again
                    if rv_value is True:
                        if state is True and has_reset:
                            deadline = now + RESET
                        observe(f"after {ev} at t+{float(now - 1024)}")
                        continue
                rv_value = s
                if state is not s:
                    changes.append((now, s))
                state = s
                if has_reset and s:
                    deadline = now + RESET
                if has_ctx:
                    ctx_event(now, s)
                observe(f"after {ev} at t+{float(now - 1024)}")
            # horizon: all timers
            now += 12
            w.loop.run_until(float(now))
            ref_advance(now)
            if has_ctx and last_t is not None and not mixed and run_state is not None:
                ctx_ends.append((last_t + CTX, run_state, run_count))
            observe("horizon")
            if cls == "sw" and has_reset:
                # the reset of a switch is a telegram on the bus
                offs = [F(t) for t, tg in w.iface.sent if isinstance(tg.payload, GroupValueWrite) and tg.payload.value == DPTBinary(int(invert))]
                for t in resets:
                    if t not in offs:
                        viols.append(("switch-reset-telegram-missing", f"no 'off' telegram at t+{float(t - 1024)}; sent off at {[float(o - 1024) for o in offs]}; {label} trace={trace}"))
            if not has_ctx and not kwargs.get("ignore_internal_state"):
                # every reference state change is reported by a callback at that time; no callback shows another state
                for t, s in changes:
                    if not any(ct == t and cs == s for ct, cs, _c in cb_log):
                        viols.append(("state-change-not-reported-by-callback", f"change to {s} at t+{float(t - 1024)} missing in {[(float(a - 1024), b) for a, b, _ in cb_log]}; {label} trace={trace}"))
            if has_ctx:
                for t, s, n in ctx_ends:
                    hits = [(cs, cc) for ct, cs, cc in cb_log if ct == t]
                    if (s, n) not in hits:
                        viols.append(("context-callback-wrong", f"context of {n} x {s} ending at t+{float(t - 1024)}: callbacks then {hits}; all {[(float(a - 1024), b, c) for a, b, c in cb_log]}; {label} trace={trace}"))
            for name, exc in w.task_escapes():
                viols.append((exc_sig("task-exception", exc), f"{name}: {exc!r}; {label} trace={trace}"))
            for c in w.loop.exceptions:
                viols.append((f"loop-exception:{type(c.get('exception')).__name__}", f"{c.get('message')} {c.get('exception')!r}; {label} trace={trace}"))
        finally:
            BS.time = saved
    seen: set[str] = set()
    return [(s, d) for s, d in viols if not (s in seen or seen.add(s))]


def cases(depth: int) -> list[tuple[int, tuple[tuple[int, int], ...]]]:
    out = []
    for k in range(len(KINDS)):
        evs = [(a, e) for a in range(len(ADV)) for e in events_for(k)]
        for n in range(1, depth + 1):
            for seq in itertools.product(evs, repeat=n):
                if seq[0][0] != 0 or seq[0][1] == 2 or seq[-1][1] == 2 and seq[-1][0] == 0:
                    continue
                out.append((k, seq))
    # longer histories on a coarser alphabet for the press counters: on / off / re-register x advance 1/2, exactly the timeout, 5/2
    for k in range(len(KINDS)):
        if "context_timeout" not in KINDS[k][2]:
            continue
        evs = [(a, e) for a in (1, 3, 4) for e in events_for(k) if e in (0, 1, 9)]
        for n in range(depth + 1, depth + 3):
            for seq in itertools.product(evs, repeat=n):
                out.append((k, ((0, seq[0][1]),) + seq[1:]))
    return out


def worker(k: int, n: int, depth: int) -> Part:
    import logging

    logging.disable(logging.CRITICAL)
    part = Part()
    allc = cases(depth)
    for i in range(k, len(allc), n):
        kind, seq = allc[i]
        try:
            viols = run_case(kind, seq)
        except Exception as exc:  # noqa: BLE001
            viols = [(exc_sig("harness-or-escape", exc), repr(exc))]
            raise
        part.evaluations += 1
        part.traces += 1
        part.transitions += len(seq)
        if len(seq) > 1:
            part.nontrivial += 1
        part.outcomes[KINDS[kind][0] + (":violating" if viols else ":ok")] += 1
        for s, d in viols:
            part.viol(s, d, [kind, [list(e) for e in seq]], rank=(len(seq), seq))
        if i < 2:
            part.sample([kind, [list(e) for e in seq]])
    for k_ in STATES:
        part.state(k_)
    STATES.clear()
    return part


# (cases(): full alphabet to `depth`, then the press-counter kinds to depth+2 over a coarse alphabet)
def run(ctx: Ctx) -> None:
    depth = 4 if ctx.thorough else 3
    ctx.rule = (
        f"real BinarySensor / Switch on the virtual loop (time.time of the module follows the loop clock), {len(KINDS)} configurations {[k[0] for k in KINDS]}: ALL event sequences of length <= {depth} over "
        f"clock advances {[float(a) for a in ADV]} s x {{on, off, none, on as GroupValueResponse, user set_on}} telegrams through the real queue, then every timer to a 12 s horizon. Reference timer/counter model "
        "stepped in lock-step: state at every observation (reset exactly reset_after after the LAST on, a later on restarts it), the off telegram of a resetting switch, state changes reported by callbacks, "
        "counter = number of consecutive same-state telegrams each within the timeout of its predecessor, and the context callback reporting that count."
    )
    n = len(cases(depth))
    ctx.bounds = {"depth": depth, "cases": n}
    ctx.pmap(worker, [(k, 128, depth) for k in range(128)])


def replay(case: Any) -> list[tuple[str, str]]:
    kind, seq = case
    return run_case(kind, tuple((a, e) for a, e in seq))
