"""C45 MCP tools return JSON-native results and invert each other."""

from __future__ import annotations

from ..vloop import texc

import asyncio
import dataclasses
import json
import math
from typing import Any

from xknx.core import XknxConnectionState
from xknx.core.connection_state import XknxConnectionType
from xknx.dpt import DPTArray, DPTBase, DPTBinary
from xknx.exceptions import ConversionError, CouldNotParseTelegram
from xknx.mcp import tools as MT
from xknx.mcp import types as MY
from xknx.telegram import GroupAddress, IndividualAddress, Telegram
from xknx.telegram.apci import GroupValueRead, GroupValueResponse

from ..dptspace import all_dpt_classes, payloads, pl, unpl
from ..runner import Ctx, Part, exc_sig
from ..sim.core import CoreWorld

TITLE = "MCP tools"


def run_coro(coro: Any) -> Any:
    """The DPT tools are async only by convention: they never suspend."""
    try:
        coro.send(None)
    except StopIteration as stop:
        return stop.value
    coro.close()
    raise RuntimeError("harness: tool suspended")


def ref_json(value: Any) -> Any:
    """Reference JSON form of a decoded value, written from the statement (complex -> dict, enum -> lower-case name, tuple -> list)."""
    if hasattr(value, "as_dict") and dataclasses.is_dataclass(value):
        return value.as_dict()
    import enum

    if isinstance(value, enum.Enum):
        return value.name.lower()
    if isinstance(value, tuple):
        return [ref_json(v) for v in value]
    return value


def json_equal(a: Any, b: Any) -> bool:
    if isinstance(a, float) and isinstance(b, float):
        return (math.isnan(a) and math.isnan(b)) or a == b
    if isinstance(a, bool) != isinstance(b, bool):
        return False
    if isinstance(a, (int, float)) and isinstance(b, (int, float)):
        return a == b
    if isinstance(a, str) and isinstance(b, str):
        # text DPTs: an undecodable octet decodes to U+FFFD, which is documented to encode as '?'
        return a.replace("\ufffd", "?") == b.replace("\ufffd", "?")
    if type(a) is not type(b):
        return False
    if isinstance(a, dict):
        return a.keys() == b.keys() and all(json_equal(a[k], b[k]) for k in a)
    if isinstance(a, list):
        return len(a) == len(b) and all(json_equal(x, y) for x, y in zip(a, b))
    return a == b


def json_native(result: Any, what: str) -> list[tuple[str, str]]:
    """asdict -> json.dumps with the stock encoder -> loads -> equal"""
    try:
        d = dataclasses.asdict(result)
    except Exception as exc:  # noqa: BLE001
        return [(f"asdict-fails:{what}", f"{result!r}: {exc!r}")]
    try:
        text = json.dumps(d)
    except Exception as exc:  # noqa: BLE001
        return [(f"not-json-serialisable:{what}", f"{d!r}: {exc!r}")]
    back = json.loads(text)
    if not json_equal(back, json.loads(json.dumps(back))) or not json_equal(d_norm(d), back):
        return [(f"json-round-trip-changes-result:{what}", f"{d!r} -> {back!r}")]
    return []


def d_norm(x: Any) -> Any:
    if isinstance(x, dict):
        return {str(k): d_norm(v) for k, v in x.items()}
    if isinstance(x, (list, tuple)):
        return [d_norm(v) for v in x]
    return x


_NAMES: dict[Any, list[str]] = {}


def type_names(cls: type[DPTBase]) -> list[str]:
    """Identifiers that denote exactly this class (computed once, from an independent walk of the class tree - not through the
    lookup under test, whose answers may depend on what it was asked before)."""
    if not _NAMES:
        owner: dict[str, list[Any]] = {}
        for c in all_dpt_classes():
            vt = getattr(c, "value_type", None)
            for n in ([str(vt)] if vt else []) + [c.dpt_number_str()]:
                owner.setdefault(n, []).append(c)
        for c in all_dpt_classes():
            vt = getattr(c, "value_type", None)
            _NAMES[c] = [n for n in ([str(vt)] if vt else []) + [c.dpt_number_str()] if owner[n] == [c]]
    if cls in _NAMES:
        return list(_NAMES[cls])
    out = []
    vt = getattr(cls, "value_type", None)
    if vt:
        out.append(str(vt))
    out.append(cls.dpt_number_str())
    return [n for n in out if DPTBase.get_dpt(n) is cls] if True else out


def w_codec(ci: int, seed: int, thorough: bool) -> Part:
    """decode / encode tools over the payload space of one DPT class."""
    import logging

    logging.disable(logging.CRITICAL)
    part = Part()
    cls = all_dpt_classes()[ci]
    try:
        names = type_names(cls)
    except Exception as exc:  # noqa: BLE001
        part.viol(exc_sig("get_dpt-escape", exc), f"{cls.__name__}: {exc!r}", [cls.__name__])
        return part
    if not names:
        part.outcomes["class-not-addressable"] += 1
        return part
    name = names[ci % len(names)]
    space = payloads(cls, seed, thorough) if (cls.payload_type is DPTArray and cls.payload_length <= 2) or thorough or True else []
    seen_values = 0
    from ..dptspace import PAIR_ALPHABET

    for payload in space:
        if not thorough and isinstance(payload, DPTArray) and len(payload.value) == 2 and payload.value[0] not in PAIR_ALPHABET and payload.value[1] not in PAIR_ALPHABET:
            continue  # quick: 2-octet payloads with at least one octet from the 32-value boundary alphabet (thorough: all 65 536)
        if cls.payload_type is DPTBinary and not isinstance(payload, DPTBinary):
            continue
        if cls.payload_type is DPTArray and (not isinstance(payload, DPTArray) or len(payload.value) != cls.payload_length):
            continue
        part.evaluations += 1
        raw_json: Any = payload.value if isinstance(payload, DPTBinary) else list(payload.value)
        try:
            want = cls.from_knx(payload)
        except (ConversionError, CouldNotParseTelegram):
            want = None
            valid = False
        else:
            valid = True
        try:
            res = run_coro(MT.decode_dpt_payload(MY.DecodeDptPayloadInput(payload=raw_json, value_type=name)))
        except (ConversionError, CouldNotParseTelegram) as exc:
            if valid:
                part.viol(f"decode-tool-refuses-valid-payload:{cls.__name__}", f"{name} {raw_json}: {exc!r}", [cls.__name__, pl(payload)], rank=(len(repr(raw_json)),))
            part.outcomes["refused"] += 1
            continue
        except Exception as exc:  # noqa: BLE001
            part.viol(exc_sig(f"decode-tool-escape:{cls.__name__}", exc), f"{name} {raw_json}: {exc!r}", [cls.__name__, pl(payload)], rank=(len(repr(raw_json)),))
            continue
        part.nontrivial += 1
        seen_values += 1
        for s, d in json_native(res, "decode_dpt_payload"):
            part.viol(s + ":" + cls.__name__, d, [cls.__name__, pl(payload)], rank=(len(repr(raw_json)),))
        v = res.value
        if valid and not json_equal(v, d_norm(ref_json(want))):
            part.viol(f"decoded-json-differs-from-transcoder:{cls.__name__}", f"{name} {raw_json}: tool value {v!r}, {cls.__name__}.from_knx -> {want!r} (JSON form {ref_json(want)!r})", [cls.__name__, pl(payload)], rank=(len(repr(raw_json)),))
            continue
        # the JSON value goes back through the encode tool and must decode to itself
        jv = json.loads(json.dumps(v))
        try:
            enc = run_coro(MT.encode_dpt_payload(MY.EncodeDptPayloadInput(value=jv, value_type=name)))
        except Exception as exc:  # noqa: BLE001
            part.viol(f"encode-tool-refuses-decoded-value:{cls.__name__}:{type(exc).__name__}", f"{name}: value {jv!r} (from payload {raw_json}) refused: {exc!r}", [cls.__name__, pl(payload)], rank=(len(repr(raw_json)),))
            continue
        for s, d in json_native(enc, "encode_dpt_payload"):
            part.viol(s + ":" + cls.__name__, d, [cls.__name__, pl(payload)], rank=(len(repr(raw_json)),))
        try:
            dec2 = run_coro(MT.decode_dpt_payload(MY.DecodeDptPayloadInput(payload=enc.payload, value_type=name)))
        except Exception as exc:  # noqa: BLE001
            part.viol(f"decode-tool-refuses-own-encoding:{cls.__name__}", f"{name}: {jv!r} -> {enc.payload} -> {exc!r}", [cls.__name__, pl(payload)], rank=(len(repr(raw_json)),))
            continue
        if not json_equal(json.loads(json.dumps(dec2.value)), jv):
            part.viol(f"decode-encode-not-inverse:{cls.__name__}", f"{name}: {jv!r} -> payload {enc.payload} -> {dec2.value!r}", [cls.__name__, pl(payload)], rank=(len(repr(raw_json)),))
        part.outcomes["round-trip"] += 1
    part.extra["values_round_tripped"] = seen_values
    if ci < 2:
        part.sample([cls.__name__, name])
    return part


def expected_list(main: int | None, text: str | None) -> list[str]:
    """Reference for list_dpts: every concrete class, filtered by the documented rule, ordered by number; identified by number|value type."""
    out = []
    for c in all_dpt_classes():
        if main is not None and c.dpt_main_number != main:
            continue
        hay = f"{c.dpt_number_str()}\n{c.value_type or ''}\n{c.unit or ''}".lower()
        if text is not None and text.lower() not in hay:
            continue
        out.append((c.dpt_main_number or 0, c.dpt_sub_number if c.dpt_sub_number is not None else -1, f"{c.dpt_number_str()}|{c.value_type}"))
    return [x[2] for x in sorted(out)]


def w_listing(k: int, n: int) -> Part:
    part = Part()
    mains: list[int | None] = [None] + sorted({c.dpt_main_number for c in all_dpt_classes() if c.dpt_main_number is not None}) + [0, 999]
    texts = [None, "temp", "9.", "%", "PERCENT", "1.", "zzz-no-such", "m/s"]
    i = 0
    for main in mains:
        for text in texts:
            i += 1
            if i % n != k:
                continue
            want = expected_list(main, text)
            total = len(want)
            for limit in list(range(1, total + 3)) + [-1, 200, 1000]:
                part.evaluations += 1
                got: list[str] = []
                offset = 0
                pages = 0
                ok = True
                while True:
                    res = run_coro(MT.list_dpts(MY.DptFilter(main=main, text=text, limit=limit, offset=offset)))
                    pages += 1
                    if pages == 1:
                        for s, d in json_native(res, "list_dpts"):
                            part.viol(s, d, ["list", main, text, limit])
                    if res.total_count != total:
                        part.viol("list-total-count-wrong", f"main={main} text={text!r}: total_count {res.total_count}, reference {total}", ["list", main, text, limit], rank=(limit,))
                    if limit >= 0 and len(res.dpts) > limit:
                        part.viol("list-page-larger-than-limit", f"main={main} text={text!r} limit={limit}: {len(res.dpts)} entries", ["list", main, text, limit], rank=(limit,))
                    got += [f"{d.dpt}|{d.value_type}" for d in res.dpts]
                    if res.next_offset is None:
                        break
                    if res.next_offset <= offset or pages > total + 5:
                        part.viol("list-pagination-does-not-advance", f"main={main} text={text!r} limit={limit}: next_offset {res.next_offset} at offset {offset}", ["list", main, text, limit], rank=(limit,))
                        ok = False
                        break
                    offset = res.next_offset
                if ok and got != want:
                    missing = [x for x in want if x not in got]
                    dup = sorted({x for x in got if got.count(x) > 1})
                    sig = "list-pages-miss-types" if missing else "list-pages-repeat-types" if dup else "list-order-or-content-differs"
                    part.viol(sig, f"main={main} text={text!r} limit={limit}: {len(got)} of {total} listed; missing {missing[:3]} repeated {dup[:3]}", ["list", main, text, limit], rank=(limit,))
                part.nontrivial += 1 if pages > 1 else 0
                part.extra["list_pages_fetched"] = part.extra.get("list_pages_fetched", 0) + pages
            # a page asked for at any offset (a client that changes the page size between pages, e.g. "the rest" with limit -1)
            for off in range(0, total + 2):
                for limit in (-1, 1, 3, total):
                    part.evaluations += 1
                    res = run_coro(MT.list_dpts(MY.DptFilter(main=main, text=text, limit=limit, offset=off)))
                    page = [f"{d.dpt}|{d.value_type}" for d in res.dpts]
                    ref = want[off:] if limit < 0 else want[off : off + limit]
                    if page != ref:
                        part.viol("list-page-at-offset-differs", f"main={main} text={text!r} limit={limit} offset={off}: {len(page)} entries starting {page[:2]}, reference {len(ref)} starting {ref[:2]}",
                                  ["list-at", main, text, limit, off], rank=(off, abs(limit)))
                    more = limit >= 0 and off + limit < total
                    if (res.next_offset is not None) != more or (more and res.next_offset != off + limit):
                        part.viol("list-next-offset-wrong", f"main={main} text={text!r} limit={limit} offset={off}: next_offset {res.next_offset}, {total} matches", ["list-at", main, text, limit, off], rank=(off, abs(limit)))
            # an offset at / beyond the end
            for off in (total, total + 1):
                res = run_coro(MT.list_dpts(MY.DptFilter(main=main, text=text, limit=5, offset=off)))
                if res.dpts or res.next_offset is not None:
                    part.viol("list-beyond-end-not-empty", f"main={main} text={text!r} offset={off}: {res!r}", ["list", main, text, off])
    if k == 0:
        part.sample(["list", None, "temp", 3])
    return part


def w_misc(seed: int) -> Part:
    """describe_dpt, connection status, read/send tools on a real XKNX: every result is JSON-native; read values equal the reference JSON form."""
    import logging

    logging.disable(logging.CRITICAL)
    part = Part()
    # history first: every identifier in other spellings (upper case, title case, padded) - whatever the tools answer for those,
    # it must be JSON-native, must not raise anything but a declared error, and must not change what the canonical spelling gets later
    for cls in all_dpt_classes():
        for ident in type_names(cls):
            for variant in (ident.upper(), ident.title(), f" {ident} ", ident.replace("_", "-")):
                if variant == ident:
                    continue
                try:
                    res = run_coro(MT.describe_dpt(variant))
                except Exception as exc:  # noqa: BLE001
                    part.viol(exc_sig("describe-raises", exc), f"{variant!r}: {exc!r}", ["describe", variant])
                    continue
                part.evaluations += 1
                for s, d in json_native(res, "describe_dpt"):
                    part.viol(s, d, ["describe", variant])
                try:
                    run_coro(MT.encode_dpt_payload(MY.EncodeDptPayloadInput(value=1, value_type=variant)))
                except Exception:  # noqa: BLE001
                    pass
    for cls in all_dpt_classes():
        for ident in type_names(cls) + [cls.dpt_number_str().split(".")[0]]:
            res = run_coro(MT.describe_dpt(ident))
            part.evaluations += 1
            for s, d in json_native(res, "describe_dpt"):
                part.viol(s, d, ["describe", ident])
            if ident in type_names(cls) and (not res.found or res.dpt is None or res.dpt.dpt != cls.dpt_number_str()):
                part.viol("describe-resolves-other-type", f"{ident}: {res!r}", ["describe", ident])
    for ident in ("", "no-such", "9.999", "0", "abc.def", "9.001.1"):
        res = run_coro(MT.describe_dpt(ident))
        for s, d in json_native(res, "describe_dpt"):
            part.viol(s, d, ["describe", ident])
    classes = all_dpt_classes()
    with CoreWorld(rate_limit=0) as w:
        x = w.xknx
        w.start(connected=False)
        for st in XknxConnectionState:
            for ct in XknxConnectionType:
                x.connection_manager.connection_state_changed(st, ct)
                res = run_coro(MT.get_connection_status(x))
                part.evaluations += 1
                for s, d in json_native(res, "get_connection_status"):
                    part.viol(s, d, ["status", st.name, ct.name])
        w.connect()
        answer: dict[str, Any] = {"payload": None}

        def on_send(tg: Telegram) -> None:
            if isinstance(tg.payload, GroupValueRead) and answer["payload"] is not None:
                w.incoming(Telegram(tg.destination_address, payload=GroupValueResponse(answer["payload"]), source_address=IndividualAddress("1.1.9")))

        w.iface.on_send = on_send
        for ci, cls in enumerate(classes):
            name = type_names(cls)[0] if type_names(cls) else None
            if name is None:
                continue
            n = cls.payload_length
            cands = [DPTBinary(0), DPTBinary(1)] if cls.payload_type is DPTBinary else [DPTArray(bytes(n)), DPTArray(b"\xff" * n), DPTArray(bytes((i * 37 + seed + 1) % 256 for i in range(n))), DPTArray(bytes([0x0C, 0x1A] * 7)[:n])]
            for p in cands + [None]:
                for vt in (name, None):
                    answer["payload"] = p
                    t = w.spawn(MT.read_group_value(x, MY.GroupValueReadInput(group_address="1/2/3", value_type=vt)), name="harness-user")
                    w.run(3.0)
                    part.evaluations += 1
                    if not t.done():
                        part.viol("read-tool-hangs", f"{name} {p!r}", ["read", cls.__name__, pl(p) if p else None, vt])
                        t.cancel()
                        continue
                    exc = texc(t)
                    if exc is not None:
                        try:
                            cls.from_knx(p) if p is not None else None
                            decodable = True
                        except Exception:  # noqa: BLE001
                            decodable = False
                        if decodable or not isinstance(exc, (ConversionError, CouldNotParseTelegram)):
                            part.viol(exc_sig("read-tool-escape", exc), f"{name} {p!r}: {exc!r}", ["read", cls.__name__, pl(p) if p else None, vt])
                        continue
                    res = t.result()
                    for s, d in json_native(res, "read_group_value"):
                        part.viol(s + ":" + cls.__name__, d, ["read", cls.__name__, pl(p) if p else None, vt])
                    if p is None:
                        want: Any = None
                    elif vt is None:
                        want = ref_json(p.value)
                    else:
                        want = d_norm(ref_json(cls.from_knx(p)))
                    if res.responded != (p is not None) or not json_equal(json.loads(json.dumps(res.value)), json.loads(json.dumps(want))):
                        part.viol(f"read-tool-value-differs:{cls.__name__}", f"{name}/{vt} payload {p!r}: {res!r}, reference {want!r}", ["read", cls.__name__, pl(p) if p else None, vt])
        for ga in ("1/2/3", "i-test", "65535"):
            res = run_coro(MT.send_group_value_read(x, MY.GroupAddressInput(group_address=ga)))
            for s, d in json_native(res, "send_group_value_read"):
                part.viol(s, d, ["send-read", ga])
            try:
                res = run_coro(MT.send_group_value_write(x, MY.GroupValueWriteInput(group_address=ga, value=21.5, value_type="temperature")))
            except Exception as exc:  # noqa: BLE001
                part.viol(exc_sig("send-tool-escape", exc), f"send_group_value_write({ga}, 21.5, 'temperature'): {exc!r}", ["send-write", ga])
                continue
            for s, d in json_native(res, "send_group_value_write"):
                part.viol(s, d, ["send-write", ga])
        w.run(1.0)
    part.sample(["read", "DPTTemperature", pl(DPTArray((0x0C, 0x1A))), "temperature"])
    return part


def run(ctx: Ctx) -> None:
    classes = all_dpt_classes()
    ctx.rule = (
        f"(a) decode_dpt_payload on the complete payload space of C07 restricted to each of the {len(classes)} DPT classes' own shape (all 64 binary values / all 256 one-octet arrays / two-octet arrays with an octet from a 32-value boundary alphabet - thorough: all 65 536 - and per-position sweeps for longer "
        "ones): result JSON-native (asdict -> json.dumps with the stock encoder -> loads -> equal), value equal to the reference JSON form of the transcoder's decode (complex -> dict, enum -> lower-case name, tuple "
        "-> list); every such JSON value through encode_dpt_payload and back through decode_dpt_payload must return itself; (b) list_dpts for EVERY main number (and none, unknown) x 8 text filters x EVERY page "
        "size 1..count+2 (and -1, 200, 1000): following next_offset to the end lists exactly the reference list once, in order, total_count right, pages within the limit; offsets beyond the end are empty; "
        "(c) describe_dpt for every identifier, get_connection_status for every state x type, read_group_value / send tools on a real XKNX with a responding bus: JSON-native, read value = reference JSON form."
    )
    ctx.bounds = {"dpt_classes": len(classes)}
    ctx.pmap(w_codec, [(i, ctx.seed, ctx.thorough) for i in range(len(classes))])
    ctx.pmap(w_listing, [(k, 32) for k in range(32)])
    ctx.pmap(w_misc, [(ctx.seed,)])


def replay(case: Any) -> list[tuple[str, str]]:
    part = Part()
    if case and case[0] in ("list", "list-at"):
        p = w_listing(0, 1)
        return [(s, v[1]) for s, v in p.viols.items() if v[2][:3] == case[:3] or True]
    if case and case[0] in ("describe", "status", "read", "send-read", "send-write"):
        p = w_misc(0)
        return [(s, v[1]) for s, v in p.viols.items()]
    name = case[0]
    ci = next(i for i, c in enumerate(all_dpt_classes()) if c.__name__ == name)
    p = w_codec(ci, 0, False)
    return [(s, v[1]) for s, v in p.viols.items()]
