"""C32 Device management requests get only their own answer."""

from __future__ import annotations

from ..vloop import texc

import asyncio
from typing import Any

from xknx.cemi import CEMIFrame, CEMIMessageCode
from xknx.cemi.cemi_frame import CEMIMPropInfo, CEMIMPropReadRequest, CEMIMPropReadResponse, CEMIMPropWriteRequest, CEMIMPropWriteResponse
from xknx.exceptions import CommunicationError
from xknx.io.device_management_connection import TCPDeviceManagementConnection, UDPDeviceManagementConnection
from xknx.knxip import (
    ConnectionStateRequest,
    ConnectionStateResponse,
    ConnectRequest,
    DeviceConfigurationAck,
    DeviceConfigurationRequest,
    DisconnectRequest,
    DisconnectResponse,
    ErrorCode,
)
from xknx.knxip.knxip_enum import ConnectRequestType
from xknx.profile.const import ResourceObjectType

from ..explore import Chooser, explore, finalize_states, replay_schedule
from ..runner import Ctx
from ..sim.gateway import GW_ADDR, Gateway
from ..vloop import World

TITLE = "device management requests"
CHANNEL = 5
P = {1: (ResourceObjectType.OBJECT_DEVICE, 1, 11), 2: (ResourceObjectType.OBJECT_ROUTER, 1, 52)}   # (object type, instance, property id)
ACKS = ["ack-ok", "no-ack", "ack-error-status", "ack-twice", "ack-late(0.03s)"]
ACCEPTED = ("ack-ok", "ack-twice", "ack-late(0.03s)")
ANSWERS = ["answer", "no-answer", "answer-late(11s)", "answer-twice", "answer-for-other-property", "answer-of-other-type", "indication-then-answer", "server-disconnect", "answer-other-instance"]
USER = ["-", "user-disconnect-now", "user-cancels-the-waiting-request"]
DISC = ["disconnect-response", "disconnect-response-late(0.05s)"]


def info(p: int, instance: int | None = None) -> CEMIMPropInfo:
    ot, inst, pid = P[p]
    return CEMIMPropInfo(object_type=ot, object_instance=inst if instance is None else instance, property_id=pid)


def read_con(p: int, tag: int, instance: int | None = None) -> bytes:
    # the data names what the answer is about: property number, 0x40 set when it is for another object instance
    return CEMIFrame(code=CEMIMessageCode.M_PROP_READ_CON, data=CEMIMPropReadResponse(property_info=info(p, instance), data=bytes((p if instance in (None, P[p][1]) else p | 0x40, tag)))).to_knx()


def write_con(p: int) -> bytes:
    return CEMIFrame(code=CEMIMessageCode.M_PROP_WRITE_CON, data=CEMIMPropWriteResponse(property_info=info(p))).to_knx()


def info_ind(p: int) -> bytes:
    return CEMIFrame(code=CEMIMessageCode.M_PROP_INFO_IND, data=CEMIMPropReadResponse(property_info=info(p), data=b"\xee\xee")).to_knx()


def make(kind: str, program: str, with_callback: bool = True, route_back: bool = False):
    """program: 'seq' = read P1 then write P2; 'par' = read P1 || read P2; 'same' = read P1 twice; 'reuse' = read P1, disconnect(),
    connect() again on the same object, read P1 (a new connection counts from 0 again on both sides)."""
    tcp = kind == "tcp"

    def scenario(ch: Chooser) -> list[tuple[str, str]]:
        viols: list[tuple[str, str]] = []
        with World() as w:
            loop = w.loop
            gw = Gateway(loop)
            events: list[Any] = []
            srv = {"seq": 0, "requests": [], "answer_tag": 0}
            indications: list[Any] = []

            def server_send_cemi(raw: bytes, delay: float = 0.0) -> None:
                def go() -> None:
                    if gw.tr is None or gw.tr.closed:
                        return
                    events.append((round(loop.time(), 3), "srv->", raw[:1].hex()))
                    srv.setdefault("sent", []).append((loop.time(), bytes(raw)))
                    gw.send(DeviceConfigurationRequest(CHANNEL, srv["seq"], raw))
                    srv["seq"] = (srv["seq"] + 1) % 256

                if delay:
                    loop.call_later(delay, go)
                else:
                    go()

            def handler(body: Any) -> None:
                now = loop.time()
                if isinstance(body, ConnectRequest):
                    srv["connects"] = srv.get("connects", 0) + 1
                    if srv["connects"] > 1:
                        srv["seq"] = 0                       # the server's own counter restarts with the new connection
                        srv["new_connection_at"] = len(srv["requests"])
                    gw.send(gw.connect_response(CHANNEL, tcp=tcp, request_type=ConnectRequestType.DEVICE_MGMT_CONNECTION))
                elif isinstance(body, ConnectionStateRequest):
                    gw.send(ConnectionStateResponse(body.communication_channel_id))
                elif isinstance(body, DisconnectRequest):
                    events.append((round(now, 3), "DisconnectRequest(client)"))
                    d = ch.choose("disconnect", len(DISC)) if program == "reuse-pending" else 0
                    gw.send(DisconnectResponse(body.communication_channel_id), delay=0.05 if d else 0.0)
                elif isinstance(body, DeviceConfigurationAck):
                    pass
                elif isinstance(body, DeviceConfigurationRequest):
                    raw = bytes(body.raw_cemi)
                    code = raw[0]
                    p = next((k for k, v in P.items() if int.from_bytes(raw[1:3], "big") == int(v[0]) and raw[4] == v[2]), 0)
                    key = (body.sequence_counter, raw)
                    repetition = bool(srv["requests"]) and srv["requests"][-1]["key"] == key and srv.get("new_connection_at") != len(srv["requests"])
                    if repetition and cancel_times and srv["requests"][-1]["t"] < cancel_times[-1] - 1e-9 and cancel_times[-1] <= now + 1e-9:
                        repetition = False   # the user cancelled the call in between: identical octets, but a new request of a new call
                        cancel_split = True
                    else:
                        cancel_split = False
                    rec = {"t": now, "key": key, "p": p, "code": code, "counter": body.sequence_counter, "repetition": repetition, "after_cancel": cancel_split}
                    srv["requests"].append(rec)
                    a = 0 if tcp else ch.choose("ack", len(ACKS))
                    rec["ack"] = ACKS[a]
                    if not tcp:
                        if ACKS[a] == "ack-late(0.03s)":
                            gw.send(DeviceConfigurationAck(CHANNEL, body.sequence_counter), delay=0.03)
                        if ACKS[a] in ("ack-ok", "ack-twice"):
                            gw.send(DeviceConfigurationAck(CHANNEL, body.sequence_counter))
                            if ACKS[a] == "ack-twice":
                                gw.send(DeviceConfigurationAck(CHANNEL, body.sequence_counter))
                        elif ACKS[a] == "ack-error-status":
                            gw.send(DeviceConfigurationAck(CHANNEL, body.sequence_counter, ErrorCode.E_SEQUENCE_NUMBER))
                    if not tcp and ACKS[a] not in ACCEPTED:
                        events.append((round(now, 3), f"req p{p} ctr={body.sequence_counter}", ACKS[a]))
                        return  # the server did not take the request
                    r = ch.choose("answer", len(ANSWERS))
                    rec["answer"] = ANSWERS[r]
                    events.append((round(now, 3), f"req p{p} ctr={body.sequence_counter}", ACKS[a], ANSWERS[r]))
                    srv["answer_tag"] += 1
                    tag = srv["answer_tag"]
                    rec["tag"] = tag
                    is_read = code == CEMIMessageCode.M_PROP_READ_REQ.value
                    mine = read_con(p, tag) if is_read else write_con(p)
                    other_p = 2 if p == 1 else 1
                    opt = ANSWERS[r]
                    if opt == "answer":
                        server_send_cemi(mine, 0.02)
                    elif opt == "answer-late(11s)":
                        server_send_cemi(mine, 11.0)
                    elif opt == "answer-twice":
                        server_send_cemi(mine, 0.02)
                        server_send_cemi(mine, 0.03)
                    elif opt == "answer-for-other-property":
                        server_send_cemi(read_con(other_p, tag) if is_read else write_con(other_p), 0.02)
                    elif opt == "answer-of-other-type":
                        server_send_cemi(write_con(p) if is_read else read_con(p, tag), 0.02)
                    elif opt == "answer-other-instance":
                        server_send_cemi(read_con(p, tag, instance=2) if is_read else write_con(other_p), 0.02)
                    elif opt == "indication-then-answer":
                        server_send_cemi(info_ind(p), 0.01)
                        server_send_cemi(mine, 0.02)
                    elif opt == "server-disconnect":
                        loop.call_later(0.02, lambda: (events.append((round(loop.time(), 3), "DisconnectRequest(server)")), gw.send(DisconnectRequest(CHANNEL))) if gw.tr and not gw.tr.closed else None)

            gw.handler = handler
            if tcp:
                conn: Any = TCPDeviceManagementConnection(GW_ADDR[0], GW_ADDR[1], indication_callback=indications.append if with_callback else None)
            else:
                conn = UDPDeviceManagementConnection(GW_ADDR[0], GW_ADDR[1], local_ip="192.168.1.2", route_back=route_back, indication_callback=indications.append if with_callback else None)
            t0 = w.spawn(conn.connect(), name="harness-connect")
            loop.settle()
            if not (t0.done() and texc(t0) is None):
                return [("harness:connect-failed", repr(t0))]
            results: dict[str, Any] = {}
            closed_at: list[float] = []
            cancelled_by_user: list[bool] = []
            cancel_times: list[float] = []

            async def _do(name: str, p: int, write: bool) -> None:
                start = loop.time()
                try:
                    if write:
                        await conn.write_property(P[p][0], P[p][2], b"\x01", object_instance=P[p][1])
                        results[name] = ("ok", None, start, loop.time(), p, write)
                    else:
                        data = await conn.read_property(P[p][0], P[p][2], object_instance=P[p][1])
                        results[name] = ("ok", bytes(data), start, loop.time(), p, write)
                except CommunicationError as exc:
                    results[name] = ("CommunicationError", str(exc)[:50], start, loop.time(), p, write)
                except BaseException as exc:  # noqa: BLE001
                    results[name] = (type(exc).__name__, repr(exc)[:60], start, loop.time(), p, write)

            current: list[Any] = []

            async def do(name: str, p: int, write: bool) -> None:   # noqa: F811  (cancellable wrapper around the request above)
                t = asyncio.ensure_future(_do(name, p, write))
                current[:] = [t]
                try:
                    await t
                except asyncio.CancelledError:
                    if not t.cancelled():
                        raise

            async def user() -> None:
                if program == "seq":
                    await do("r1", 1, False)
                    await do("w2", 2, True)
                elif program == "reuse-pending":
                    # the connection is closed while the first request is still waiting, then opened again on the same object
                    t1 = asyncio.ensure_future(_do("r1a", 1, False))
                    await asyncio.sleep(0.015)
                    events.append((round(loop.time(), 3), "user disconnect()"))
                    closed_at.append(loop.time())
                    try:
                        await conn.disconnect()
                        await t1
                        await conn.connect()
                    except CommunicationError:
                        return
                    await do("r1b", 1, False)
                elif program == "same":
                    await do("r1a", 1, False)
                    await do("r1b", 1, False)
                elif program == "reuse":
                    await do("r1a", 1, False)
                    try:
                        await conn.disconnect()
                        await conn.connect()
                    except CommunicationError:
                        return
                    await do("r1b", 1, False)
                else:
                    await asyncio.gather(do("r1", 1, False), do("r2", 2, False))

            async def closer() -> None:
                # the user may close the connection while a request is waiting for its answer
                await asyncio.sleep(0.015)
                if program in ("reuse", "reuse-pending"):
                    return   # this program closes and reopens the connection itself
                # (cancellation only in the sequential programs, where the call that is waiting is the one being cancelled)
                c = ch.choose("user", len(USER) if program != "par" else 2)
                if c == 2:
                    events.append((round(loop.time(), 3), "user cancels the waiting request"))
                    if current and not current[0].done():
                        current[0].cancel()
                        cancelled_by_user.append(True)
                        cancel_times.append(loop.time())
                elif c == 1:
                    events.append((round(loop.time(), 3), "user disconnect()"))
                    closed_at.append(loop.time())
                    await conn.disconnect()

            u = w.spawn(user(), name="harness-user")
            c = w.spawn(closer(), name="harness-closer")
            loop.run_until(150)
            if not u.done():
                viols.append(("request-never-returns", f"results={results}; events={events}"))
            # ---- oracle
            reqs = srv["requests"]
            tags = {r.get("tag"): r for r in reqs if "tag" in r}
            for name, (kind_, val, start, end, p, write) in results.items():
                if kind_ == "ok" and not write:
                    if len(val) == 2 and val[0] == p | 0x40:
                        viols.append(("answer-of-other-instance-returned", f"{name}: read of P{p} (instance {P[p][1]}) returned the answer for instance 2: {val.hex()}; events={events}"))
                    elif len(val) != 2 or val[0] != p:
                        viols.append(("answer-of-other-property-returned", f"{name}: read of P{p} returned {val.hex()}; events={events}"))
                    else:
                        # (an answer produced for an EARLIER request for the very same property is indistinguishable on the wire -
                        #  the statement only requires type/object/instance/property to match - so it is only counted)
                        r = tags.get(val[1])
                        if r is None or r["p"] != p:
                            viols.append(("answer-of-unknown-origin-returned", f"{name}: read of P{p} returned the answer tagged {val[1]} which belongs to {r}; events={events}"))
                        elif r["t"] < start - 1e-9:
                            ch.notes.append("same-property-stale-answer-used")
                elif kind_ == "ok" and write:
                    mine = [r for r in reqs if r["p"] == p and r["code"] == CEMIMessageCode.M_PROP_WRITE_REQ.value and r.get("answer") in ("answer", "answer-twice", "indication-then-answer", "answer-late(11s)")]
                    if not mine:
                        viols.append(("write-confirmed-without-own-answer", f"{name}: write of P{p} returned although the server never confirmed it; events={events}"))
                elif kind_ == "CancelledError" and cancelled_by_user:
                    pass   # the user cancelled this call
                elif kind_ not in ("CommunicationError",):
                    viols.append((f"request-raises-undeclared:{kind_}", f"{name}: {val}; events={events}"))
            if closed_at:
                for name, (kind_, val, start, end, p, write) in results.items():
                    if start < closed_at[0] - 1e-9 and closed_at[0] <= end and kind_ != "ok" and end - closed_at[0] > 1e-6:
                        last = [r for r in reqs if r["p"] == p and r["t"] <= closed_at[0] + 1e-9]
                        phase = "waiting-for-acknowledgement" if last and (last[-1]["ack"] not in ACCEPTED or (last[-1]["ack"] == "ack-late(0.03s)" and closed_at[0] < last[-1]["t"] + 0.03)) else "waiting-for-answer" if last else "waiting-for-lock"
                        viols.append((f"pending-request-not-failed-promptly:{phase}", f"{name}: user closed at t={closed_at[0]} while the request was waiting; it failed only at t={end} ({kind_}: {val}); events={events}"))
            want_ind = sum(1 for r in reqs if r.get("answer") == "indication-then-answer")
            if len(indications) > want_ind:
                viols.append(("indication-callback-got-non-indication", f"{len(indications)} callbacks for {want_ind} indications; events={events}"))
            if any(i.code is not CEMIMessageCode.M_PROP_INFO_IND for i in indications):
                viols.append(("indication-callback-got-non-indication", f"{indications}; events={events}"))
            # one request outstanding: a NEW request may only arrive once the previous one is resolved (answered, timed out, or refused)
            news = [r for r in reqs if not r["repetition"]]
            for a, b in zip(news, news[1:]):
                ra = next((v for v in results.values() if v[4] == a["p"] and v[2] <= a["t"] + 1e-9 <= v[3] + 1e-9), None)
                if ra is not None and b["t"] < ra[3] - 1e-9:
                    viols.append(("two-requests-outstanding", f"request {b['key'][1].hex()} sent at t={b['t']} while the request for P{a['p']} was still outstanding until t={ra[3]}; events={events}"))
            if not tcp:
                # repetitions: same counter, at most 3, 10 s apart; counter +1 per accepted request
                runs: list[list[Any]] = []
                for r in reqs:
                    if r["repetition"] and runs:
                        runs[-1].append(r)
                    else:
                        runs.append([r])
                # a call cancelled by the user before the (late) acknowledgement of its request arrived: whether the server took the
                # request is unknowable for the client - the counter clauses are not judged in such a schedule
                unknowable = bool(cancelled_by_user) and any(r["t"] <= 0.015 + 1e-9 and r["ack"] == "ack-late(0.03s)" for r in reqs)
                expect = 0
                for ri, run in enumerate([] if unknowable else runs):
                    run_end = min(run[-1]["t"] + 10, runs[ri + 1][0]["t"] - 1e-6) if ri + 1 < len(runs) else run[-1]["t"] + 10
                    nca = srv.get("new_connection_at")
                    if nca is not None and nca < len(reqs) and run[0] is reqs[nca]:
                        expect = 0   # first request of the second connection
                    if len(run) > 4:
                        viols.append(("repeated-more-than-three-times", f"{len(run) - 1} repetitions of counter {run[0]['counter']}; events={events}"))
                    if any(x["counter"] != run[0]["counter"] for x in run):
                        viols.append(("repetition-with-other-counter", f"{[x['counter'] for x in run]}; events={events}"))
                    if run[0]["counter"] != expect:
                        viols.append(("request-counter-wrong", f"request carries counter {run[0]['counter']}, reference {expect}; events={events}"))
                    # accepted, as far as the client can tell: acknowledged - or, the acknowledgement missing, an answer for exactly this
                    # request (same service, object type, instance and property; it cannot tell a stale duplicate apart) arrived meanwhile
                    req_raw = run[0]["key"][1]
                    con_code = {CEMIMessageCode.M_PROP_READ_REQ.value: CEMIMessageCode.M_PROP_READ_CON.value, CEMIMessageCode.M_PROP_WRITE_REQ.value: CEMIMessageCode.M_PROP_WRITE_CON.value}.get(req_raw[0])
                    answered = any(run[0]["t"] - 1e-9 <= t <= run_end + 1e-9 and raw[0] == con_code and raw[1:5] == req_raw[1:5] for t, raw in srv.get("sent", []))
                    if any(x["ack"] in ACCEPTED for x in run):
                        expect = (expect + 1) % 256
                    elif answered:
                        expect = (expect + 1) % 256
                        continue
                    elif len(run) == 4 and any(run[0]["t"] - 1e-9 <= ct <= run[-1]["t"] + 10 + 1e-9 for ct in cancel_times):
                        pass   # the user cancelled the call while its last repetition was waiting: nothing left to terminate
                    elif len(run) == 4 and not any(e[1] == "DisconnectRequest(client)" for e in events):
                        viols.append(("no-disconnect-after-unacknowledged-repetitions", f"events={events}"))
                # 'the counter advances once per accepted request': what the client would put into its next request
                if not unknowable and conn.communication_channel is not None and srv.get("new_connection_at") is None and conn.sequence_number != expect:
                    viols.append(("counter-advanced-without-acceptance" if conn.sequence_number > expect else "counter-not-advanced-after-acceptance",
                                  f"the client's next counter is {conn.sequence_number}, the server accepted {expect} request(s) on this connection; events={events}"))
            for name, exc in loop.task_failures():
                viols.append((f"task-exception:{type(exc).__name__}", f"{name}: {exc!r}; events={events}"))
            for cx in loop.exceptions:
                viols.append((f"loop-exception:{type(cx.get('exception')).__name__}", repr(cx)[:200] + f"; events={events}"))
            ch.notes.append(",".join(f"{k}={v[0]}" for k, v in sorted(results.items())))
            ch.state(tuple(sorted((k, v[0]) for k, v in results.items())))
        seen: set[str] = set()
        return [(s, d) for s, d in viols if not (s in seen or seen.add(s))]

    return scenario


SCENARIOS = {"dm": make}


def run(ctx: Ctx) -> None:
    bound = 5 if ctx.thorough else 3
    ctx.rule = (
        f"real UDP/TCPDeviceManagementConnection (connected through connect()) against a simulated server: programs read P1 then write P2 / read P1 twice / two reads concurrently / read, disconnect(), connect() on the same object, read again (also with route_back=True), or disconnect() while the first read is still waiting and then connect() and read again (the server may answer the DisconnectRequest 50 ms late), optional "
        f"user disconnect() or cancellation of the waiting call; per DeviceConfigurationRequest the server acknowledges with {ACKS} (UDP) and answers with {ANSWERS}; EVERY schedule with <= {bound} deviations. "
        "Oracle: a returned read carries the request's property AND was produced for this request (tagged), writes need their own confirmation, indications only reach the indication callback, "
        "one request outstanding, a close fails a waiting request at the same virtual instant, UDP: same counter repeated <= 3 times then DisconnectRequest, counter +1 per accepted request"
    )
    ctx.bounds = {"deviation_bound": bound}
    for kind in ("udp", "tcp"):
        for prog in ("seq", "same", "par"):
            explore(ctx, __name__, "dm", (kind, prog, True), bound=bound)
        explore(ctx, __name__, "dm", (kind, "seq", False), bound=bound)   # no indication callback registered (the default)
        explore(ctx, __name__, "dm", (kind, "reuse", True), bound=min(bound, 2))
        explore(ctx, __name__, "dm", (kind, "reuse-pending", True), bound=min(bound, 3))
    explore(ctx, __name__, "dm", ("udp", "reuse", True, True), bound=min(bound, 2))     # route_back=True
    explore(ctx, __name__, "dm", ("udp", "seq", True, True), bound=min(bound, 2))
    finalize_states(ctx)


def replay(case: Any) -> list[tuple[str, str]]:
    return replay_schedule(__name__, case)
