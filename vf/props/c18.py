"""C18 Secured group addresses never take plain data, and bad frames never crash."""

from __future__ import annotations

from ..vloop import texc

import asyncio
from typing import Any

from xknx.dpt import DPTArray, DPTBinary
from xknx.management.management import Management
from xknx.telegram import GroupAddress, Telegram
from xknx.telegram.apci import APCI, GroupValueRead, GroupValueResponse, GroupValueWrite, SecureAPDU

from ..apcispace import struct_space
from ..dsecure import Receiver, plain_frame, secure_frame
from ..runner import Ctx, Part, exc_sig
from ..vloop import World

TITLE = "secured groups never take plain data; bad frames never crash"
KEY = bytes(range(16))
KEYED, UNKEYED = 0x0901, 0x0902
SENDER = 0x1101
PLAIN_APDUS = {"write-6bit": bytes.fromhex("0081"), "write-array": bytes.fromhex("00800102"), "read": bytes.fromhex("0000"), "response": bytes.fromhex("004005")}


def w_plain_and_secured() -> Part:
    part = Part()
    calls: list[Any] = []
    orig = Management.process
    Management.process = lambda self, telegram: calls.append(telegram)  # type: ignore[method-assign]
    try:
        for name, apdu in PLAIN_APDUS.items():
            for code in (0x29,):
                for (ga, keyed), sender in [(g, s) for g in ((KEYED, True), (UNKEYED, False)) for s in (SENDER, 0x1109, 0x0000)]:
                    rx = Receiver({KEYED: KEY}, {SENDER: 0})
                    got, issues, exc = rx.feed(plain_frame(sender, ga, apdu, code=code))
                    part.evaluations += 1
                    part.nontrivial += 1
                    case = {"kind": "plain", "apdu": name, "keyed": keyed, "sender": sender}
                    if exc is not None:
                        part.viol(exc_sig("plain-frame-raises", exc), f"{case}: {exc!r}", case)
                    elif keyed and (got or calls):
                        part.viol("plain-frame-delivered-to-secured-group", f"{case}: {got}", case)
                    elif keyed and issues != 1:
                        part.viol("plain-frame-to-secured-group-not-reported", f"{case}: key-issue callbacks={issues}", case)
                    elif not keyed and (len(got) != 1 or got[0].data_secure or issues):
                        part.viol("plain-frame-to-plain-group-not-delivered", f"{case}: {got} issues={issues}", case)
                    calls.clear()
            # secured frames: to the keyed group (delivered), to a group without key and from an unknown sender (reported, not delivered)
            for ga, sender, ok in ((KEYED, SENDER, True), (UNKEYED, SENDER, False), (KEYED, 0x1109, False)):
                rx = Receiver({KEYED: KEY}, {SENDER: 0})
                got, issues, exc = rx.feed(secure_frame(KEY, sender, ga, 5, apdu))
                part.evaluations += 1
                part.nontrivial += 1
                case = {"kind": "secured", "apdu": name, "ga": ga, "sender": sender}
                if exc is not None:
                    part.viol(exc_sig("secured-frame-raises", exc), f"{case}: {exc!r}", case)
                elif ok and (len(got) != 1 or not got[0].data_secure):
                    part.viol("secured-frame-not-delivered", f"{case}: {got}", case)
                elif not ok and (got or issues != 1):
                    part.viol("undecodable-secured-frame-mishandled", f"{case}: delivered={got} issues={issues}", case)
    finally:
        Management.process = orig  # type: ignore[method-assign]
    part.sample({"plain_apdus": list(PLAIN_APDUS), "groups": ["keyed 1/1/1", "unkeyed 1/1/2"]})
    return part


def failing_representatives(code_lo: int, code_hi: int) -> list[tuple[int, str, bytes]]:
    """One shortest APDU per (APCI code, failure kind) of the C04 struct space, plus accepted ones for contrast."""
    from xknx.exceptions import ConversionError, UnsupportedAPCIService

    out: dict[tuple[int, str], bytes] = {}
    for code in range(code_lo, code_hi):
        for raw in struct_space(code, 0, False):
            if raw[0] & 0xFC or len(raw) > 40:
                continue
            try:
                APCI.from_knx(raw)
                kind = "accepted"
            except UnsupportedAPCIService:
                kind = "unsupported"
            except ConversionError:
                kind = "malformed"
            except Exception as exc:  # noqa: BLE001
                kind = "escape-" + type(exc).__name__
            if (code, kind) not in out:
                out[(code, kind)] = raw
    return [(c, k, r) for (c, k), r in sorted(out.items())]


def w_inner(code_lo: int, code_hi: int) -> Part:
    """Correctly authenticated frames (both algorithms) whose decrypted content is each failing APDU class."""
    part = Part()
    orig = Management.process
    Management.process = lambda self, telegram: None  # type: ignore[method-assign]
    try:
        reps = failing_representatives(code_lo, code_hi)
        if code_lo == 0:
            reps += [(-1, "empty", b""), (-1, "one-octet", b"\x00"), (-1, "one-octet", b"\x03")]
        rx = Receiver({KEYED: KEY}, {SENDER: 0})
        seq = 0
        for code, kind, inner in reps:
            for encrypt in (True, False):
                seq += 1
                raw = secure_frame(KEY, SENDER, KEYED, seq, inner, encrypt=encrypt)
                got, issues, exc = rx.feed(raw)
                part.evaluations += 1
                part.outcomes[f"{kind}:{'delivered' if got else 'dropped'}"] += 1
                case = {"kind": "inner", "code": code, "class": kind, "inner": inner, "enc": encrypt}
                if kind != "accepted":
                    part.nontrivial += 1
                if exc is not None:
                    part.viol(exc_sig(f"authenticated-frame-with-bad-content-raises:{kind}", exc), f"inner APDU {inner.hex()} ({kind}, code {code:#05x}): {exc!r}", case, rank=(len(inner), inner))
                elif kind != "accepted" and got:
                    part.viol("malformed-content-delivered", f"inner APDU {inner.hex()}: {got}", case)
                elif kind == "accepted" and len(got) > 1:
                    part.viol("delivered-twice", f"inner APDU {inner.hex()}", case)
    finally:
        Management.process = orig  # type: ignore[method-assign]
    return part


def scf_case(scf: int, dst: str, sender: int, body: str) -> list[tuple[str, str]]:
    """One A_SecureData frame with the given security control field octet through the real receive path."""
    own = 0x1105
    da, group = {"keyed-group": (KEYED, True), "unkeyed-group": (UNKEYED, True), "own-address": (own, False), "other-address": (0x1107, False)}[dst]
    rx = Receiver({KEYED: KEY}, {SENDER: 0}, own=own)
    if body == "reference-mac":
        raw = secure_frame(KEY, sender, da, 5, bytes.fromhex("0081"), encrypt=bool(scf & 0x10), dst_is_group=group, scf=scf)
    else:
        from ..dsecure import encode_ldata

        sec_apdu = bytes((0x03, 0xF1, scf)) + (5).to_bytes(6, "big") + (b"" if body == "no-apdu" else b"\x5a\xa5") + b"\xde\xad\xbe\xef"
        raw = encode_ldata(0x29, priority=3, repeat_on_error=False, system_broadcast=False, ack=False, confirm_error=False, hop_count=6, dst_is_group=group, src=sender, dst=da, tpci_octet=0, apdu=sec_apdu)
    got, issues, exc = rx.feed(raw)
    tag = f"{'reserved-algorithm' if scf & 0x60 else 'known-algorithm'}:{'tool' if scf & 0x80 else 'no-tool'}:{'sbc' if scf & 0x08 else 'no-sbc'}:service-{scf & 7}"
    if exc is not None:
        return [(exc_sig(f"secure-frame-raises:scf:{dst}", exc), f"scf={scf:#04x} ({tag}) to {dst} from {sender:#06x}, body {body}: {exc!r}")]
    plain_ok = scf in (0x00, 0x10) and dst == "keyed-group" and sender == SENDER and body == "reference-mac"
    if got and not plain_ok:
        return [(f"secure-frame-delivered-wrongly:scf:{dst}", f"scf={scf:#04x} ({tag}) to {dst} from {sender:#06x}, body {body}: delivered {got}")]
    if plain_ok and (len(got) != 1 or not got[0].data_secure):
        return [("secured-frame-not-delivered", f"scf={scf:#04x} to {dst}: {got}")]
    return []


def w_scf(lo: int, hi: int) -> Part:
    """EVERY security control field octet x destination kind x known/unknown sender x body (reference MAC, garbage, no secured APDU)."""
    part = Part()
    orig = Management.process
    Management.process = lambda self, telegram: None  # type: ignore[method-assign]
    try:
        for scf in range(lo, hi):
            for dst in ("keyed-group", "unkeyed-group", "own-address", "other-address"):
                for sender in (SENDER, 0x1109):
                    for body in ("reference-mac", "garbage", "no-apdu"):
                        part.evaluations += 1
                        if scf not in (0x00, 0x10):
                            part.nontrivial += 1
                        viols = scf_case(scf, dst, sender, body)
                        part.outcomes["bad" if viols else "ok"] += 1
                        for sig, detail in viols:
                            part.viol(sig, detail, {"kind": "scf", "scf": scf, "dst": dst, "sender": sender, "body": body}, rank=(bin(scf).count("1"), scf))
    finally:
        Management.process = orig  # type: ignore[method-assign]
    return part


def w_outgoing() -> Part:
    """Every telegram to a keyed group leaves send_telegram secured (and plain groups stay plain)."""
    part = Part()
    with World() as w:
        rx = Receiver({KEYED: KEY}, {SENDER: 0})
        sent: list[Any] = []

        class Fake:
            async def send_cemi(self, cemi: Any) -> None:
                sent.append(cemi)
                rx.xknx.cemi_handler._l_data_confirmation_event.set()  # noqa: SLF001  confirmation arrives at once

        rx.xknx.knxip_interface = Fake()  # type: ignore[assignment]
        payloads = [GroupValueWrite(DPTBinary(1)), GroupValueWrite(DPTArray((1, 2, 3))), GroupValueRead(), GroupValueResponse(DPTArray((9,))), GroupValueWrite(DPTArray(tuple(range(14))))]

        async def go() -> None:
            for ga, keyed in ((KEYED, True), (UNKEYED, False)):
                for p in payloads:
                    tg = Telegram(GroupAddress(ga), payload=p)
                    n = len(sent)
                    part.evaluations += 1
                    part.nontrivial += 1
                    case = {"kind": "outgoing", "ga": ga, "payload": repr(p)}
                    try:
                        await rx.xknx.cemi_handler.send_telegram(tg)
                    except Exception as exc:  # noqa: BLE001
                        part.viol(exc_sig("outgoing-raises", exc), f"{case}: {exc!r}", case)
                        continue
                    frames = sent[n:]
                    if len(frames) != 1:
                        part.viol("outgoing-frame-count", f"{case}: {len(frames)} frames", case)
                        continue
                    is_sec = isinstance(frames[0].data.payload, SecureAPDU)
                    if keyed and not is_sec:
                        part.viol("plain-frame-sent-to-secured-group", f"{case}: {frames[0]}", case)
                    if not keyed and is_sec:
                        part.viol("secured-frame-sent-to-plain-group", f"{case}", case)
                    if bool(tg.data_secure) != keyed:
                        part.viol("telegram-data-secure-flag-wrong", f"{case}: data_secure={tg.data_secure}", case)
                    if keyed and is_sec:
                        # and a receiver with the key gets the original back
                        rx2 = Receiver({KEYED: KEY}, {0x1105: 0})
                        got, _i, exc = rx2.feed(b"\x29\x00" + frames[0].data.to_knx())
                        if exc is not None or len(got) != 1 or got[0].payload != p:
                            part.viol("own-secured-frame-not-accepted", f"{case}: {got} {exc!r}", case)

        t = w.spawn(go())
        w.loop.run_until(30)
        if not t.done():
            part.viol("outgoing-never-finishes", "send_telegram pending", {"kind": "outgoing"})
        elif texc(t):
            part.viol("harness:outgoing", repr(texc(t)), {"kind": "outgoing"})
    return part


def w_keyring_init() -> Part:
    """The same guarantees when Data Secure is initialised the way applications do it - CEMIHandler.data_secure_init(keyring) -
    over keyring shapes: keyed group addresses {one, two} x senders known from {nothing, an interface's group list, the device
    list, both} x an interface entry without senders."""
    from xknx import XKNX
    from xknx.secure.keyring import InterfaceType, Keyring, XMLDevice, XMLGroupAddress, XMLInterface
    from xknx.telegram import IndividualAddress

    part = Part()
    calls: list[Any] = []
    orig = Management.process
    Management.process = lambda self, telegram: calls.append(telegram)  # type: ignore[method-assign]
    try:
        for n_keys in (1, 2):
            for senders_from in ("nothing", "interface", "devices", "both", "interface-without-senders"):
                kr = Keyring()
                for i in range(n_keys):
                    g = XMLGroupAddress()
                    g.address = GroupAddress(KEYED + 0x10 * i)
                    g.decrypted_key = KEY
                    kr.group_addresses.append(g)
                if senders_from in ("interface", "both", "interface-without-senders"):
                    itf = XMLInterface()
                    itf.type = InterfaceType.TUNNELING
                    itf.individual_address = IndividualAddress(0x1105)
                    itf.group_addresses = {GroupAddress(KEYED): [] if senders_from == "interface-without-senders" else [IndividualAddress(SENDER)]}
                    kr.interfaces.append(itf)
                if senders_from in ("devices", "both"):
                    d = XMLDevice()
                    d.individual_address = IndividualAddress(SENDER)
                    d.sequence_number = 3
                    kr.devices.append(d)
                sender_known = senders_from in ("interface", "devices", "both")
                for name, apdu, previous in [(n_, a_, pv) for n_, a_ in PLAIN_APDUS.items() for pv in ("first-init", "after-another-keyring", "after-init-without-keyring")]:
                    xknx = XKNX()
                    xknx.current_address = IndividualAddress(0x1105)
                    issues: list[Any] = []
                    xknx.telegram_queue.register_data_secure_group_key_issue_cb(issues.append)
                    case = {"kind": "keyring-init", "keys": n_keys, "senders_from": senders_from, "apdu": name, "previous": previous}
                    try:
                        # an earlier session on the same XKNX object (stop() / start() with another project): what was learnt then must not survive
                        if previous == "after-another-keyring":
                            old = Keyring()
                            g0 = XMLGroupAddress()
                            g0.address = GroupAddress(0x0999)
                            g0.decrypted_key = bytes(16)
                            old.group_addresses.append(g0)
                            d0 = XMLDevice()
                            d0.individual_address = IndividualAddress(0x1177)
                            d0.sequence_number = 9
                            old.devices.append(d0)
                            xknx.cemi_handler.data_secure_init(old)
                        elif previous == "after-init-without-keyring":
                            xknx.cemi_handler.data_secure_init(None)
                        xknx.cemi_handler.data_secure_init(kr)
                    except Exception as exc:  # noqa: BLE001
                        part.viol(exc_sig("data-secure-init-raises", exc), f"{case}: {exc!r}", case)
                        continue

                    def feed(raw: bytes) -> tuple[list[Any], BaseException | None]:
                        try:
                            xknx.cemi_handler.handle_raw_cemi(raw)
                        except BaseException as e:  # noqa: BLE001
                            return [], e
                        out = []
                        while not xknx.telegrams.empty():
                            out.append(xknx.telegrams.get_nowait())
                        return out, None

                    for ga, keyed in ((KEYED, True), (UNKEYED, False)):
                        part.evaluations += 1
                        part.nontrivial += 1
                        n_iss = len(issues)
                        got, exc = feed(plain_frame(SENDER, ga, apdu))
                        if exc is not None:
                            part.viol(exc_sig("plain-frame-raises", exc), f"{case} ga={ga:#06x}: {exc!r}", case)
                        elif keyed and (got or calls):
                            part.viol("plain-frame-delivered-to-secured-group:keyring-init", f"{case}: a plain frame to the keyed group address reached the telegram queue: {got}", case)
                        elif keyed and len(issues) - n_iss != 1:
                            part.viol("plain-frame-to-secured-group-not-reported:keyring-init", f"{case}: key-issue callbacks={len(issues) - n_iss}", case)
                        elif not keyed and len(got) != 1:
                            part.viol("plain-frame-to-plain-group-not-delivered:keyring-init", f"{case}: {got}", case)
                        calls.clear()
                    # a correctly secured frame from the sender: delivered exactly when the keyring names the sender
                    part.evaluations += 1
                    got, exc = feed(secure_frame(KEY, SENDER, KEYED, 5, apdu))
                    if exc is not None:
                        part.viol(exc_sig("secured-frame-raises", exc), f"{case}: {exc!r}", case)
                    elif sender_known and (len(got) != 1 or not got[0].data_secure):
                        part.viol("secured-frame-not-delivered:keyring-init", f"{case}: {got}", case)
                    elif not sender_known and got:
                        part.viol("secured-frame-from-unknown-sender-delivered:keyring-init", f"{case}: {got}", case)
                    # outgoing to the keyed address leaves secured
                    ds = xknx.cemi_handler.data_secure
                    from xknx.cemi import CEMILData

                    part.evaluations += 1
                    try:
                        tg = Telegram(GroupAddress(KEYED), payload=GroupValueWrite(DPTBinary(1)))
                        data = CEMILData.init_from_telegram(tg, src_addr=IndividualAddress(0x1105))
                        out = ds.outgoing_cemi(data) if ds is not None else data
                        if not isinstance(out.payload, SecureAPDU):
                            part.viol("plain-frame-sent-to-secured-group:keyring-init", f"{case}: outgoing frame for the keyed group address is not secured (data_secure={'None' if ds is None else 'set'})", case)
                    except Exception as exc:  # noqa: BLE001
                        part.viol(exc_sig("outgoing-raises", exc), f"{case}: {exc!r}", case)
    finally:
        Management.process = orig  # type: ignore[method-assign]
    return part


def w_during_start() -> Part:
    """The real XKNX.start() with a Data Secure keyring over a TCP tunnel whose gateway sends bus frames together with its
    ConnectResponse: frames handled while start() is still running are judged like any other."""
    import logging

    from xknx import XKNX
    from xknx.io import ConnectionConfig, ConnectionType, SecureConfig
    from xknx.knxip import ConnectionStateRequest, ConnectionStateResponse, ConnectRequest, DisconnectRequest, DisconnectResponse, TunnellingRequest
    from xknx.secure.keyring import Keyring, XMLDevice, XMLGroupAddress
    from xknx.telegram import IndividualAddress

    from ..sim.gateway import GW_ADDR, Gateway
    from ..vloop import World, texc

    logging.disable(logging.CRITICAL)
    part = Part()
    for name, apdu in PLAIN_APDUS.items():
        for second_session in (False, True):
            with World() as w:
                loop = w.loop
                gw = Gateway(loop)
                st = {"chan": 6}

                def handler(body: Any, apdu: bytes = apdu) -> None:
                    if isinstance(body, ConnectRequest):
                        st["chan"] += 1
                        gw.send(gw.connect_response(st["chan"], tcp=True))
                        gw.send(TunnellingRequest(st["chan"], 0, plain_frame(SENDER, KEYED, apdu)))     # arrives in the same read
                        gw.send(TunnellingRequest(st["chan"], 1, plain_frame(SENDER, UNKEYED, apdu)))
                    elif isinstance(body, ConnectionStateRequest):
                        gw.send(ConnectionStateResponse(body.communication_channel_id))
                    elif isinstance(body, DisconnectRequest):
                        gw.send(DisconnectResponse(body.communication_channel_id))

                gw.handler = handler
                kr = Keyring()
                g = XMLGroupAddress()
                g.address = GroupAddress(KEYED)
                g.decrypted_key = KEY
                kr.group_addresses.append(g)
                d = XMLDevice()
                d.individual_address = IndividualAddress(SENDER)
                d.sequence_number = 3
                kr.devices.append(d)
                xknx = XKNX(connection_config=ConnectionConfig(connection_type=ConnectionType.TUNNELING_TCP, gateway_ip=GW_ADDR[0], gateway_port=GW_ADDR[1], secure_config=SecureConfig(keyring=kr)))
                seen: list[Any] = []
                issues: list[Any] = []
                xknx.telegram_queue.register_telegram_received_cb(seen.append)
                xknx.telegram_queue.register_data_secure_group_key_issue_cb(issues.append)
                case = {"kind": "during-start", "apdu": name, "second_session": second_session}
                try:
                    sessions = 2 if second_session else 1
                    for k in range(sessions):
                        t = w.spawn(xknx.start(), name="harness-start")
                        loop.run_until(loop.time() + 2)
                        if not t.done() or texc(t) is not None:
                            part.viol("harness:start-failed", f"{case}: {t!r}", case)
                            break
                        if k + 1 < sessions:
                            t = w.spawn(xknx.stop(), name="harness-stop")
                            loop.run_until(loop.time() + 2)
                            seen.clear()
                            issues.clear()
                    part.evaluations += 1
                    part.nontrivial += 1
                    keyed = [tg for tg in seen if tg.destination_address == GroupAddress(KEYED)]
                    plain = [tg for tg in seen if tg.destination_address == GroupAddress(UNKEYED)]
                    if keyed:
                        part.viol("plain-frame-delivered-to-secured-group:during-start", f"{case}: a plain frame to the keyed group address that arrived with the ConnectResponse reached the telegram callbacks: {keyed}", case)
                    elif len(issues) != 1:
                        part.viol("plain-frame-to-secured-group-not-reported:during-start", f"{case}: key-issue callbacks={len(issues)}", case)
                    if len(plain) != 1:
                        part.viol("plain-frame-to-plain-group-not-delivered:during-start", f"{case}: {plain}", case)
                    t = w.spawn(xknx.stop(), name="harness-stop")
                    loop.run_until(loop.time() + 2)
                finally:
                    xknx.started.clear()
    return part


def run(ctx: Ctx) -> None:
    ctx.rule = (
        "real CEMIHandler with DataSecure: plain GroupValueWrite(6-bit/array)/Read/Response frames to a keyed and an unkeyed group; secured frames (reference-built) to keyed/unkeyed groups and from an "
        "unknown sender; correctly authenticated frames (both algorithms) carrying ONE representative of EVERY (APCI code, failure kind) class of the C04 struct space (all 1024 codes) plus empty and "
        "1-octet inner APDUs; outgoing telegrams of 5 payload kinds to keyed/unkeyed groups through send_telegram. Oracle: nothing raises; plain->keyed only reaches the key-issue callbacks; "
        "malformed content is never delivered; outgoing to keyed groups is always a SecureAPDU that a second receiver decodes to the original; the plain/secured/outgoing clauses again with Data Secure initialised through "
        "CEMIHandler.data_secure_init(keyring) over 10 keyring shapes (1-2 keyed groups x senders known from nothing / an interface / the device list / both / an interface entry without senders); A_SecureData frames with EVERY security control field octet (256) x destination {keyed group, unkeyed group, own address, other address} x known/unknown sender x body {reference MAC, garbage, no secured APDU}: nothing raises, only S-A_Data with a known algorithm and a verifying MAC to the keyed group from the known sender is delivered"
    )
    ctx.pmap(w_plain_and_secured, [()])
    ctx.pmap(w_inner, [(c, c + 64) for c in range(0, 1024, 64)])
    ctx.pmap(w_outgoing, [()])
    ctx.pmap(w_keyring_init, [()])
    ctx.pmap(w_scf, [(c, c + 16) for c in range(0, 256, 16)])
    ctx.pmap(w_during_start, [()])


def replay(case: Any) -> list[tuple[str, str]]:
    if case.get("kind") == "keyring-init":
        p = w_keyring_init()
        return [(sg, v[1]) for sg, v in p.viols.items()]
    if case.get("kind") == "during-start":
        p = w_during_start()
        return [(sg, v[1]) for sg, v in p.viols.items()]
    if case.get("kind") == "scf":
        orig = Management.process
        Management.process = lambda self, telegram: None  # type: ignore[method-assign]
        try:
            return scf_case(case["scf"], case["dst"], case["sender"], case["body"])
        finally:
            Management.process = orig  # type: ignore[method-assign]
    if case.get("kind") == "inner":
        orig = Management.process
        Management.process = lambda self, telegram: None  # type: ignore[method-assign]
        try:
            rx = Receiver({KEYED: KEY}, {SENDER: 0})
            got, issues, exc = rx.feed(secure_frame(KEY, SENDER, KEYED, 1, bytes(case["inner"]), encrypt=case["enc"]))
        finally:
            Management.process = orig  # type: ignore[method-assign]
        if exc is not None:
            return [(exc_sig(f"authenticated-frame-with-bad-content-raises:{case['class']}", exc), repr(exc))]
        return []
    p = w_plain_and_secured()
    p.merge(w_outgoing())
    return [(s, v[1]) for s, v in p.viols.items()]
