"""C23 Server-sent tunnel and management frames are delivered once, in order."""

from __future__ import annotations

from ..vloop import texc

from typing import Any

from xknx import XKNX
from xknx.io.device_management import DeviceManagement
from xknx.io.transport import UDPTransport
from xknx.io.tunnel import UDPTunnel
from xknx.knxip import DeviceConfigurationAck, DeviceConfigurationRequest, DisconnectRequest, TunnellingAck, TunnellingRequest

from ..runner import Ctx, Part
from ..sim.gateway import GW_ADDR, DefaultPolicy, Gateway
from ..vloop import World

TITLE = "incoming sequence counters"
OTHER_CHANNEL = 99


def cemi(i: int) -> bytes:
    return bytes([0x29, 0x00, 0xBC, 0xD0, 0x11, 0x01, 0x09, 0x01, 0x01, 0x00, 0x80 | (i & 1)]) + bytes([i & 0xFF, i >> 8 & 0xFF])


class TunnelWorld(World):
    """Real UDPTunnel connected (channel 7) to the simulated gateway."""

    def __init__(self, route_back: bool = False) -> None:
        super().__init__()
        self.gw = Gateway(self.loop)
        self.policy = DefaultPolicy(self.gw)
        self.gw.handler = self.policy
        self.up: list[bytes] = []
        self.xknx = XKNX()
        self.tunnel = UDPTunnel(self.xknx, self.up.append, gateway_ip=GW_ADDR[0], gateway_port=GW_ADDR[1], local_ip="192.168.1.2", route_back=route_back)
        t = self.spawn(self.tunnel.connect())
        self.loop.settle()
        assert t.done() and texc(t) is None, t
        self.channel = self.tunnel.communication_channel

    def feed(self, counter: int, channel: int | None = None, payload: int = 0) -> tuple[list[Any], list[bytes]]:
        """Deliver one TunnellingRequest and return (acks sent, frames passed up) caused by it."""
        n_log, n_up = len(self.gw.log), len(self.up)
        self.gw.send(TunnellingRequest(self.channel if channel is None else channel, counter, cemi(payload)))
        self.loop.settle()
        acks = [b for _, b in self.gw.log[n_log:]]
        return acks, self.up[n_up:]

    def key(self) -> tuple[int, bool]:
        return (self.tunnel._sequence.expected, self.tunnel._invalid_sequence_number_reconnect_task is not None)


class MgmtWorld(World):
    """Real DeviceManagement (client side acknowledger) on a UDPTransport, channel 5."""

    def __init__(self) -> None:
        super().__init__()
        self.gw = Gateway(self.loop)
        self.up: list[bytes] = []
        self.transport = UDPTransport(local_addr=("192.168.1.2", 0), remote_addr=GW_ADDR)
        t = self.spawn(self.transport.connect())
        self.loop.settle()
        assert t.done() and texc(t) is None
        self.channel = 5
        self.dm = DeviceManagement(self.transport, self.channel, self.up.append, data_endpoint=GW_ADDR)
        self.dm.start()

    def feed(self, counter: int, channel: int | None = None, payload: int = 0) -> tuple[list[Any], list[bytes]]:
        n_log, n_up = len(self.gw.log), len(self.up)
        self.gw.send(DeviceConfigurationRequest(self.channel if channel is None else channel, counter, cemi(payload)))
        self.loop.settle()
        return [b for _, b in self.gw.log[n_log:]], self.up[n_up:]

    def key(self) -> tuple[int, bool]:
        return (self.dm._sequence.expected, False)


def judge(kind: str, e: int, c: int, channel_ok: bool, acks: list[Any], up: list[bytes], payload: int, sent_channel: int) -> list[tuple[str, str]]:
    """Reference verdict of Tunnelling §2.6.1 for a frame with counter c when e is expected."""
    ack_cls = TunnellingAck if kind.startswith("tunnel") else DeviceConfigurationAck
    exp_up = [cemi(payload)] if (c == e and channel_ok) else []
    exp_ack = 1 if (channel_ok and (c == e or c == (e - 1) % 256)) else 0
    out = []
    where = f"{kind}: expected={e} received={c} channel_ok={channel_ok}"
    if up != exp_up:
        out.append((f"{kind}:passed-up-wrong:{'dup-or-ooo' if up else 'lost'}", f"{where}: passed up {len(up)} frame(s), reference {len(exp_up)}"))
    good = [a for a in acks if isinstance(a, ack_cls)]
    if len(acks) != len(good):
        out.append((f"{kind}:unexpected-frame-sent", f"{where}: client sent {[type(a).__name__ for a in acks]}"))
    if len(good) != exp_ack:
        out.append((f"{kind}:ack-count", f"{where}: {len(good)} acks sent, reference {exp_ack}"))
    for a in good:
        if a.sequence_counter != c or a.communication_channel_id != sent_channel or a.status_code.value != 0:
            out.append((f"{kind}:ack-fields", f"{where}: ack carries counter {a.sequence_counter} channel {a.communication_channel_id} status {a.status_code}"))
    return out


def reach(kind: str, e: int, route_back: bool = False) -> Any:
    """Fresh world driven by a real history to the state 'expected == e'."""
    w = TunnelWorld(kind == "tunnel-rb") if kind.startswith("tunnel") else MgmtWorld()
    for i in range(e):
        acks, up = w.feed(i, payload=i)
        if len(up) != 1:
            w.close()
            raise AssertionError(f"history to reach {e} broke at {i}")
    return w


def worker(kind: str, e: int, fresh_all: bool) -> Part:
    """All transitions out of the states (e, no timer) and (e, timer pending)."""
    import logging

    logging.disable(logging.CRITICAL)
    part = Part()
    states: set[tuple[str, int, bool]] = set()

    def record(w: Any, c: int, channel: int | None, viols: list[tuple[str, str]], pre: tuple[int, bool]) -> None:
        part.transitions += 1
        part.evaluations += 1
        if c in (e, (e - 1) % 256, (e + 1) % 256) or channel is not None:
            part.nontrivial += 1
        for sig, detail in viols:
            part.viol(sig, detail, {"kind": kind, "expected": e, "pending": pre[1], "counter": c, "channel": channel})

    def one(w: Any, c: int, channel: int | None = None) -> None:
        pre = w.key()
        states.add((kind, *pre))
        if pre[0] != e:
            raise AssertionError(f"state drifted: {pre} while exploring e={e}")
        acks, up = w.feed(c, channel=channel, payload=c)
        ch_ok = channel is None or kind.startswith("tunnel")  # the tunnel statement does not constrain foreign channel ids
        viols = judge(kind, e, c, ch_ok, acks, up, c, w.channel if channel is None else channel)
        post = w.key()
        want = ((e + 1) % 256) if (c == e and ch_ok) else e
        if post[0] != want:
            viols.append((f"{kind}:counter-state", f"expected={e} received={c}: next expected is {post[0]}, reference {want}"))
        states.add((kind, *post))
        record(w, c, channel, viols, pre)

    others = [c for c in range(256) if c != e]
    # (1) from a fresh world in state (e, no timer): every counter value, each on its own fresh history (quick: subset of e)
    if fresh_all:
        for c in list(range(256)):
            w = reach(kind, e)
            try:
                one(w, c)
            finally:
                w.close()
        w = reach(kind, e)
        try:
            one(w, e, channel=OTHER_CHANNEL)
        finally:
            w.close()
    # (2) one world: repeated frame, foreign channel, then every non-expected counter in sequence (state must not move),
    #     then the expected one (timer must be cancelled, counter advances), then the wrap-around neighbourhood again
    w = reach(kind, e)
    try:
        one(w, (e - 1) % 256)
        if kind == "mgmt":
            one(w, e, channel=OTHER_CHANNEL)
            one(w, (e - 1) % 256, channel=OTHER_CHANNEL)
        for c in others:
            one(w, c)
        if kind.startswith("tunnel") and not w.key()[1]:
            part.viol("tunnel:no-reconnect-scheduled", f"expected={e}: out-of-order frames did not schedule the reconnect timer", {"kind": kind, "expected": e})
        pre = w.key()
        acks, up = w.feed(e, payload=e)
        viols = judge(kind, e, e, True, acks, up, e, w.channel)
        if w.key() != ((e + 1) % 256, False):
            viols.append((f"{kind}:after-expected-state", f"after the expected frame {e}: state {w.key()}, reference {((e + 1) % 256, False)}"))
        record(w, e, None, viols, pre)
        states.add((kind, *w.key()))
        # the frame that was just consumed is now 'the one before the expected': acknowledged again, not passed up
        e2 = (e + 1) % 256
        acks, up = w.feed(e, payload=e)
        viols = judge(kind, e2, e, True, acks, up, e, w.channel)
        record(w, e, None, viols, w.key())
        if kind == "mgmt":
            # a redundant start() on the running instance is documented as a no-op: the connection's count goes on
            w.dm.start()
            if w.key()[0] != e2:
                part.viol("mgmt:redundant-start-changes-counter", f"expected={e2} before a second start() on the running instance, {w.key()[0]} after", {"kind": kind, "expected": e, "restart": "redundant"})
            acks, up = w.feed(e2, payload=e2)
            for sig, detail in judge(kind, e2, e2, True, acks, up, e2, w.channel):
                part.viol(sig + ":after-redundant-start", detail, {"kind": kind, "expected": e, "restart": "redundant"})
            # stop() + start() = the instance is reused for a new connection: its count starts at 0
            w.dm.stop()
            w.dm.start()
            if w.key()[0] != 0:
                part.viol("mgmt:counter-not-reset-on-new-connection", f"expected counter after stop()+start() is {w.key()[0]}", {"kind": kind, "expected": e, "restart": "stop-start"})
            acks, up = w.feed(0, payload=0)
            for sig, detail in judge(kind, 0, 0, True, acks, up, 0, w.channel):
                part.viol(sig + ":after-stop-start", detail, {"kind": kind, "expected": e, "restart": "stop-start"})
            part.transitions += 3
            part.evaluations += 3
        if kind.startswith("tunnel"):
            # a server-initiated disconnect -> reconnect: the next connection starts at 0 again
            w.gw.send(DisconnectRequest(w.channel))
            w.loop.run_until(w.loop.time() + 5)
            if w.tunnel.communication_channel is None or w.tunnel.communication_channel == w.channel:
                part.viol("tunnel:no-reconnect", f"no new channel after DisconnectRequest (channel={w.tunnel.communication_channel})", {"kind": kind, "expected": e, "reconnect": True})
            else:
                w.channel = w.tunnel.communication_channel
                if w.key()[0] != 0:
                    part.viol("tunnel:counter-not-reset", f"expected counter after reconnect is {w.key()[0]}", {"kind": kind, "expected": e, "reconnect": True})
                acks, up = w.feed(0, payload=0)
                for sig, detail in judge(kind, 0, 0, True, acks, up, 0, w.channel):
                    part.viol(sig + ":after-reconnect", detail, {"kind": kind, "expected": e, "reconnect": True})
                part.transitions += 1
                part.evaluations += 1
        for name, exc in w.loop.task_failures():
            part.viol(f"task-exception:{type(exc).__name__}", f"{name}: {exc!r}", {"kind": kind, "expected": e})
        for c in w.loop.exceptions:
            part.viol("loop-exception", repr(c)[:300], {"kind": kind, "expected": e})
    finally:
        w.close()
    part.traces += 1
    part.extra["state_set"] = {hash(s) for s in states}
    if e in (0, 255):
        part.sample({"kind": kind, "expected": e, "fed": "every counter 0..255 and a foreign channel id"})
    return part


def early_worker(route_back: bool, n_early: int, e_before: int) -> Part:
    """Server frames racing the ConnectResponse: the first n frames of the new connection are delivered in the SAME loop
    iteration as the ConnectResponse (before the connecting task resumes), on the first connection and on a reconnect
    that follows a connection on which e_before frames had been received."""
    import logging

    logging.disable(logging.CRITICAL)
    part = Part()
    case = {"kind": "early", "route_back": route_back, "n_early": n_early, "e_before": e_before}
    w = TunnelWorld(route_back)
    try:
        for i in range(e_before):
            w.feed(i, payload=i)
        # make the gateway push frames right behind its next ConnectResponse
        pol = w.policy
        gw = w.gw

        def handler(body: Any) -> None:
            from xknx.knxip import ConnectRequest

            pol(body)
            if isinstance(body, ConnectRequest):
                ch = pol.next_channel - 1
                for i in range(n_early):
                    gw.send(TunnellingRequest(ch, i, cemi(1000 + i)))

        gw.handler = handler
        n_log, n_up = len(gw.log), len(w.up)
        gw.send(DisconnectRequest(w.channel))
        w.loop.run_until(w.loop.time() + 5)
        new_ch = w.tunnel.communication_channel
        if new_ch is None or new_ch == w.channel:
            part.viol("tunnel:no-reconnect", f"no new channel after DisconnectRequest ({new_ch})", case)
        else:
            w.channel = new_ch
            for i in range(n_early, n_early + 3):
                gw.send(TunnellingRequest(new_ch, i, cemi(1000 + i)))
                w.loop.settle()
            acks = [b.sequence_counter for _, b in gw.log[n_log:] if isinstance(b, TunnellingAck) and b.communication_channel_id == new_ch]
            up = w.up[n_up:]
            want = list(range(n_early + 3))
            if acks != want:
                part.viol("tunnel:early-frames:acks", f"frames 0..{n_early + 2} of the new connection ({n_early} racing the ConnectResponse): acks {acks}, reference {want}", case)
            if up != [cemi(1000 + i) for i in want]:
                part.viol("tunnel:early-frames:passed-up", f"passed up {len(up)} frames, reference {len(want)} in order", case)
            part.transitions += n_early + 3
        part.evaluations += 1
        part.nontrivial += 1
        part.traces += 1
        for name, exc in w.loop.task_failures():
            part.viol(f"task-exception:{type(exc).__name__}", f"{name}: {exc!r}", case)
    finally:
        w.close()
    return part


def raising_worker(kind: str, e: int) -> Part:
    """A consumer that raises for every frame passed up: each expected frame is still acknowledged with its own counter, passed up
    once, and the counter advances (an acknowledgement sent only after the consumer has returned would be skipped)."""
    import logging

    logging.disable(logging.CRITICAL)
    part = Part()
    w = reach(kind, e)
    try:
        seen: list[bytes] = []

        def consumer(raw: Any) -> None:
            seen.append(raw)
            raise RuntimeError("consumer bug")

        if kind == "mgmt":
            w.dm.cemi_received_callback = consumer
        else:
            w.tunnel.cemi_received_callback = consumer
        ack_type = DeviceConfigurationAck if kind == "mgmt" else TunnellingAck
        for step, c in enumerate((e, e, (e + 1) % 256, (e + 3) % 256, (e + 2) % 256)):
            expected = w.key()[0]
            n_log, n_seen = len(w.gw.log), len(seen)
            try:
                w.feed(c, payload=c)
            except Exception:  # noqa: BLE001  (where the consumer's exception ends up is C22's subject)
                pass
            w.loop.settle()
            acks = [b.sequence_counter for _, b in w.gw.log[n_log:] if isinstance(b, ack_type)]
            up = len(seen) - n_seen
            want_ack = [c] if c in (expected, (expected - 1) % 256) else []
            want_up = 1 if c == expected else 0
            part.evaluations += 1
            part.transitions += 1
            part.nontrivial += 1
            case = {"kind": kind, "expected": e, "raising_consumer": True}
            if acks != want_ack:
                part.viol(f"{kind}:ack-count:raising-consumer", f"expected={expected} received={c} with a consumer that raises: acks {acks}, reference {want_ack}", case)
            if up != want_up:
                part.viol(f"{kind}:passed-up:raising-consumer", f"expected={expected} received={c} with a consumer that raises: passed up {up} times, reference {want_up}", case)
            want_next = (expected + 1) % 256 if c == expected else expected
            if w.key()[0] != want_next:
                part.viol(f"{kind}:counter-state:raising-consumer", f"expected={expected} received={c}: next expected {w.key()[0]}, reference {want_next}", case)
    finally:
        w.close()
    return part


def ind_cemi(i: int) -> bytes:
    # M_PropInfo.ind of the device object, property 11, one element, data = i: reaches the connection's indication callback
    return bytes.fromhex("f7000001" "0b" "1001") + bytes((i & 0xFF,))


def mgmt_connection_worker(route_back: bool, e: int, same_channel: bool) -> Part:
    """DeviceManagement as its user runs it: a real UDPDeviceManagementConnection through connect(), e frames, disconnect(),
    connect() again on the SAME object (the server assigns another channel id unless `same_channel`), frames on the new connection."""
    import logging

    from xknx.io.device_management_connection import UDPDeviceManagementConnection
    from xknx.knxip.knxip_enum import ConnectRequestType

    logging.disable(logging.CRITICAL)
    part = Part()
    with World() as w:
        loop = w.loop
        gw = Gateway(loop)
        pol = DefaultPolicy(gw, request_type=ConnectRequestType.DEVICE_MGMT_CONNECTION)
        gw.handler = pol
        up: list[bytes] = []
        conn = UDPDeviceManagementConnection(GW_ADDR[0], GW_ADDR[1], local_ip="192.168.1.2", route_back=route_back, indication_callback=lambda c: up.append(c.to_knx()))
        case = {"kind": "mgmt-connection", "route_back": route_back, "expected": e, "same_channel": same_channel}

        def feed(channel: int, counter: int, payload: int) -> tuple[list[Any], list[bytes]]:
            n_log, n_up = len(gw.log), len(up)
            gw.send(DeviceConfigurationRequest(channel, counter, ind_cemi(payload)))
            loop.settle()
            return [b for _, b in gw.log[n_log:]], up[n_up:]

        def judge2(tag: str, channel: int, counter: int, expected: int, channel_ok: bool, payload: int) -> None:
            acks, got = feed(channel, counter, payload)
            part.evaluations += 1
            part.transitions += 1
            exp_up = [ind_cemi(payload)] if (channel_ok and counter == expected) else []
            exp_ack = 1 if (channel_ok and counter in (expected, (expected - 1) % 256)) else 0
            good = [a for a in acks if isinstance(a, DeviceConfigurationAck)]
            where = f"mgmt-connection(route_back={route_back}) {tag}: channel {channel} ({'own' if channel_ok else 'not the open one'}) expected={expected} received={counter}"
            if got != exp_up:
                part.viol(f"mgmt-connection:passed-up-wrong:{tag}", f"{where}: passed up {len(got)} frame(s), reference {len(exp_up)}", case)
            if len(good) != exp_ack or len(acks) != len(good):
                part.viol(f"mgmt-connection:ack-count:{tag}", f"{where}: client sent {[type(a).__name__ for a in acks]}, reference {exp_ack} ack(s)", case)
            for a in good:
                if a.sequence_counter != counter or a.communication_channel_id != channel:
                    part.viol(f"mgmt-connection:ack-fields:{tag}", f"{where}: ack carries counter {a.sequence_counter} channel {a.communication_channel_id}", case)

        t = w.spawn(conn.connect())
        loop.settle()
        assert t.done() and texc(t) is None, t
        ch1 = conn.communication_channel
        for i in range(e):
            judge2("first-connection", ch1, i, i, True, i)
        t = w.spawn(conn.disconnect())
        loop.settle()
        if same_channel:
            pol.next_channel = ch1
        t = w.spawn(conn.connect())
        loop.settle()
        if not (t.done() and texc(t) is None):
            part.viol("mgmt-connection:second-connect-fails", repr(t), case)
            return part
        ch2 = conn.communication_channel
        if not same_channel:
            judge2("second-connection", ch1, 0, 0, False, 7)      # a straggler for the closed channel
        judge2("second-connection", ch2, 0, 0, True, 8)
        judge2("second-connection", ch2, 0, 1, True, 8)           # its repetition: acknowledged, not passed up again
        judge2("second-connection", ch2, 1, 1, True, 9)
        part.nontrivial += 1
        for name, exc in loop.task_failures():
            part.viol(f"task-exception:{type(exc).__name__}", f"{name}: {exc!r}", case)
        t = w.spawn(conn.disconnect())
        loop.settle()
    part.traces += 1
    return part


def run(ctx: Ctx) -> None:
    all_e = list(range(256))
    fresh = set(all_e) if ctx.thorough else {0, 1, 2, 127, 128, 254, 255, ctx.seed_byte()}
    ctx.rule = (
        "explicit-state search of the real UDPTunnel._tunnelling_request_received and DeviceManagement._device_configuration_request_received: "
        "every state (expected counter 0..255 x reconnect-timer pending) is reached by a real history from connect(); from each, every counter "
        "0..255 (and a foreign channel id) is fed and the acks sent / frames passed up / next state are compared with the three-way verdict of "
        "Tunnelling 2.6.1; plus reconnect => counter 0; plus, from 5 states each, a consumer that raises for every frame passed up (acknowledgement, single delivery and counter must not depend on the consumer returning); plus the real UDPDeviceManagementConnection (route_back off/on) through connect(), 0/1/3/255 frames, disconnect() and connect() again on the same object with another or the same channel id: the new connection starts at 0 on its own channel, a straggler for the closed channel is ignored. non-trivial = transitions with counter in {e-1,e,e+1} or foreign channel"
    )
    ctx.bounds = {"expected_values": 256, "fresh_history_per_transition_for_e": sorted(fresh), "counters_fed": 256}
    ctx.assumptions = ["the canonical state is (expected counter, timer pending): IncomingSequenceCounter.evaluate reads nothing else; drift of that key during a sweep is a harness error"]
    args = [(k, e, e in fresh and k != "tunnel-rb") for k in ("tunnel", "tunnel-rb", "mgmt") for e in all_e]
    ctx.pmap(worker, args)
    ctx.pmap(early_worker, [(rb, n, e) for rb in (False, True) for n in (1, 2, 3) for e in (0, 1, 3, 255)])
    ctx.pmap(raising_worker, [(k, e) for k in ("tunnel", "mgmt") for e in (0, 1, 2, 254, 255)])
    ctx.pmap(mgmt_connection_worker, [(rb, e, same) for rb in (False, True) for e in (0, 1, 3, 255) for same in (False, True)])
    ctx.total.states = len(ctx.total.extra.pop("state_set", ()))


def replay(case: Any) -> list[tuple[str, str]]:
    import logging

    logging.disable(logging.CRITICAL)
    if case.get("kind") == "mgmt-connection":
        p = mgmt_connection_worker(case["route_back"], case["expected"], case["same_channel"])
        return [(s, v[1]) for s, v in p.viols.items()]
    if case.get("kind") == "early":
        p = early_worker(case["route_back"], case["n_early"], case["e_before"])
        return [(s, v[1]) for s, v in p.viols.items()]
    kind, e = case["kind"], case["expected"]
    p = raising_worker(kind, e) if case.get("raising_consumer") else worker(kind, e, True)
    return [(s, v[1]) for s, v in p.viols.items()]
