"""C39 Device commands loop back to the state they requested."""

from __future__ import annotations

from ..vloop import texc

import bisect
import datetime
import itertools
import struct
from typing import Any, Callable

import xknx.devices as D
import xknx.devices.travelcalculator as TC
from xknx.dpt import DPTArray, DPTBase
from xknx.dpt.dpt_20 import HVACControllerMode, HVACOperationMode
from xknx.dpt.dpt_242 import XYYColor
from xknx.remote_value.remote_value_setpoint_shift import SetpointShiftMode
from xknx.telegram import GroupAddress, IndividualAddress, Telegram, TelegramDirection
from xknx.telegram.apci import GroupValueWrite

from ..runner import Ctx, Part, exc_sig
from ..sim.core import CoreWorld

TITLE = "device loop-back"

_IMAGES: dict[str, list[float]] = {}


def dpt_image(name: str) -> list[float]:
    """Sorted list of the values a 1- or 2-octet DPT can represent (its decode image)."""
    if name not in _IMAGES:
        cls = DPTBase.parse_transcoder(name)
        assert cls is not None, name
        vals = set()
        n = cls.payload_length
        for raw in range(256**n):
            try:
                vals.add(float(cls.from_knx(DPTArray(raw.to_bytes(n, "big")))))
            except Exception:  # noqa: BLE001
                pass
        _IMAGES[name] = sorted(vals)
    return _IMAGES[name]


def nearest_ok(req: float, rep: Any, image: list[float]) -> bool:
    if rep is None or isinstance(rep, bool):
        return False
    i = bisect.bisect_left(image, req)
    best = min(abs(x - req) for x in image[max(0, i - 1) : i + 1])
    return abs(float(rep) - req) <= best + 1e-9 * max(1.0, abs(req))


def scaling_image(lo: int, hi: int) -> list[float]:
    """Representable values of a RemoteValueScaling over [lo, hi]: integers raw*(hi-lo)/255+lo rounded (both directions allowed)."""
    return sorted({float(round(raw * (hi - lo) / 255 + lo)) for raw in range(256)})


class Scn:
    """One loop-back scenario: how to build the device, how to issue a command for a value, how to read the state back."""

    def __init__(self, label: str, build: Callable[[Any], Any], cmd: Callable[[Any, Any], Any], get: Callable[[Any], Any], values: list[Any],
                 ok: Callable[[Any, Any], bool], prepare: list[tuple[str, Any]] | None = None, settle: float = 1.0, pairs: bool = False,
                 feedback: Callable[[Any, Any], list[tuple[str, Any]]] | None = None, interrupt: float | None = None) -> None:
        self.label, self.build, self.cmd, self.get, self.values, self.ok = label, build, cmd, get, values, ok
        self.interrupt = interrupt  # in a pair of commands the second one follows after this many seconds (the first one is still being carried out)
        self.prepare = prepare or []
        self.settle = settle
        self.pairs = pairs
        self.feedback = feedback  # telegrams the actuator sends back after executing the command (state addresses the library cannot write):
        # the thermostat reports base + the shift it received as its new target temperature


def eq(a: Any, b: Any) -> bool:
    return a == b


_SCN: list[Scn] = []


def scenarios() -> list[Scn]:
    if not _SCN:
        _SCN.extend(_scenarios())
    return _SCN


def _scenarios() -> list[Scn]:
    S: list[Scn] = []
    B = [False, True]
    bcmd = lambda on, off: (lambda d, v: getattr(d, on)() if v else getattr(d, off)())  # noqa: E731
    for inv in B:
        S.append(Scn(f"switch(invert={inv})", lambda x, inv=inv: D.Switch(x, "d", group_address="1/0/1", invert=inv), bcmd("set_on", "set_off"), lambda d: d.state, B, eq, pairs=True))
    S.append(Scn("light.switch", lambda x: D.Light(x, "d", group_address_switch="1/0/1"), bcmd("set_on", "set_off"), lambda d: d.state, B, eq, pairs=True))
    S.append(Scn("light.brightness", lambda x: D.Light(x, "d", group_address_switch="1/0/1", group_address_brightness="1/0/2"), lambda d, v: d.set_brightness(v), lambda d: d.current_brightness, list(range(256)), eq))
    cols = [0, 1, 127, 128, 254, 255]
    rgb = list(itertools.product(cols, repeat=3))
    S.append(Scn("light.color", lambda x: D.Light(x, "d", group_address_switch="1/0/1", group_address_color="1/0/3"), lambda d, v: d.set_color(v), lambda d: d.current_color, rgb, lambda q, r: r == (q, None)))
    rgbw = [(c, w) for c in itertools.product([0, 128, 255], repeat=3) for w in (0, 1, 255)]
    S.append(Scn("light.rgbw", lambda x: D.Light(x, "d", group_address_switch="1/0/1", group_address_rgbw="1/0/4"), lambda d, v: d.set_color(v[0], v[1]), lambda d: d.current_color, rgbw, lambda q, r: r == q))
    indiv = {f"group_address_brightness_{c}": f"1/1/{i}" for i, c in enumerate(("red", "green", "blue", "white"), 1)} | {f"group_address_switch_{c}": f"1/2/{i}" for i, c in enumerate(("red", "green", "blue", "white"), 1)}
    S.append(Scn("light.individual-rgbw", lambda x: D.Light(x, "d", **indiv), lambda d, v: d.set_color(v[0], v[1]), lambda d: d.current_color, rgbw, lambda q, r: r == q, settle=2.0))
    S.append(Scn("light.individual-rgb", lambda x: D.Light(x, "d", **{k: v for k, v in indiv.items() if "white" not in k}), lambda d, v: d.set_color(v), lambda d: d.current_color[0], list(itertools.product([0, 128, 255], repeat=3)), eq, settle=2.0))
    hs = [(h, s) for h in (0, 1, 90, 179.5, 180, 359, 360) for s in (0, 1, 50, 99, 100)]
    S.append(Scn("light.hs", lambda x: D.Light(x, "d", group_address_switch="1/0/1", group_address_hue="1/0/5", group_address_saturation="1/0/6"), lambda d, v: d.set_hs_color(v), lambda d: d.current_hs_color,
                 hs, lambda q, r: r is not None and nearest_ok(q[0], r[0], dpt_image("angle")) and nearest_ok(q[1], r[1], dpt_image("percent")), pairs=True))
    xyy = [XYYColor(color=c, brightness=b) for c in (None, (0.0, 0.0), (0.5, 0.25), (1.0, 1.0)) for b in (None, 0, 1, 255)]

    def xyy_ok_pair(hist: list[Any], r: Any) -> bool:
        # expected: every field takes the most recently commanded valid value
        col = next((h.color for h in reversed(hist) if h.color is not None), None)
        bri = next((h.brightness for h in reversed(hist) if h.brightness is not None), None)
        if r is None:
            return col is None and bri is None
        cok = (r.color is None and col is None) or (r.color is not None and col is not None and all(abs(a - b) <= 1 / 65535 + 1e-9 for a, b in zip(r.color, col)))
        return cok and r.brightness == bri

    sx = Scn("light.xyy", lambda x: D.Light(x, "d", group_address_switch="1/0/1", group_address_xyy_color="1/0/7"), lambda d, v: d.set_xyy_color(v), lambda d: d.current_xyy_color, xyy, lambda q, r: xyy_ok_pair([q], r), pairs=True)
    sx.hist_ok = xyy_ok_pair  # type: ignore[attr-defined]
    S.append(sx)
    S.append(Scn("light.tunable_white", lambda x: D.Light(x, "d", group_address_switch="1/0/1", group_address_tunable_white="1/0/8"), lambda d, v: d.set_tunable_white(v), lambda d: d.current_tunable_white, list(range(256)), eq))
    S.append(Scn("light.color_temperature", lambda x: D.Light(x, "d", group_address_switch="1/0/1", group_address_color_temperature="1/0/9"), lambda d, v: d.set_color_temperature(v), lambda d: d.current_color_temperature,
                 [0, 1, 2700, 4000, 6500, 65535], eq))
    # covers: position / angle, plain and inverted
    for inv in B:
        S.append(Scn(f"cover.position(invert={inv})", lambda x, inv=inv: D.Cover(x, "d", group_address_long="1/3/1", group_address_stop="1/3/2", group_address_position="1/3/3", invert_position=inv, travel_time_down=20, travel_time_up=20),
                     lambda d, v: d.set_position(v), lambda d: d.current_position(), list(range(101)), lambda q, r: nearest_ok(q, r, scaling_image(0, 100)), settle=45.0, pairs=False))
        S.append(Scn(f"cover.angle(invert={inv})", lambda x, inv=inv: D.Cover(x, "d", group_address_long="1/3/1", group_address_angle="1/3/4", invert_angle=inv), lambda d, v: d.set_angle(v), lambda d: d.current_angle(),
                     list(range(101)), lambda q, r: nearest_ok(q, r, scaling_image(0, 100))))
    for inv in B:
        S.append(Scn(f"cover.updown(invert={inv})", lambda x, inv=inv: D.Cover(x, "d", group_address_long="1/3/1", group_address_stop="1/3/2", invert_updown=inv, travel_time_down=20, travel_time_up=20),
                     lambda d, v: d.set_down() if v else d.set_up(), lambda d: d.current_position(), B, lambda q, r: r == (100 if q else 0), settle=45.0, pairs=True))
    # a time-based cover (no position address: the library stops it itself) that is given a new target while it is still travelling
    def timed_cover(x: Any, inv: bool = False) -> Any:
        c = D.Cover(x, "d", group_address_long="1/3/1", group_address_stop="1/3/2", invert_updown=inv, travel_time_down=20, travel_time_up=20)
        c.travelcalculator.set_position(0)
        return c

    for inv in B:
        for gap in (2.0, 7.0, 12.0):
            S.append(Scn(f"cover.timed.retarget(invert={inv},after={gap:g}s)", lambda x, inv=inv: timed_cover(x, inv), lambda d, v: d.set_position(v), lambda d: d.current_position(), [0, 30, 50, 100],
                         lambda q, r: r == q, settle=45.0, pairs=True, interrupt=gap))
    # a cover that only has a position address: end-position commands go out as positions
    for inv in B:
        S.append(Scn(f"cover.position-only.updown(invert={inv})", lambda x, inv=inv: D.Cover(x, "d", group_address_position="1/3/3", invert_position=inv, travel_time_down=20, travel_time_up=20),
                     lambda d, v: d.set_down() if v else d.set_up(), lambda d: d.current_position(), B, lambda q, r: r == (100 if q else 0), settle=45.0, pairs=True))
        S.append(Scn(f"cover.position-only(invert={inv})", lambda x, inv=inv: D.Cover(x, "d", group_address_position="1/3/3", invert_position=inv, travel_time_down=20, travel_time_up=20),
                     lambda d, v: d.set_position(v), lambda d: d.current_position(), [0, 1, 50, 99, 100], lambda q, r: nearest_ok(q, r, scaling_image(0, 100)), settle=45.0, pairs=False))
    # fan
    S.append(Scn("fan.percent", lambda x: D.Fan(x, "d", group_address_speed="1/4/1"), lambda d, v: d.set_speed(v), lambda d: d.current_speed, list(range(101)), lambda q, r: nearest_ok(q, r, scaling_image(0, 100))))
    S.append(Scn("fan.step", lambda x: D.Fan(x, "d", group_address_speed="1/4/1", max_step=3), lambda d, v: d.set_speed(v), lambda d: d.current_speed, [0, 1, 2, 3], eq))
    S.append(Scn("fan.oscillation", lambda x: D.Fan(x, "d", group_address_speed="1/4/1", group_address_oscillation="1/4/2"), lambda d, v: d.set_oscillation(v), lambda d: d.current_oscillation, B, eq, pairs=True))
    S.append(Scn("fan.switch", lambda x: D.Fan(x, "d", group_address_speed="1/4/1", group_address_switch="1/4/3"), bcmd("turn_on", "turn_off"), lambda d: d.is_on, B, eq, pairs=True))
    S.append(Scn("fan.on-off-by-speed", lambda x: D.Fan(x, "d", group_address_speed="1/4/1"), bcmd("turn_on", "turn_off"), lambda d: d.is_on, B, eq, pairs=True))
    # climate
    temps = [round(5 + 0.1 * i, 1) for i in range(0, 351, 7)] + [21.0, 21.5, 19.99, 7.0, 35.0]
    S.append(Scn("climate.target_temperature", lambda x: D.Climate(x, "d", group_address_target_temperature="1/5/1"), lambda d, v: d.set_target_temperature(v), lambda d: d.target_temperature.value, temps,
                 lambda q, r: nearest_ok(q, r, dpt_image("temperature"))))
    for inv in B:
        S.append(Scn(f"climate.on_off(invert={inv})", lambda x, inv=inv: D.Climate(x, "d", group_address_on_off="1/5/2", on_off_invert=inv), bcmd("turn_on", "turn_off"), lambda d: d.is_on, B, eq, pairs=True))
    S.append(Scn("climate.fan_speed", lambda x: D.Climate(x, "d", group_address_fan_speed="1/5/3"), lambda d, v: d.set_fan_speed(v), lambda d: d.current_fan_speed, list(range(101)), lambda q, r: nearest_ok(q, r, scaling_image(0, 100))))
    S.append(Scn("climate.swing", lambda x: D.Climate(x, "d", group_address_swing="1/5/4"), lambda d, v: d.set_swing(v), lambda d: d.current_swing, B, eq, pairs=True))
    for mode in (SetpointShiftMode.DPT6010, SetpointShiftMode.DPT9002):
        for step in (0.1, 0.2, 0.5, 1.0, 0.25, 0.05):
            if mode is SetpointShiftMode.DPT9002 and step != 0.1:
                continue
            image = sorted({k * step for k in range(-128, 128)}) if mode is SetpointShiftMode.DPT6010 else dpt_image("temperature")
            shifts = [round(-6 + 0.1 * i, 1) for i in range(121)]
            if step in (0.25, 0.05):
                # steps that are not multiples of 0.1: the requests on the step's own grid as well (exactly representable ones included)
                shifts = sorted(set(shifts) | {round(k * step, 2) for k in range(-int(6 / step), int(6 / step) + 1) if -128 <= k <= 127})
            build = lambda x, mode=mode, step=step: D.Climate(x, "d", group_address_target_temperature_state="1/5/5", group_address_setpoint_shift="1/5/6", setpoint_shift_mode=mode, temperature_step=step)  # noqa: E731
            S.append(Scn(f"climate.setpoint_shift({mode.name},step={step})", build, lambda d, v: d.set_setpoint_shift(v), lambda d: d.setpoint_shift, shifts, lambda q, r, image=image: nearest_ok(q, r, image)))
            # target temperature through the shift: base 21.0 known from a target temperature of 21.0 with shift 0
            prep = [("1/5/5", DPTBase.parse_transcoder("temperature").to_knx(21.0)), ("1/5/6", DPTArray((0,)) if mode is SetpointShiftMode.DPT6010 else DPTBase.parse_transcoder("temperature").to_knx(0.0))]  # type: ignore[union-attr]
            tgts = [round(21.0 + s, 2) for s in shifts]
            S.append(Scn(f"climate.target_via_shift({mode.name},step={step})", build, lambda d, v: d.set_target_temperature(v), lambda d: d.setpoint_shift, tgts,
                         lambda q, r, image=image: nearest_ok(q - 21.0, r, image), prepare=prep, pairs=False,
                         feedback=lambda d, v: [("1/5/5", DPTBase.parse_transcoder("temperature").to_knx(21.0 + (d.setpoint_shift or 0.0)))]))  # type: ignore[union-attr]
    # a thermostat whose setpoint shift can only be read (state address), with a writable target temperature: the target is set
    # directly, whatever the shift says
    for mode in (SetpointShiftMode.DPT6010, SetpointShiftMode.DPT9002):
        prep_ro = [("1/5/5", DPTBase.parse_transcoder("temperature").to_knx(21.0)), ("1/5/9", DPTArray((2,)) if mode is SetpointShiftMode.DPT6010 else DPTBase.parse_transcoder("temperature").to_knx(0.2))]  # type: ignore[union-attr]
        S.append(Scn(f"climate.target(read-only-shift,{mode.name})",
                     lambda x, mode=mode: D.Climate(x, "d", group_address_target_temperature="1/5/7", group_address_target_temperature_state="1/5/5", group_address_setpoint_shift_state="1/5/9", setpoint_shift_mode=mode),
                     lambda d, v: d.set_target_temperature(v), lambda d: d.target_temperature.value, [round(19.0 + 0.5 * i, 1) for i in range(9)],
                     lambda q, r: nearest_ok(q, r, dpt_image("temperature")), prepare=prep_ro))
    # climate mode
    ops = [HVACOperationMode.COMFORT, HVACOperationMode.STANDBY, HVACOperationMode.ECONOMY, HVACOperationMode.BUILDING_PROTECTION]
    S.append(Scn("climate_mode.operation_mode", lambda x: D.ClimateMode(x, "d", group_address_operation_mode="1/6/1"), lambda d, v: d.set_operation_mode(v), lambda d: d.operation_mode, ops, eq, pairs=True))
    S.append(Scn("climate_mode.binary_operation_modes", lambda x: D.ClimateMode(x, "d", group_address_operation_mode_protection="1/6/2", group_address_operation_mode_economy="1/6/3", group_address_operation_mode_comfort="1/6/4", group_address_operation_mode_standby="1/6/5"),
                 lambda d, v: d.set_operation_mode(v), lambda d: d.operation_mode, ops, eq, pairs=True))
    S.append(Scn("climate_mode.binary_operation_modes-3", lambda x: D.ClimateMode(x, "d", group_address_operation_mode_protection="1/6/2", group_address_operation_mode_economy="1/6/3", group_address_operation_mode_comfort="1/6/4"),
                 lambda d, v: d.set_operation_mode(v), lambda d: d.operation_mode, ops, eq, pairs=True))
    cms = [HVACControllerMode.HEAT, HVACControllerMode.COOL, HVACControllerMode.AUTO, HVACControllerMode.FAN_ONLY, HVACControllerMode.DEHUMIDIFICATION]
    S.append(Scn("climate_mode.controller_mode", lambda x: D.ClimateMode(x, "d", group_address_controller_mode="1/6/6"), lambda d, v: d.set_controller_mode(v), lambda d: d.controller_mode, cms, eq, pairs=True))
    S.append(Scn("climate_mode.heat_cool", lambda x: D.ClimateMode(x, "d", group_address_heat_cool="1/6/7"), lambda d, v: d.set_controller_mode(v), lambda d: d.controller_mode, cms[:2], eq, pairs=True))
    S.append(Scn("climate_mode.mode+binary", lambda x: D.ClimateMode(x, "d", group_address_operation_mode="1/6/1", group_address_operation_mode_comfort="1/6/4", group_address_operation_mode_protection="1/6/2"),
                 lambda d, v: d.set_operation_mode(v), lambda d: d.operation_mode, ops, eq, pairs=True))
    # generic value devices
    numeric = {
        "percent": [0, 1, 33, 50, 99, 100, 0.4, 49.5, 99.7], "percentU8": [0, 1, 128, 255], "temperature": [-273, -30.55, 0, 0.01, 21.37, 100.04, 670433.28],
        "2byte_unsigned": [0, 1, 65535], "4byte_float": [0.0, 1.5, -1e-9, 3.4e38, 21.37], "angle": [0, 1, 180, 359, 360, 179.3], "percentV8": [-128, -1, 0, 127],
        "percentV16": [-327.68, -0.01, 0, 0.29, 327.67], "illuminance": [0, 0.5, 1000, 670433.28], "2byte_signed": [-32768, 0, 32767], "time_period_100msec": [0, 100, 6553500],
        "4byte_unsigned": [0, 4294967295], "4byte_signed": [-2147483648, 2147483647], "1byte_signed": [-128, 127], "pulse": [0, 255], "scene_number": [1, 64], "power": [0.0, 123.456],
    }
    for vt, vals in numeric.items():
        cls = DPTBase.parse_transcoder(vt)
        assert cls is not None
        if cls.payload_length <= 2:
            okf: Callable[[Any, Any], bool] = lambda q, r, vt=vt: nearest_ok(q, r, dpt_image(vt))  # noqa: E731
        elif "float" in vt or vt == "power":
            # the binary32 nearest to the request, or the request itself (the decoder presents 7 significant digits)
            okf = lambda q, r: r is not None and (r == q or r == struct.unpack(">f", struct.pack(">f", q))[0] or abs(r - q) <= abs(q) * 2**-23)  # noqa: E731
        else:
            okf = eq
        S.append(Scn(f"numeric_value({vt})", lambda x, vt=vt: D.NumericValue(x, "d", group_address="1/7/1", value_type=vt), lambda d, v: d.set(v), lambda d: d.resolve_state(), vals, okf))
        S.append(Scn(f"expose_sensor({vt})", lambda x, vt=vt: D.ExposeSensor(x, "d", group_address="1/7/2", value_type=vt), lambda d, v: d.set(v), lambda d: d.resolve_state(), vals, okf))
    # every numeric datapoint type at its boundaries
    from xknx.dpt import DPTNumeric

    from ..dptspace import all_dpt_classes

    for cls in all_dpt_classes():
        vt = getattr(cls, "value_type", None)
        if not (isinstance(cls, type) and issubclass(cls, DPTNumeric)) or not vt or vt in numeric:
            continue
        lo, hi, res = cls.value_min, cls.value_max, cls.resolution or 1
        # on-grid values only (multiples of the resolution): what an off-grid request becomes is C09's subject; the two outermost
        # codes of DPT 9 (0x7FFF / 0xF801, refused by the decoder) are C09 known findings and are left out here
        if cls.dpt_main_number == 9:
            lo, hi = max(lo, -671088.64 + 2 * 327.68), min(hi, 670433.28)
        mid = (lo + hi) / 2
        mid = round(mid / res) * res if cls.dpt_main_number != 14 else mid
        cand = [lo, hi, lo + res, hi - res, 0, 1 * res, mid, 7 * res]
        vals = []
        for v in cand:
            if cls.dpt_main_number not in (9, 14) and float(v).is_integer():
                v = int(v)
            if lo <= v <= hi and v not in vals:
                vals.append(v)
        if cls.payload_length <= 2:
            okf = lambda q, r, vt=vt: nearest_ok(q, r, dpt_image(vt))  # noqa: E731
        elif cls.dpt_main_number == 14:
            okf = lambda q, r: r is not None and (r == q or abs(r - q) <= abs(q) * 2**-23)  # noqa: E731
        else:
            vals = [int(v) for v in vals]
            okf = eq
        S.append(Scn(f"numeric_value({vt})", lambda x, vt=vt: D.NumericValue(x, "d", group_address="1/7/1", value_type=vt), lambda d, v: d.set(v), lambda d: d.resolve_state(), vals, okf))
    # structured values in their dict (JSON) form - what Home Assistant services and the MCP tools hand over; zero is a valid channel value
    from xknx.dpt.dpt_232 import RGBColor
    from xknx.dpt.dpt_251 import RGBWColor

    rgbw_d = [({"red": r, "green": g, "blue": b, "white": wv}, RGBWColor(r, g, b, wv)) for r, g, b, wv in ((255, 0, 0, 0), (0, 0, 0, 0), (1, 2, 3, 4), (0, 255, 0, 255), (255, 255, 255, 0))]
    rgb_d = [({"red": r, "green": g, "blue": b}, RGBColor(r, g, b)) for r, g, b in ((255, 0, 0), (0, 0, 0), (1, 2, 3), (0, 0, 255))]
    xyy_d = [({"x_axis": x, "y_axis": y, "brightness": br}, XYYColor((x, y), br)) for x, y, br in ((0.0, 0.0, 0), (0.5, 0.25, 255), (1.0, 0.0, 1), (0.0, 1.0, 0))]
    for vt, pairs in (("color_rgbw", rgbw_d), ("color_rgb", rgb_d), ("color_xyy", xyy_d)):
        vals = [i for i in range(len(pairs))]

        def okd(q: int, r: Any, pairs: Any = pairs, vt: str = vt) -> bool:
            want = pairs[q][1]
            if vt == "color_xyy":
                return r is not None and r.brightness == want.brightness and r.color is not None and all(abs(a - b) <= 1 / 65535 + 1e-9 for a, b in zip(r.color, want.color))
            return r == want

        S.append(Scn(f"expose_sensor({vt},dict)", lambda x, vt=vt: D.ExposeSensor(x, "d", group_address="1/7/8", value_type=vt), lambda d, i, pairs=pairs: d.set(pairs[i][0]), lambda d: d.resolve_state(), vals, okd, pairs=True))
    S.append(Scn("expose_sensor(binary)", lambda x: D.ExposeSensor(x, "d", group_address="1/7/2", value_type="binary"), lambda d, v: d.set(v), lambda d: d.resolve_state(), B, eq, pairs=True))
    S.append(Scn("expose_sensor(string)", lambda x: D.ExposeSensor(x, "d", group_address="1/7/2", value_type="string"), lambda d, v: d.set(v), lambda d: d.resolve_state(), ["", "a", "Hello World!!!", "14 characters."], eq))
    for n, vals in ((0, [0, 1, 63]), (1, [0, 1, 255]), (2, [0, 256, 65535]), (4, [0, 1, 2**32 - 1])):
        S.append(Scn(f"raw_value({n})", lambda x, n=n: D.RawValue(x, "d", payload_length=n, group_address="1/7/3"), lambda d, v: d.set(v), lambda d: d.resolve_state(), vals, eq))
    S.append(Scn("notification", lambda x: D.Notification(x, "d", group_address="1/7/4"), lambda d, v: d.set(v), lambda d: d.message, ["", "Ein Prosit", "14 characters."], eq))
    S.append(Scn("time", lambda x: D.TimeDevice(x, "d", group_address="1/7/5", localtime=False), lambda d, v: d.set(v), lambda d: d.value,
                 [datetime.time(0, 0, 0), datetime.time(23, 59, 59), datetime.time(12, 30, 1)], eq))
    S.append(Scn("date", lambda x: D.DateDevice(x, "d", group_address="1/7/6", localtime=False), lambda d, v: d.set(v), lambda d: d.value,
                 [datetime.date(1990, 1, 1), datetime.date(2089, 12, 31), datetime.date(2024, 2, 29)], eq))
    S.append(Scn("datetime", lambda x: D.DateTimeDevice(x, "d", group_address="1/7/7", localtime=False), lambda d, v: d.set(v), lambda d: d.value,
                 [datetime.datetime(1900, 1, 1, 0, 0, 0), datetime.datetime(2155, 12, 31, 23, 59, 59), datetime.datetime(2024, 2, 29, 12, 0, 1)], eq))
    return S


class LoopClock:
    def __init__(self, loop: Any) -> None:
        self.loop = loop

    def time(self) -> float:
        return self.loop.time()


# what an imported ETS project configures for the addresses of remote values that declare no dpt_class of their own
ETS_DPT = {"RemoteValueScaling": "5.001", "RemoteValueSwitch": "1.001", "RemoteValueUpDown": "1.008", "RemoteValueStep": "1.007", "RemoteValueColorRGBW": "251.600",
           "RemoteValueTemp": "9.001", "RemoteValueString": "16.000"}


def project_table(dev: Any) -> dict[Any, Any]:
    """group address -> DPT as a project import would declare it: the remote value's own dpt_class, or the ETS type of its kind."""
    rvs = list(dev._iter_remote_values())  # noqa: SLF001
    mode = getattr(dev, "mode", None)
    if mode is not None and hasattr(mode, "_iter_remote_values"):
        rvs += list(mode._iter_remote_values())  # noqa: SLF001
    table: dict[Any, Any] = {}
    for rv in rvs:
        dpt = getattr(rv, "dpt_class", None) or next((v for c in type(rv).__mro__ if (v := ETS_DPT.get(c.__name__))), None)
        if dpt is None:
            continue
        for ga in rv.group_addresses():
            table[ga] = dpt if isinstance(dpt, str) else {"main": dpt.dpt_main_number, "sub": dpt.dpt_sub_number}
    return table


def run_case(si: int, vis: tuple[int, ...], gadpt: bool = False) -> list[tuple[str, str]]:
    scn = scenarios()[si]
    viols: list[tuple[str, str]] = []
    saved = TC.time
    with CoreWorld(rate_limit=0) as w:
        TC.time = LoopClock(w.loop)  # type: ignore[assignment]
        try:
            dev = scn.build(w.xknx)
            w.xknx.devices.async_add(dev)
            if gadpt:
                w.xknx.group_address_dpt.set(project_table(dev))
            w.start()
            for ga, payload in scn.prepare:
                w.incoming(Telegram(GroupAddress(ga), payload=GroupValueWrite(payload), source_address=IndividualAddress("1.1.9")))
            w.run(0.5)
            hist = []
            for vi in vis:
                v = scn.values[vi]
                hist.append(v)
                n_before = len(w.iface.sent)
                t = w.spawn(scn.cmd(dev, v), name="harness-user")
                if scn.interrupt is not None and len(vis) > 1 and len(hist) < len(vis):
                    w.run(scn.interrupt)   # the next command interrupts this one: it is not judged on its own
                    continue
                w.run(scn.settle)
                if not t.done():
                    viols.append(("command-does-not-return", f"{scn.label}: {v!r}"))
                    break
                if texc(t) is not None:
                    break  # a refused value is not an accepted one (what may be refused is C11's subject)
                sent = w.iface.sent[n_before:]
                try:
                    rep = scn.get(dev)
                except Exception as exc:  # noqa: BLE001
                    viols.append((exc_sig(f"getter-raises:{scn.label.split('(')[0]}", exc), f"{scn.label} after {hist!r}: {exc!r}"))
                    break
                hist_ok = getattr(scn, "hist_ok", None)
                good = hist_ok(hist, rep) if hist_ok is not None else scn.ok(v, rep)
                if not good:
                    kind = "first-command" if len(hist) == 1 else "after-previous-command"
                    if gadpt:
                        kind += ":with-project-dpts"
                    viols.append((f"loop-back-differs:{scn.label}:{kind}", f"{scn.label}{' [group_address_dpt configured as in a project import]' if gadpt else ''}: commands {hist!r} -> device reports {rep!r}; telegrams sent: {[(str(tg.destination_address), repr(tg.payload)) for _t, tg in sent]}"))
                    break
                if not sent and scn.interrupt is None:   # (a timed cover already at the requested position has nothing to send)
                    viols.append((f"no-telegram-sent:{scn.label}", f"{scn.label}: command {v!r} queued nothing"))
                if scn.feedback is not None:
                    for ga, payload in scn.feedback(dev, v):
                        w.incoming(Telegram(GroupAddress(ga), payload=GroupValueWrite(payload), source_address=IndividualAddress("1.1.9")))
                    w.run(0.5)
            for name, exc in w.task_escapes():
                if name != "harness-user":
                    viols.append((exc_sig("task-exception", exc), f"{scn.label} {hist!r}: {name}: {exc!r}"))
        finally:
            TC.time = saved
    return viols


def cases(thorough: bool) -> list[tuple[int, tuple[int, ...], bool]]:
    base = _cases(thorough)
    out = [(si, vis, False) for si, vis in base]
    # the same with the project's DPTs configured (the queue then attaches eagerly decoded values to the telegrams):
    # quick: single commands and pairs for state-carrying setters; thorough: everything
    out += [(si, vis, True) for si, vis in base if thorough or len(vis) == 1 or (scenarios()[si].pairs and len(vis) == 2)]
    return out


def _cases(thorough: bool) -> list[tuple[int, tuple[int, ...]]]:
    out: list[tuple[int, tuple[int, ...]]] = []
    for si, scn in enumerate(scenarios()):
        n = len(scn.values)
        out += [(si, (i,)) for i in range(n)]
        if scn.pairs or (thorough and n <= 130):
            out += [(si, (i, j)) for i in range(n) for j in range(n)]
            if n <= 5:
                out += [(si, t) for t in itertools.product(range(n), repeat=3)]
        elif n > 1:
            # every value also as second command after the first and the last value of the alphabet
            out += [(si, (i, j)) for i in (0, n - 1) for j in range(n)]
    return out


def worker(k: int, n: int, thorough: bool) -> Part:
    import logging

    logging.disable(logging.CRITICAL)
    part = Part()
    allc = cases(thorough)
    scns = scenarios()
    for i in range(k, len(allc), n):
        si, vis, gadpt = allc[i]
        try:
            viols = run_case(si, vis, gadpt)
        except Exception as exc:  # noqa: BLE001
            viols = [(exc_sig(f"escape:{scns[si].label}", exc), f"{scns[si].label} {vis}: {exc!r}")]
        part.evaluations += 1
        if len(vis) > 1:
            part.nontrivial += 1
        part.outcomes[scns[si].label.split("(")[0] + (":violating" if viols else ":ok")] += 1
        for s, d in viols:
            part.viol(s, d, [si, scns[si].label, list(vis), gadpt], rank=(len(vis), gadpt, si, vis))
        if part.evaluations <= 2:
            part.sample([scns[si].label, [repr(scns[si].values[v]) for v in vis]])
    return part


def run(ctx: Ctx) -> None:
    scns = scenarios()
    ctx.rule = (
        f"{len(scns)} loop-back scenarios over every device class with a setter (switch, light: switch/brightness/rgb/rgbw/individual colours/hs/xyY/tunable white/colour temperature, cover: position/angle/up-down "
        "plain and inverted, fan: percent/step/oscillation/switch, climate: target temperature, on/off plain and inverted, fan speed, swing, setpoint shift in both modes x steps 0.1/0.2/0.5/1/0.25/0.05 directly and through "
        "set_target_temperature on a 0.1 K grid, climate mode: byte and binary operation modes, controller mode, heat/cool, numeric value and expose sensor over 17 value types, raw value, notification, date/time, expose sensor with colour values in dict form): "
        "real XKNX on the virtual loop, the command's telegrams pass the real queue, the fake interface, and are processed as outgoing by the device. EVERY value of each setter's alphabet (all 0..255 / 0..100 for "
        "scaled values) as a single command, as second command after the extreme values, and all pairs (triples for <=5 values) for state-carrying setters. Oracle: reported state = requested, or a nearest value of the "
        "datapoint's decode image (exact arithmetic on the image). Every single command (thorough: every case) is run a second time with xknx.group_address_dpt filled as a project import would "
        "(each remote value's own DPT, 5.001 for scaled values, 1.001 for switches ...), so that the queue's eagerly decoded value is what RemoteValue.process sees."
    )
    allc = cases(ctx.thorough)
    ctx.bounds = {"scenarios": len(scns), "cases": len(allc)}
    ctx.pmap(worker, [(k, 128, ctx.thorough) for k in range(128)])


def replay(case: Any) -> list[tuple[str, str]]:
    si, label, vis = case[:3]
    gadpt = bool(case[3]) if len(case) > 3 else False
    scns = scenarios()
    if scns[si].label != label:
        si = next(i for i, s in enumerate(scns) if s.label == label)
    return run_case(si, tuple(vis), gadpt)
