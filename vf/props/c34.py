"""C34 Telegram callbacks see exactly the telegrams they subscribed to."""

from __future__ import annotations

import itertools
from typing import Any

from xknx.devices import Switch
from xknx.dpt import DPTBinary
from xknx.telegram import AddressFilter, GroupAddress, IndividualAddress, Telegram, TelegramDirection
from xknx.telegram.address import InternalGroupAddress
from xknx.telegram.apci import GroupValueRead, GroupValueWrite

from ..ref import addr as R
from ..runner import Ctx, Part, exc_sig
from ..sim.core import CoreWorld

TITLE = "telegram callbacks"

# filter configurations: (label, group address strings | None, filter patterns | None)
FILTERS: list[tuple[str, list[str] | None, list[str] | None]] = [
    ("all", None, None),
    ("ga[1/1/1]", ["1/1/1"], None),
    ("ga[1/1/1,i-test]", ["1/1/1", "i-test"], None),
    ("af[1/1/*]", None, ["1/1/*"]),
    ("af[i-t*]", None, ["i-t*"]),
    ("ga[1/2/1]+af[2/*/*,1/1/1]", ["1/2/1"], ["2/*/*", "1/1/1"]),
    ("ga[]+af[1/1/1]", [], ["1/1/1"]),
    ("ga[1/1/1,1/1/1]+af[1/1/0-5]", ["1/1/1", "1/1/1"], ["1/1/0-5"]),
    ("af[1-2/1/1,3]", None, ["1-2/1/1,3"]),
    # the other spellings of the internal prefix that InternalGroupAddress accepts (i, i- or i_, blanks around the name)
    ("af[i_t*]", None, ["i_t*"]),
    ("af[iother ]+ga[i_test]", ["i_test"], ["iother "]),
]
DESTS = ["1/1/1", "1/2/1", "2/1/1", "3/0/0", "1/1/3", "i-test", "i-other", "i-t"]
# (telegrams to individual addresses never enter this queue: CEMIHandler hands them to Management, and
# GroupAddressDPT.set_decoded_data asserts a group destination for group services)


def cb_configs() -> list[tuple[int, bool, bool]]:
    """(filter index, match_for_outgoing, raises)"""
    return [(f, o, r) for f in range(len(FILTERS)) for o in (False, True) for r in (False, True)]


def telegram_kinds() -> list[tuple[str, str, str]]:
    out = []
    for d in DESTS:
        for direction in ("in", "out"):
            if d.startswith("ia:") and direction == "out":
                continue
            out.append((d, direction, "write"))
    out += [("1/1/1", "in", "read"), ("1/1/1", "out", "read"), ("i-test", "out", "read")]
    return out


def mk_dest(d: str) -> Any:
    if d.startswith("ia:"):
        return IndividualAddress(d[3:])
    if d[:1] in ("i", "I"):
        return InternalGroupAddress(d)
    return GroupAddress(d)


def ref_filter_matches(fi: int, dest: str) -> bool:
    """The statement as a predicate, with the independent filter grammar of vf/ref/addr.py."""
    _label, gas, afs = FILTERS[fi]
    if gas is None and afs is None:
        return True
    if dest.startswith("ia:"):
        return False
    def canon(x: str) -> str:
        if x[:1] in ("i", "I"):
            return "i-" + x[2 if x[1:2] in ("-", "_") else 1:].strip()
        return x

    if dest in [canon(g) for g in (gas or [])]:
        return True
    for pat in afs or []:
        if pat[:1] in ("i", "I"):
            if dest.startswith("i-") and R.glob_matches(canon(pat), dest):
                return True
        elif not dest.startswith("i-"):
            a, b, c = (int(x) for x in dest.split("/"))
            if R.pattern_matches(pat, (a << 11) | (b << 8) | c):
                return True
    return False


def ref_called(cfg: tuple[int, bool, bool], kind: tuple[str, str, str]) -> bool:
    fi, outgoing, _raises = cfg
    dest, direction, _pl = kind
    if direction == "out" and not outgoing:
        return False
    return ref_filter_matches(fi, dest)


MUTATE = "mutate-first"   # in place of an index to unregister: callback 0's lists are extended in place after registration


def run_case(cfgs: tuple[tuple[int, bool, bool], ...], stream: tuple[tuple[str, str, str], ...], unregister: Any) -> list[tuple[str, str]]:
    """One fresh XKNX; register the callbacks, feed the stream (then optionally unregister one and feed it again).

    With unregister == MUTATE the returned handle of callback 0 gets 3/0/0 appended to its group_addresses and the pattern
    'i-other' to its address_filters (the documented way to change a subscription, exercised by the repository's tests): it
    then also sees those telegrams, and no other callback's subscription changes."""
    viols: list[tuple[str, str]] = []
    with CoreWorld(rate_limit=0) as w:
        xknx = w.xknx
        log: list[tuple[int, int]] = []  # (callback index, telegram serial)
        dev_log: list[int] = []
        serial: dict[int, int] = {}
        dev = Switch(xknx, "dev", group_address="1/1/1")
        orig = dev.process

        def dev_process(t: Telegram) -> None:
            dev_log.append(serial[id(t)])
            orig(t)

        dev.process = dev_process  # type: ignore[method-assign]
        xknx.devices.async_add(dev)
        handles = []
        for ci, (fi, outgoing, raises) in enumerate(cfgs):
            _label, gas, afs = FILTERS[fi]

            def cb(t: Telegram, _ci: int = ci, _raises: bool = raises) -> None:
                log.append((_ci, serial[id(t)]))
                if _raises:
                    raise RuntimeError("callback bug")

            handles.append(
                xknx.telegram_queue.register_telegram_received_cb(
                    cb,
                    address_filters=None if afs is None else [AddressFilter(p) for p in afs],
                    group_addresses=None if gas is None else [mk_dest(g) for g in gas],
                    match_for_outgoing=outgoing,
                )
            )
        mutated = unregister == MUTATE
        if mutated:
            unregister = None
            handles[0].group_addresses.append(mk_dest("3/0/0"))
            handles[0].address_filters.append(AddressFilter("i-other"))
        w.start()
        keep: list[Telegram] = []
        phases = [list(range(len(cfgs)))]
        if unregister is not None:
            phases.append([i for i in range(len(cfgs)) if i != unregister])
        n = 0
        want: list[tuple[int, int]] = []
        want_dev: list[int] = []
        for phase, active in enumerate(phases):
            if phase == 1:
                w.run(5.0)  # the first pass is processed completely before the callback is unregistered
                xknx.telegram_queue.unregister_telegram_received_cb(handles[unregister])  # type: ignore[index]
            for kind in stream:
                dest, direction, pl = kind
                t = Telegram(
                    mk_dest(dest),
                    payload=GroupValueWrite(DPTBinary(1)) if pl == "write" else GroupValueRead(),
                    direction=TelegramDirection.INCOMING if direction == "in" else TelegramDirection.OUTGOING,
                    source_address=IndividualAddress("1.2.3"),
                )
                keep.append(t)
                serial[id(t)] = n
                for ci in active:
                    if ref_called(cfgs[ci], kind) or (mutated and ci == 0 and dest in ("3/0/0", "i-other") and (direction == "in" or cfgs[0][1])):
                        want.append((ci, n))
                if dest == "1/1/1":
                    want_dev.append(n)
                n += 1
                xknx.telegrams.put_nowait(t)
        w.run(5.0)
        ctxs = f"callbacks={[(FILTERS[f][0], 'outgoing' if o else 'incoming-only', 'raises' if r else 'ok') for f, o, r in cfgs]} stream={stream} unregister={MUTATE if mutated else unregister} log={log} dev={dev_log}"
        if xknx.telegrams._unfinished_tasks:  # noqa: SLF001
            viols.append(("stream-not-processed", ctxs))
        got = sorted(log)
        if got != sorted(want):
            missing = [x for x in want if x not in got]
            extra = list(got)
            for x in want:
                if x in extra:
                    extra.remove(x)
            if missing:
                ci, tn = missing[0]
                k = (stream * 2)[tn]
                after_raise = any(cfgs[c][2] and (c, tn) in got for c in range(ci))
                viols.append((f"callback-not-called:{'after-raising-callback' if after_raise else FILTERS[cfgs[ci][0]][0] + ':' + k[1]}", f"callback {ci} missed telegram {tn} {k}; {ctxs}"))
            if extra:
                ci, tn = extra[0]
                k = (stream * 2)[tn]
                dup = (ci, tn) in want
                viols.append((f"callback-{'called-twice' if dup else 'called-for-unsubscribed'}:{FILTERS[cfgs[ci][0]][0]}:{k[1]}", f"callback {ci} got telegram {tn} {k}; {ctxs}"))
        # per telegram the callbacks run in registration order is NOT required by the statement; exactly-once is
        if sorted(dev_log) != want_dev:
            viols.append(("device-processing-wrong", f"device on 1/1/1 processed {dev_log}, expected {want_dev}; {ctxs}"))
        for name, exc in w.task_escapes():
            viols.append((exc_sig("task-exception", exc), f"{name}: {exc!r}; {ctxs}"))
    return viols


def pending_send_case(f_early: int, f_late: int, dest: str) -> list[tuple[str, str]]:
    """The subscription set changes while an outgoing telegram is waiting inside CEMIHandler.send_telegram for its L_Data.con
    (up to 3 s): one callback is unregistered, another registered.  The telegram is processed when the send returns - by the
    callbacks registered THEN: the new one sees it (if it matches), the removed one does not."""
    viols: list[tuple[str, str]] = []
    with CoreWorld(rate_limit=0) as w:
        xknx = w.xknx
        log: list[str] = []

        def reg(name: str, fi: int) -> Any:
            _label, gas, afs = FILTERS[fi]
            return xknx.telegram_queue.register_telegram_received_cb(
                lambda t, _n=name: log.append(_n),
                address_filters=None if afs is None else [AddressFilter(p) for p in afs],
                group_addresses=None if gas is None else [mk_dest(g) for g in gas],
                match_for_outgoing=True,
            )

        always = reg("always", 0)
        early = reg("early", f_early)
        w.start()
        w.iface.confirm = False
        xknx.telegrams.put_nowait(Telegram(mk_dest(dest), payload=GroupValueWrite(DPTBinary(1)), direction=TelegramDirection.OUTGOING, source_address=IndividualAddress("1.2.3")))
        w.run(0.1)
        pending = len(w.iface.sent) == 1 and not log
        xknx.telegram_queue.unregister_telegram_received_cb(early)
        reg("late", f_late)
        xknx.cemi_handler._l_data_confirmation_event.set()  # noqa: SLF001  the gateway's L_Data.con arrives
        w.run(5.0)
        want = ["always"] + (["late"] if ref_filter_matches(f_late, dest) else [])
        ctxs = f"early={FILTERS[f_early][0]} late={FILTERS[f_late][0]} dest={dest}: callbacks called {log}, reference {want} (send was pending: {pending})"
        if not pending:
            viols.append(("harness:send-not-pending", ctxs))
        if "early" in log:
            viols.append(("callback-called-after-unregistration:pending-send", ctxs))
        if log.count("late") != want.count("late"):
            viols.append(("callback-not-called:registered-during-pending-send" if "late" in want else "callback-called-for-unsubscribed:registered-during-pending-send", ctxs))
        if log.count("always") != 1:
            viols.append(("callback-not-called:all:out" if not log.count("always") else "callback-called-twice:all:out", ctxs))
        del always
    return viols


def cases(thorough: bool, seed: int) -> list[tuple[Any, Any, Any]]:
    cfgs = cb_configs()
    kinds = telegram_kinds()
    out: list[tuple[Any, Any, Any]] = []
    singles = [(k,) for k in kinds]
    pairs = list(itertools.product(kinds, repeat=2))
    # (a) every single callback x every stream of <= 2 telegrams
    for c in cfgs:
        for s in singles + pairs:
            out.append(((c,), s, None))
    # (b) every ordered pair of callbacks x every single telegram, and x all pairs of a reduced kind set
    red = [k for k in kinds if k[0] in ("1/1/1", "1/2/1", "i-test", "2/1/1") and k[2] == "write"]
    for c1 in cfgs:
        for c2 in cfgs:
            for s in singles:
                out.append(((c1, c2), s, None))
            if thorough:
                for s in itertools.product(red, repeat=2):
                    out.append(((c1, c2), s, None))
    # (c) unregistration: ordered pairs / triples of callbacks, unregister each position, single telegrams twice
    redc = [c for c in cfgs if c[0] in (0, 1, 3, 4, 5)]
    for c1 in redc:
        for c2 in redc:
            for u in (0, 1):
                for s in [(k,) for k in red]:
                    out.append(((c1, c2), s, u))
    # (d) triples over a reduced configuration set x single telegrams (a raising callback in every position)
    redc3 = [c for c in cfgs if c[0] in (0, 1, 4, 7)] if not thorough else redc
    for cs in itertools.product(redc3, repeat=3):
        for s in [(k,) for k in red] + ([] if not thorough else list(itertools.product(red[:4], repeat=2))):
            out.append((cs, s, None))
    # (f) a subscription extended in place on the returned handle: every ordered pair of filter shapes, the whole alphabet as stream
    for f0 in range(len(FILTERS)):
        for f1 in range(len(FILTERS)):
            for o in (False, True):
                out.append((((f0, o, False), (f1, o, False)), tuple(kinds), MUTATE))
    # (g) the subscription set changes while an outgoing send is pending
    for f0 in range(len(FILTERS)):
        for f1 in range(len(FILTERS)):
            for dest in ("1/1/1", "2/1/1", "1/2/1"):   # (internal addresses never wait for the interface)
                out.append((("pending-send", f0, f1), dest, "PENDING"))
    # (e) streams of 3 for single callbacks (thorough)
    if thorough:
        for c in cfgs:
            for s in itertools.product(red, repeat=3):
                out.append(((c,), s, None))
    return out


def worker(k: int, n: int, thorough: bool, seed: int) -> Part:
    import logging

    logging.disable(logging.CRITICAL)
    part = Part()
    allc = cases(thorough, seed)
    for i in range(k, len(allc), n):
        cfgs, stream, unreg = allc[i]
        part.evaluations += 1
        try:
            viols = pending_send_case(cfgs[1], cfgs[2], stream) if unreg == "PENDING" else run_case(cfgs, stream, unreg)
        except Exception as exc:  # noqa: BLE001
            viols = [(exc_sig("escape", exc), f"{exc!r} for {allc[i]}")]
        if len(cfgs) > 1 or len(stream) > 1:
            part.nontrivial += 1
        if unreg == "PENDING":
            part.outcomes["pending-send"] += 1
            for sig, detail in viols:
                part.viol(sig, detail, [list(cfgs), stream, unreg], rank=(2, 1, i))
            continue
        part.outcomes[f"{len(cfgs)}cb/{len(stream)}tg/{'unreg' if unreg is not None else 'plain'}"] += 1
        for sig, detail in viols:
            part.viol(sig, detail, [list(map(list, cfgs)), list(map(list, stream)), unreg], rank=(len(cfgs), len(stream), i))
        if i < 3:
            part.sample([list(map(list, cfgs)), list(map(list, stream)), unreg])
    return part


def run(ctx: Ctx) -> None:
    n = 64
    ctx.rule = (
        f"real XKNX/TelegramQueue on the virtual loop, fresh per case: callback configurations = {len(FILTERS)} filter shapes (none, address lists incl. internal and duplicates, patterns incl. internal "
        f"globs, ranges and lists, both, empty list + pattern) x outgoing flag x raising = {len(cb_configs())}; telegram kinds = {len(telegram_kinds())} (8 destinations incl. unmatched and internal x in/out x write/read). (a) every single callback x ALL streams of <=2 telegrams; (b) ALL ordered pairs of callbacks x every telegram (thorough: x all pairs of 7 kinds); "
        "(c) pairs with each one unregistered between two passes of the stream; (d) all triples over a reduced set; (e, thorough) streams of 3; (f) all ordered pairs of filter shapes where the first callback's handle gets an address and a pattern appended in place after registration (only that callback's subscription changes); (g) all ordered pairs of filter shapes x 3 destinations where one callback is unregistered and another registered while an outgoing telegram waits for its L_Data.con: the telegram is processed by the callbacks registered when the send returns. Oracle: the invocation log equals the statement's "
        "predicate (independent filter grammar) as a multiset - each matching (callback, telegram) exactly once, nothing else - and the device on 1/1/1 processes every telegram to it once, raising callbacks or not."
    )
    total = len(cases(ctx.thorough, ctx.seed))
    ctx.bounds = {"cases": total, "callback_configs": len(cb_configs()), "telegram_kinds": len(telegram_kinds())}
    ctx.pmap(worker, [(k, n, ctx.thorough, ctx.seed) for k in range(n)])


def replay(case: Any) -> list[tuple[str, str]]:
    cfgs, stream, unreg = case
    if unreg == "PENDING":
        return pending_send_case(cfgs[1], cfgs[2], stream)
    return run_case(tuple(tuple(c) for c in cfgs), tuple(tuple(s) for s in stream), unreg)
