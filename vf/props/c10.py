"""C10 Complex and enum datapoint values round-trip through their JSON form."""

from __future__ import annotations

import json
from typing import Any

from xknx.dpt.dpt import DPTComplex, DPTEnum

from ..dptspace import all_dpt_classes, payloads, pl, same_value, unpl
from ..runner import Ctx, Part, exc_sig

TITLE = "complex/enum values round-trip through JSON form"


def classes() -> list[Any]:
    return [c for c in all_dpt_classes() if issubclass(c, (DPTComplex, DPTEnum))]


def check_one(cls: Any, payload: Any) -> tuple[str, list[tuple[str, str]]]:
    name = cls.__name__
    try:
        v = cls.from_knx(payload)
    except Exception:  # noqa: BLE001
        return "rejected", []
    try:
        if issubclass(cls, DPTEnum):
            form: Any = v.name.lower()
        else:
            form = v.as_dict()
    except Exception as exc:  # noqa: BLE001
        return "no-form", [(exc_sig(f"form-failed:{name}", exc), f"{name}: {payload!r} -> {v!r}: {exc!r}")]
    try:
        text = json.dumps(form, allow_nan=False)
    except Exception as exc:  # noqa: BLE001
        try:
            json.dumps(form)
            kind = "json-nan"
        except Exception:  # noqa: BLE001
            kind = "json-unserialisable"
        return kind, [(f"{kind}:{name}", f"{name}: {payload!r} -> {form!r}: {exc!r}")]
    back = json.loads(text)
    try:
        p2 = cls.to_knx(back)
    except Exception as exc:  # noqa: BLE001
        return "encoder-refused", [(f"json-form-refused:{name}:{type(exc).__name__}", f"{name}: {payload!r} -> {form!r} -> to_knx raised {exc!r}")]
    try:
        v2 = cls.from_knx(p2)
    except Exception as exc:  # noqa: BLE001
        return "redecode-failed", [(exc_sig(f"redecode-failed:{name}", exc), f"{name}: {payload!r} -> {form!r} -> {p2!r} -> {exc!r}")]
    if not same_value(v, v2):
        return "changed", [(f"value-changed:{name}", f"{name}: {payload!r} -> {v!r} -> json {text} -> {p2!r} -> {v2!r}")]
    return "ok", []


def worker(ci: int, seed: int, thorough: bool) -> Part:
    part = Part()
    cls = classes()[ci]
    name = cls.__name__
    nt = 0
    for payload in payloads(cls, seed, thorough):
        part.evaluations += 1
        outcome, viols = check_one(cls, payload)
        part.outcomes[outcome] += 1
        if outcome != "rejected":
            nt += 1
            if nt == 2:
                part.sample([name, pl(payload)])
        for sig, detail in viols:
            part.viol(sig, detail, [name, pl(payload)])
    part.nontrivial = nt
    return part


def w_cross() -> Part:
    """History independence across types: the JSON (name / dict) form of a value of type B written right after a value of type A.
    Every ordered pair of enum types x every member name of B (after every member name of A that B also knows, and after one it
    does not know); the result must be what B gives for the member itself."""
    import json

    part = Part()
    enums = [c for c in classes() if issubclass(c, DPTEnum)]
    for a in enums:
        for b in enums:
            if a is b:
                continue
            names_a = [m.name.lower() for m in a.data_type]
            for mb in b.data_type:
                nb = mb.name.lower()
                try:
                    want = b.to_knx(mb)
                except Exception:  # noqa: BLE001
                    continue
                for na in ([nb] if nb in names_a else []) + names_a[:1]:
                    part.evaluations += 1
                    part.nontrivial += 1
                    try:
                        a.to_knx(json.loads(json.dumps(na)))
                        got = b.to_knx(json.loads(json.dumps(nb)))
                    except Exception as exc:  # noqa: BLE001
                        part.viol(exc_sig(f"name-form-raises-after-other-type:{b.__name__}", exc), f"{a.__name__}.to_knx({na!r}) then {b.__name__}.to_knx({nb!r}): {exc!r}", ["cross", a.__name__, b.__name__, na, nb])
                        continue
                    if got != want:
                        part.viol(f"value-changed-after-other-type:{b.__name__}", f"{a.__name__}.to_knx({na!r}) then {b.__name__}.to_knx({nb!r}) = {got!r}, the member itself encodes to {want!r}",
                                  ["cross", a.__name__, b.__name__, na, nb], rank=(len(na),))
    return part


def run(ctx: Ctx) -> None:
    cl = classes()
    ctx.rule = (
        "every DPTComplex/DPTEnum class x the C07 payload space; non-trivial = payload decodes; its as_dict()/lower-case member name "
        "goes through json.dumps(allow_nan=False)/json.loads, to_knx and from_knx and must compare equal (NaN==NaN); plus every ordered pair of enum types: the name form of a member of B written right after a name of A (the same name where both know it) encodes as the member itself"
    )
    ctx.bounds = {"classes": len(cl)}
    ctx.pmap(worker, [(i, ctx.seed, ctx.thorough) for i in range(len(cl))])
    ctx.pmap(w_cross, [()])
    ctx.total.extra["classes"] = len(cl)


def replay(case: Any) -> list[tuple[str, str]]:
    if case and case[0] == "cross":
        p = w_cross()
        return [(sg, v[1]) for sg, v in p.viols.items()]
    cls = next(c for c in all_dpt_classes() if c.__name__ == case[0])
    return check_one(cls, unpl(case[1]))[1]
