"""C30 Secure routing accepts only authenticated, timely frames."""

from __future__ import annotations

import types
from typing import Any

from xknx import XKNX
from xknx.io import ip_secure as ip_secure_mod
from xknx.io.const import XKNX_SERIAL_NUMBER
from xknx.io.routing import SecureRouting
from xknx.io.transport import UDPTransport
from xknx.knxip import KNXIPFrame, RoutingIndication, SecureWrapper, TimerNotify

from ..explore import Chooser, explore, finalize_states, replay_schedule
from ..knxipspace import valid_frames
from ..ref import ipsec
from ..runner import Ctx
from ..vloop import World
from .c24 import make_cemi
from .c27 import FakeSock

TITLE = "secure routing"
KEY = bytes(range(16))
PEER_SERIAL = bytes.fromhex("00fa12345678")
PEER = ("192.168.1.77", 3671)
LATENCY_MS = 1000
OFFSETS = [-2000, -500, -50, +1000]
EVENTS = (["next-timer", "+100ms", "user-send"]
          + [f"notify({k},{o:+d})" for k in ("genuine", "forged") for o in OFFSETS]
          + ["sync-reply", "sync-reply-twice", "sync-reply-wrong-tag", "sync-reply-forged"]
          + [f"wrapped-indication({k},{o:+d})" for k in ("genuine", "forged", "wrong-key") for o in OFFSETS]
          + ["plain-frames-of-every-service", "wrapped-unparsable-inner-frames", "disconnect+connect"]
          # unauthentic frames claiming a group time one hour ahead (whatever is remembered from them must never be applied, not even later)
          + ["notify(forged,+3600000)", "wrapped-indication(forged,+3600000)", "wrapped-indication(wrong-key,+3600000)"])
# services a secure multicast node still has to accept unencrypted (03.08.09: discovery and self description)
PLAIN_ALLOWED = {0x0201, 0x0202, 0x0203, 0x0204, 0x020B, 0x020C}
CEMI = bytes.fromhex("2900bcd011010901010081")


def make(steps: int, uniform_max: bool, family: str = "", latency_ms: int = LATENCY_MS):
    """family 'ahead': the session starts (for free) with an authentic answer to our synchronisation request that puts the group
    timer one hour ahead of the local clock, and one user send - the deviation budget then goes into what follows (restart, ...)."""
    def scenario(ch: Chooser) -> list[tuple[str, str]]:
        viols: list[tuple[str, str]] = []
        saved_random = ip_secure_mod.random
        saved_sock = UDPTransport.__dict__["create_multicast_sock"]
        UDPTransport.create_multicast_sock = staticmethod(lambda own_ip, remote_addr: FakeSock())  # type: ignore[method-assign]
        counter = {"n": 0}

        def randbytes(n: int) -> bytes:
            counter["n"] += 1
            return (0xA000 + counter["n"]).to_bytes(2, "big")[:n]

        ip_secure_mod.random = types.SimpleNamespace(uniform=lambda a, b: b if uniform_max else a, randbytes=randbytes)
        try:
            with World() as w:
                loop = w.loop
                loop._vtime = 5000.0  # noqa: SLF001
                xknx = XKNX()
                up: list[bytes] = []
                r = SecureRouting(xknx, None, up.append, local_ip="192.168.1.2", backbone_key=KEY, latency_ms=latency_ms)
                delivered: list[Any] = []
                r.transport.register_callback(lambda frame, src, tr: delivered.append(frame.body))
                t0 = w.spawn(r.connect(), name="harness-connect")
                loop.settle()
                st = r.transport.secure_timer
                tr = next(e for e in loop.datagram_endpoints if e.kind == "udp")
                events: list[Any] = []
                n_ind = [0]

                def local_timer() -> int:
                    return st.current_timer_value()

                def sync_tag() -> bytes | None:
                    h = st._expected_notify_handler  # noqa: SLF001
                    return h[0] if h is not None else None

                auth_timers: list[tuple[int, float]] = []   # (timer value carried by an authentic frame, when it was fed)

                def feed(raw: bytes, label: str, authentic: bool, expect_forward: bool | None) -> None:
                    before = st._clock_difference  # noqa: SLF001
                    if authentic:
                        service = raw[2:4]
                        carried = int.from_bytes(raw[8:14] if service == b"\x09\x50" else raw[6:12], "big") if service in (b"\x09\x50", b"\x09\x55") else None
                        if carried is not None:
                            auth_timers.append((carried, loop.time()))
                    n_del = len(delivered)
                    try:
                        r.transport.data_received_callback(raw, PEER)
                    except BaseException as exc:  # noqa: BLE001
                        viols.append((f"receive-raises:{type(exc).__name__}:{label.split('(')[0]}", f"{label}: {exc!r}; events={events}"))
                        return
                    loop.settle()   # a waiting synchronize() applies an accepted timer value only when its task resumes
                    after = st._clock_difference  # noqa: SLF001
                    if not authentic and after != before:
                        viols.append((f"unauthenticated-frame-moves-timer:{label.split('(')[0]}", f"{label}: clock difference {before} -> {after}; events={events}"))
                    if after < before:
                        viols.append(("timer-moved-backwards", f"{label}: clock difference {before} -> {after}; events={events}"))
                    got = len(delivered) - n_del
                    if expect_forward is not None and bool(got) != expect_forward:
                        viols.append((f"forwarding-wrong:{label.split('(')[0]}:{'forwarded' if got else 'dropped'}", f"{label}: forwarded={got}, reference {expect_forward}; timer_authenticated={st.timer_authenticated}; events={events}"))

                def do(ev: str) -> None:
                    cd0 = st._clock_difference  # noqa: SLF001
                    _do(ev)
                    loop.settle()
                    cd1 = r.transport.secure_timer._clock_difference  # noqa: SLF001
                    if r.transport.secure_timer is st and cd1 > cd0:
                        # the group timer was moved forward during this event: some authentic frame must have carried that value
                        now_timer = local_timer()
                        if not any(tv + (loop.time() - t_fed) * 1000 >= now_timer - 2 for tv, t_fed in auth_timers):
                            viols.append(("timer-moved-forward-without-authentic-frame", f"during {ev}: clock difference {cd0} -> {cd1} (timer now {now_timer}), authentic frames so far carried {auth_timers}; events={events}"))

                def _do(ev: str) -> None:
                    events.append((round(loop.time(), 3), ev))
                    if ev == "next-timer":
                        loop.advance_next()
                    elif ev == "+100ms":
                        loop.run_until(loop.time() + 0.1)
                    elif ev == "user-send":
                        async def snd(i: int = n_ind[0]) -> None:
                            try:
                                await r.send_cemi(make_cemi(i))
                            except Exception:  # noqa: BLE001
                                pass
                        n_ind[0] += 1
                        w.spawn(snd(), name="harness-send")
                    elif ev.startswith("notify("):
                        kind, off = ev[7:-1].split(",")
                        timer = max(0, local_timer() + int(off))
                        feed(ipsec.timer_notify_frame(KEY, timer, PEER_SERIAL, b"\x11\x22", forge=kind == "forged"), ev, kind == "genuine", False)
                    elif ev.startswith("sync-reply"):
                        tag = sync_tag() or b"\x00\x01"
                        if ev == "sync-reply-wrong-tag":
                            tag = bytes((tag[0] ^ 0xFF, tag[1]))
                        timer = local_timer() + 777
                        raw = ipsec.timer_notify_frame(KEY, timer, XKNX_SERIAL_NUMBER, tag, forge=ev == "sync-reply-forged")
                        feed(raw, ev, ev != "sync-reply-forged", False)
                        if ev == "sync-reply-twice":
                            feed(ipsec.timer_notify_frame(KEY, timer + 1, XKNX_SERIAL_NUMBER, tag), ev + "#2", True, False)
                    elif ev.startswith("wrapped-indication("):
                        kind, off = ev[19:-1].split(",")
                        timer = max(0, local_timer() + int(off))
                        plain = KNXIPFrame.init_from_body(RoutingIndication(CEMI)).to_knx()
                        # forged: one MAC bit flipped (the content still decrypts to a frame); wrong-key: wrapped with another key, so
                        # what the receiver decrypts is noise that does not parse
                        raw = ipsec.wrap(KEY if kind != "wrong-key" else bytes(16), 0, timer.to_bytes(6, "big"), PEER_SERIAL, b"\x33\x44", plain)
                        if kind == "forged":
                            raw = raw[:-1] + bytes((raw[-1] ^ 1,))
                        timely = timer > local_timer() - latency_ms
                        feed(raw, ev, kind == "genuine", kind == "genuine" and timely and st.timer_authenticated)
                    elif ev == "disconnect+connect":
                        # the same SecureRouting object is stopped and started again (XKNX.stop() / start()): the group timer
                        # it sends with must not fall back behind values it has already used
                        async def restart() -> None:
                            try:
                                await r.disconnect()
                                await r.connect()
                            except Exception:  # noqa: BLE001
                                pass

                        w.spawn(restart(), name="harness-restart")
                        loop.settle()
                    elif ev == "wrapped-unparsable-inner-frames":
                        # authentic, timely wrappers whose content the library cannot parse: they must be dropped, not raise
                        inners = [
                            bytes.fromhex("0610053300100000") + bytes(8),                      # ROUTING_SYSTEM_BROADCAST (not implemented)
                            bytes.fromhex("061009990006"),                                       # unknown service
                            bytes.fromhex("06100530000f") + CEMI[:9],                            # RoutingIndication with a truncated cEMI
                            bytes.fromhex("061105300011") + CEMI,                                # wrong protocol version
                            bytes.fromhex("0610053000ff") + CEMI,                                # announced length beyond the content
                            b"",                                                                 # nothing inside
                        ]
                        for i, inner in enumerate(inners):
                            timer = local_timer() + 10 + i
                            raw = ipsec.wrap(KEY, 0, timer.to_bytes(6, "big"), PEER_SERIAL, b"\x33\x44", inner)
                            feed(raw, f"wrapped-unparsable#{i}", True, None if i == 2 else False)  # (#2 is a well-formed RoutingIndication at this layer)
                    else:
                        for plain in valid_frames():
                            service = int.from_bytes(plain[2:4], "big")
                            if service in (0x0950, 0x0955):
                                continue
                            feed(plain, f"plain({service:#06x})", False, service in PLAIN_ALLOWED)

                if family == "ahead":
                    loop.settle()
                    tag = sync_tag() or b"\x00\x01"
                    events.append((round(loop.time(), 3), "sync-reply(+1h)"))
                    feed(ipsec.timer_notify_frame(KEY, local_timer() + 3_600_000, XKNX_SERIAL_NUMBER, tag), "sync-reply(+1h)", True, False)
                    do("user-send")
                for _ in range(steps):
                    loop.settle()
                    c = ch.choose("env", len(EVENTS))
                    do(EVENTS[c])
                loop.run_until(loop.time() + 30)
                # outgoing timer values never decrease
                timers = []
                # (a disconnect()+connect() opens a new endpoint: everything the object ever sent counts)
                all_sent = sorted((x for e in loop.datagram_endpoints if e.kind == "udp" for x in e.sent), key=lambda x: x[0])
                for t, data, _addr in all_sent:
                    body = KNXIPFrame.from_knx(data)[0].body
                    if isinstance(body, SecureWrapper):
                        timers.append((t, "wrapper", int.from_bytes(body.sequence_information, "big")))
                        if ipsec.unwrap(KEY, 0, data) is None:
                            viols.append(("outgoing-wrapper-not-authentic", f"t={t}; events={events}"))
                    elif isinstance(body, TimerNotify):
                        timers.append((t, "notify", body.timer_value))
                        if body.message_authentication_code != ipsec.timer_notify_mac(KEY, body.timer_value, body.serial_number, body.message_tag):
                            viols.append(("outgoing-timer-notify-mac-wrong", f"t={t}; events={events}"))
                    else:
                        viols.append((f"plain-frame-sent:{type(body).__name__}", f"t={t}; events={events}"))
                for a, b in zip(timers, timers[1:]):
                    if b[2] < a[2]:
                        viols.append(("outgoing-timer-decreases", f"{a} then {b}; events={events}"))
                        break
                for name, exc in loop.task_failures():
                    if not name.startswith(("harness-send", "harness-restart")):
                        viols.append((f"task-exception:{type(exc).__name__}", f"{name}: {exc!r}; events={events}"))
                for cx in loop.exceptions:
                    viols.append((f"loop-exception:{type(cx.get('exception')).__name__}", repr(cx)[:300] + f"; events={events}"))
                ch.notes.append(f"auth={st.timer_authenticated},keeper={st.timekeeper},fwd={len(delivered)},sent={len(all_sent)}")
                ch.state((st.timer_authenticated, st.timekeeper, st.sched_update, len(delivered)))
        finally:
            ip_secure_mod.random = saved_random
            UDPTransport.create_multicast_sock = saved_sock  # type: ignore[method-assign]
        seen: set[str] = set()
        return [(s, d) for s, d in viols if not (s in seen or seen.add(s))]

    return scenario


SCENARIOS = {"secure-routing": make}


def selftest() -> None:
    ipsec.selftest()


def run(ctx: Ctx) -> None:
    ipsec.selftest()
    bound = (3 if ctx.thorough else 2) + int(__import__("os").environ.get("VF_DEEPER", 0))
    steps = 5
    ctx.rule = (
        f"real SecureRouting/SecureGroup/SecureSequenceTimer from connect() on (timer synchronisation running), in-memory multicast, random.uniform owned by the harness (min and max), "
        f"{steps} environment steps; every schedule with <= {bound} events other than 'next timer' from: +100 ms, user send, TimerNotify genuine/forged at local timer {OFFSETS} ms, "
        "the reply to our synchronisation tag (once, twice, wrong tag, forged), wrapped RoutingIndication genuine / with a flipped MAC bit / wrapped with another key (decrypts to noise) at the same offsets, one plain frame of every service, authentic wrappers around unparsable content type, disconnect()+connect() on the same object. "
        "A third family runs with latency_ms=500 (frames 500 ms behind are then too old). A second family starts (for free) with an authentic synchronisation answer one hour ahead and a user send. Frames are built by the independent reference. Oracle: nothing raises; only authentic frames move the timer and never backwards; wrapped frames are forwarded iff authentic, timely "
        "(> local - 1000 ms) and after synchronisation; plain frames only for discovery/description; everything sent is an authentic wrapper or TimerNotify with non-decreasing timer"
    )
    ctx.bounds = {"deviation_bound": bound, "steps": steps, "events": len(EVENTS)}
    for umax in (False, True):
        explore(ctx, __name__, "secure-routing", (steps, umax), bound=bound)
    explore(ctx, __name__, "secure-routing", (4, False, "ahead"), bound=min(bound, 2))
    explore(ctx, __name__, "secure-routing", (4, False, "", 500), bound=min(bound, 2))   # a configured latency tolerance of 500 ms
    finalize_states(ctx)


def replay(case: Any) -> list[tuple[str, str]]:
    return replay_schedule(__name__, case)
